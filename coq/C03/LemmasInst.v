(* C03/LemmasInst.v -- instantiation of the generic results for the concrete
   model: the parse table of LLP/Table.v, the productions extended with
   $START$ -> start $END$, the executable form of the part1 hypotheses. *)
From Coq Require Import ZArith List Bool Lia Arith.
From AK Require Import Common.Err LLP.Base LLP.Table LLP.RecCheck LLP.Parse
     C03.Spec C03.LemmasRC C03.LemmasParse C03.LemmasTerm.
Import ListNotations.
Open Scope nat_scope.

(* ------------------------------------------------------------------ induction on Nullable *)
Lemma Nullable_ind' : forall (R : sym -> list rule) (P : sym -> Prop),
  (forall A r, In r (R A) -> Forall (Nullable R) (rprod r) -> Forall P (rprod r) -> P A) ->
  forall s, Nullable R s -> P s.
Proof.
  intros R P H.
  refine (fix IH (s : sym) (n : Nullable R s) {struct n} : P s :=
            match n with
            | Nullable_rule _ A r Hin HF =>
                H A r Hin HF
                  ((fix go (l : list sym) (hf : Forall (Nullable R) l) {struct hf} : Forall P l :=
                      match hf with
                      | Forall_nil _ => Forall_nil _
                      | @Forall_cons _ _ x l' hx ht => @Forall_cons _ _ x l' (IH x hx) (go l' ht)
                      end) (rprod r) HF)
            end).
Qed.

(* ------------------------------------------------------------------ part1_okb reflects part1_ok *)
Lemma nodupb_NoDup : forall l, nodupb l = true -> NoDup l.
Proof.
  induction l as [|x l IH]; simpl; intro H; [constructor|].
  apply andb_true_iff in H. destruct H as [H1 H2]. constructor; auto.
  intro Hin. apply mem_In in Hin. rewrite Hin in H1. discriminate.
Qed.

Lemma grules_In : forall (g : grammar) k r, In r (grules g k) -> exists rules, In (k, rules) g /\ In r rules.
Proof.
  induction g as [|[k0 v0] g IH]; intros k r H; unfold grules in H; simpl in H; [contradiction|].
  destruct (sym_eqb k0 k) eqn:E.
  - apply sym_eqb_eq in E. subst. exists v0. split; auto. left; auto.
  - destruct (IH k r H) as [rules [H1 H2]]. exists rules. split; auto. right; auto.
Qed.

Lemma part1_okb_ok : forall g terms start, part1_okb g terms start = true -> part1_ok g terms start.
Proof.
  intros g terms start H. unfold part1_okb in H.
  repeat (apply andb_true_iff in H; destruct H as [H ?]).
  rename H into Ht, H5 into Hk, H4 into Hn, H3 into Hi, H2 into Hit, H1 into He, H0 into Hs.
  split; [|split; [|split; [|split; [|split; [|split]]]]].
  - intros t Hm. rewrite forallb_forall in Ht. apply mem_In in Hm. specialize (Ht t Hm).
    unfold grules. rewrite glookup_None_keys; auto. intro Hin. apply mem_In in Hin. rewrite Hin in Ht. discriminate.
  - intros k r s Hr Hsr. destruct (grules_In g k r Hr) as [rules [H1 H2]].
    rewrite forallb_forall in Hk. specialize (Hk (k, rules) H1). simpl in Hk.
    rewrite forallb_forall in Hk. specialize (Hk r H2).
    rewrite forallb_forall in Hk. specialize (Hk s Hsr).
    apply orb_true_iff in Hk. destruct Hk as [Hk|Hk]; auto. right. apply mem_In; auto.
  - apply nodupb_NoDup; auto.
  - intro Hin. apply mem_In in Hin. rewrite Hin in Hi. discriminate.
  - destruct (mem INIT_SYM terms); auto; discriminate.
  - exact He.
  - apply mem_In; auto.
Qed.

(* ------------------------------------------------------------------ $START$ -> start $END$ adds no cycle *)
Section Bridge.
  Variable g : grammar.
  Variable terms : list sym.
  Variable start : sym.
  Hypothesis P1 : part1_ok g terms start.

  Notation Rg := (grules g).
  Notation Rx := (xrules g start).

  Lemma xrules_other : forall s, s <> INIT_SYM -> Rx s = Rg s.
  Proof. intros s H. unfold xrules. rewrite sym_eqb_neq; auto. Qed.

  Lemma xrules_init : Rx INIT_SYM = [init_rule start].
  Proof. unfold xrules. rewrite sym_eqb_refl. reflexivity. Qed.

  Lemma end_no_rules : Rg END_TOKEN = [].
  Proof. destruct P1 as [H [_ [_ [_ [_ [He _]]]]]]. apply H; auto. Qed.

  Lemma start_not_init : start <> INIT_SYM.
  Proof. destruct P1 as [_ [_ [_ [Hn [_ [_ Hs]]]]]]. intro E. subst. contradiction. Qed.

  Lemma prods_without_init : forall k r, In r (Rg k) -> ~ In INIT_SYM (rprod r).
  Proof.
    destruct P1 as [_ [Hk [_ [Hn [Hi _]]]]]. intros k r Hr Hin.
    destruct (Hk k r INIT_SYM Hr Hin) as [H|H]; [congruence|contradiction].
  Qed.

  Lemma nullable_x_g : forall s, Nullable Rx s -> Nullable Rg s /\ s <> INIT_SYM.
  Proof.
    apply Nullable_ind'. intros A r Hin HF IH.
    destruct (list_eq_dec Z.eq_dec A INIT_SYM) as [->|Hne].
    - exfalso. rewrite xrules_init in Hin. destruct Hin as [<-|[]]. simpl in IH.
      inversion IH as [|? ? _ IH2]; subst. inversion IH2 as [|? ? [HE _] _]; subst.
      inversion HE as [? r' Hr' _]; subst. rewrite end_no_rules in Hr'. contradiction.
    - split; auto. rewrite xrules_other in Hin by auto. apply Nullable_rule with r; auto.
      eapply Forall_impl; [|exact IH]. intros a [Ha _]. exact Ha.
  Qed.

  Lemma lstep_x_target : forall A B, lstep Rx A B -> B <> INIT_SYM.
  Proof.
    intros A B [r [pre [post [Hin [Hsplit _]]]]] E. subst B.
    assert (Hi : In INIT_SYM (rprod r)) by (rewrite Hsplit; apply in_app_iff; right; left; auto).
    destruct (list_eq_dec Z.eq_dec A INIT_SYM) as [->|Hne].
    - rewrite xrules_init in Hin. destruct Hin as [<-|[]]. simpl in Hi.
      destruct Hi as [Hi|[Hi|[]]].
      + apply start_not_init; auto.
      + discriminate.
    - rewrite xrules_other in Hin by auto. eapply prods_without_init; eauto.
  Qed.

  Lemma lstep_x_g : forall A B, A <> INIT_SYM -> lstep Rx A B -> lstep Rg A B.
  Proof.
    intros A B Hne [r [pre [post [Hin [Hsplit Hpre]]]]]. rewrite xrules_other in Hin by auto.
    exists r, pre, post. split; [|split]; auto.
    eapply Forall_impl; [|exact Hpre]. intros a Ha. apply nullable_x_g; auto.
  Qed.

  Lemma lpath_x_g : forall A B, lpath Rx A B -> A <> INIT_SYM -> lpath Rg A B.
  Proof.
    intros A B P. unfold lpath in *. induction P; intro Hne.
    - apply lpath_one. apply lstep_x_g; auto.
    - eapply lpath_cons.
      + apply lstep_x_g; eauto.
      + apply IHP. eapply lstep_x_target; eauto.
  Qed.

  Lemma lpath_x_end : forall A B, lpath Rx A B -> B <> INIT_SYM.
  Proof. intros A B P. unfold lpath in *. induction P; auto. eapply lstep_x_target; eauto. Qed.

  Lemma left_recursive_x_g : left_recursive Rx -> left_recursive Rg.
  Proof.
    intros [A P]. exists A. apply lpath_x_g; auto. eapply lpath_x_end; eauto.
  Qed.
End Bridge.

(* ------------------------------------------------------------------ the parse table of LLP/Table.v *)
Lemma In_insert_rule : forall r x l, In x (insert_rule r l) <-> x = r \/ In x l.
Proof.
  induction l as [|a l IH]; simpl; [intuition|].
  destruct (Z.ltb (rsort r) (rsort a)); simpl; rewrite ?IH; intuition.
Qed.

Lemma In_sort_rules_aux : forall l acc x, In x (fold_left (fun acc r => insert_rule r acc) l acc) <-> In x l \/ In x acc.
Proof.
  induction l as [|a l IH]; intros acc x; simpl; [intuition|].
  rewrite IH, In_insert_rule. intuition.
Qed.

Lemma In_sort_rules : forall l x, In x (sort_rules l) <-> In x l.
Proof. intros l x. unfold sort_rules. rewrite In_sort_rules_aux. simpl. intuition. Qed.

Lemma length_insert_rule : forall r l, length (insert_rule r l) = S (length l).
Proof.
  induction l as [|a l IH]; simpl; auto. destruct (Z.ltb (rsort r) (rsort a)); simpl; auto.
Qed.

Lemma length_sort_rules_aux : forall l acc,
  length (fold_left (fun acc r => insert_rule r acc) l acc) = length l + length acc.
Proof.
  induction l as [|a l IH]; intros acc; simpl; auto. rewrite IH, length_insert_rule. lia.
Qed.

Lemma length_sort_rules : forall l, length (sort_rules l) = length l.
Proof. intro l. unfold sort_rules. rewrite length_sort_rules_aux. simpl. lia. Qed.

Lemma table_get_sub : forall T A t r, In r (table_get T A t) -> In r (grules (t_grammar T) A).
Proof.
  intros T A t r H. unfold table_get in H. apply (proj1 (In_sort_rules _ _)) in H. apply filter_In in H. tauto.
Qed.

Lemma length_filter_le : forall (A : Type) (f : A -> bool) l, length (filter f l) <= length l.
Proof. induction l as [|a l IH]; simpl; auto. destruct (f a); simpl; lia. Qed.

(* bounds for a finite grammar *)
Definition all_rules (g : grammar) : list rule := flat_map snd g.
Definition max_alts (g : grammar) : nat := S (length (all_rules g)).
Definition max_len (g : grammar) : nat := 2 + list_sum (map (fun r => length (rprod r)) (all_rules g)).

Lemma grules_all : forall (g : grammar) k r, In r (grules g k) -> In r (all_rules g).
Proof.
  intros g k r H. destruct (grules_In g k r H) as [rules [H1 H2]].
  unfold all_rules. apply in_flat_map. exists (k, rules). auto.
Qed.

Lemma grules_incl_length : forall (g : grammar) k, length (grules g k) <= length (all_rules g).
Proof.
  induction g as [|[k0 v0] g IH]; intro k; unfold grules; simpl; [lia|].
  unfold all_rules. simpl. rewrite app_length. destruct (sym_eqb k0 k).
  - lia.
  - specialize (IH k). unfold grules, all_rules in IH. lia.
Qed.

Lemma In_sum_le : forall (A : Type) (f : A -> nat) l x, In x l -> f x <= list_sum (map f l).
Proof.
  induction l as [|a l IH]; simpl; intros x H; [contradiction|].
  destruct H as [->|H]; [lia|]. specialize (IH x H). lia.
Qed.

(* ------------------------------------------------------------------ termination of parse for the concrete tables *)
Section Concrete.
  Variable T : tables.
  Variable terms : list sym.
  Variable start : sym.
  Variable sfxs : list sym.
  Variable toks : list token.

  Notation g := (t_grammar T).
  Hypothesis P1 : part1_ok g terms start.
  Hypothesis Hnlr : ~ left_recursive (grules g).

  Notation Rx := (xrules g start).
  Notation is_term := (fun s : sym => mem s terms).

  Lemma init_not_key : grules g INIT_SYM = [].
  Proof.
    destruct P1 as [_ [_ [_ [Hn _]]]]. unfold grules. rewrite glookup_None_keys; auto.
  Qed.

  Lemma table_sub_x : forall A t r, In r (table_get T A t) -> In r (Rx A).
  Proof.
    intros A t r H. apply table_get_sub in H.
    destruct (list_eq_dec Z.eq_dec A INIT_SYM) as [->|Hne].
    - rewrite init_not_key in H. contradiction.
    - rewrite (xrules_other g start A Hne). exact H.
  Qed.

  Lemma init_in_x : In (init_rule start) (Rx INIT_SYM).
  Proof. rewrite xrules_init. left; auto. Qed.

  Definition Ux : list sym := INIT_SYM :: gkeys g.

  Lemma Ux_all : forall s, Rx s <> [] -> In s Ux.
  Proof.
    intros s H. destruct (list_eq_dec Z.eq_dec s INIT_SYM) as [->|Hne]; [left; auto|].
    right. rewrite (xrules_other g start s Hne) in H. apply grules_keys; auto.
  Qed.

  Lemma HLx : forall A r, In r (Rx A) -> length (rprod r) <= max_len g.
  Proof.
    intros A r H. unfold max_len.
    destruct (list_eq_dec Z.eq_dec A INIT_SYM) as [->|Hne].
    - rewrite xrules_init in H. destruct H as [<-|[]]. simpl. lia.
    - rewrite (xrules_other g start A Hne) in H. apply grules_all in H.
      pose proof (In_sum_le rule (fun r => length (rprod r)) (all_rules g) r H). simpl in H0. lia.
  Qed.

  Lemma HAx : forall A t, length (table_get T A t) <= max_alts g.
  Proof.
    intros A t. unfold table_get, max_alts. rewrite length_sort_rules.
    pose proof (length_filter_le rule (fun r => mem t (predict (t_terminals T) (t_nulls T) (t_first T) (t_follow T) r))
                                 (grules g A)).
    pose proof (grules_incl_length g A). lia.
  Qed.

  Lemma not_lr_x : ~ left_recursive Rx.
  Proof. intro H. apply Hnlr. eapply left_recursive_x_g; eauto. Qed.

  (* number of loop iterations that certainly suffice: 2^parse_bound *)
  Definition parse_bound : nat :=
    mu toks Ux (max_len g) (max_alts g) (init_stack start).

  Lemma parse_halts : forall st',
    run_pow is_term (table_get T) sfxs toks parse_bound (init_stack start) <> Running st'.
  Proof.
    unfold parse_bound.
    apply (run_pow_halts Rx is_term (table_get T) sfxs toks start Ux (max_len g) (max_alts g)
             table_sub_x init_in_x Ux_all HLx HAx).
    - unfold max_alts. lia.
    - exact not_lr_x.
  Qed.

  Lemma parse_no_hang : parse is_term (table_get T) sfxs toks parse_bound start <> Err Hang.
  Proof.
    unfold parse. pose proof parse_halts as H.
    destruct (run_pow is_term (table_get T) sfxs toks parse_bound (init_stack start)) as [s| | |]; simpl; try discriminate.
    exfalso. apply (H s). reflexivity.
  Qed.

  Lemma parse_bound_le :
    parse_bound <= (max_alts g * (max_len g + 1) + 1) ^ S (S (length (gkeys g)) * S (length toks)).
  Proof.
    unfold parse_bound.
    pose proof (mu_init_le Rx toks start Ux (max_len g) (max_alts g) init_in_x HLx) as H.
    unfold B, D, Ux in H. simpl length in H. apply H. unfold max_alts. lia.
  Qed.

  (* the spine bound for the concrete parser *)
  Lemma spine_concrete : forall st p, reach is_term (table_get T) sfxs toks start st ->
    plinked Rx (at_pos p st) /\ NoDup (map fsym (at_pos p st)) /\
    length (at_pos p st) <= S (length (gkeys g)).
  Proof.
    intros st p Hr.
    apply (spine_bound_l Rx is_term (table_get T) sfxs toks start table_sub_x init_in_x Ux Ux_all st p Hr not_lr_x).
  Qed.
End Concrete.
