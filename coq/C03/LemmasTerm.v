(* C03/LemmasTerm.v -- the parse loop terminates when the grammar is not
   left-recursive: a numeral measure in base B with D digits (D = bound of the
   stack depth from the spine bound; digit of a stack element = untried
   alternatives and unmatched symbols of the current one) decreases with every
   step of LLP/Parse.v:step. *)
From Coq Require Import ZArith List Bool Lia Arith.
From AK Require Import Common.Err LLP.Base LLP.Parse C03.Spec C03.LemmasRC C03.LemmasParse.
Import ListNotations.
Open Scope nat_scope.

Section Term.
  Variable R : sym -> list rule.
  Variable is_term : sym -> bool.
  Variable table : sym -> sym -> list rule.
  Variable sfxs : list sym.
  Variable toks : list token.
  Variable start : sym.
  Variable U : list sym.
  Variable L Amax : nat.

  Notation stepP := (step is_term table sfxs toks).
  Notation PINV := (PINV R toks).
  Notation frame_wf := (frame_wf R toks).

  Hypothesis table_sub : forall A t r, In r (table A t) -> In r (R A).
  Hypothesis init_in : In (init_rule start) (R INIT_SYM).
  Hypothesis U_all : forall s, R s <> [] -> In s U.
  Hypothesis HL : forall A r, In r (R A) -> length (rprod r) <= L.
  Hypothesis HA : forall A t, length (table A t) <= Amax.
  Hypothesis HA1 : 1 <= Amax.
  Hypothesis Hnlr : ~ left_recursive R.

  (* ---- the shapes of a step ---- *)
  Lemma step_cases : forall st st', stepP st = Running st' ->
    (exists top par rest t, st = top :: par :: rest /\ st' = next_matched par t (fcur top) :: rest) \/
    (exists top rest leaf, st = top :: rest /\ st' = next_matched top leaf (S (fcur top)) :: rest /\
                           length (fvals top) < length (cur_prod top)) \/
    (exists top rest cs tk, st = top :: rest /\
                            st' = mkFrame cs (fcur top) (fcur top) (table cs tk) [] :: st /\
                            table cs tk <> []) \/
    rollback st = Some st'.
  Proof.
    intros st st' Hstep. destruct st as [|top rest]; [discriminate|].
    unfold step in Hstep.
    destruct (falts top) as [|cur more] eqn:Halts; [discriminate|].
    pose proof (cur_prod_head top cur more Halts) as Hcp.
    destruct (Nat.eqb (length (fvals top)) (length (rprod cur))) eqn:Hfull.
    - destruct rest as [|par rest'].
      + repeat match type of Hstep with
               | match ?x with _ => _ end = _ => destruct x; try discriminate
               end.
      + inversion Hstep; subst st'. left. eexists _, _, _, _. split; reflexivity.
    - destruct (nth_error toks (fcur top)) as [tk|] eqn:Htk.
      2:{ destruct (nth_error (rprod cur) (length (fvals top))); discriminate. }
      destruct (nth_error (rprod cur) (length (fvals top))) as [cs|] eqn:Hcs; [|discriminate].
      assert (Hvl : length (fvals top) < length (rprod cur)) by (apply nth_error_Some; congruence).
      destruct (is_term cs).
      + destruct (sym_eqb (tname tk) cs).
        * inversion Hstep; subst st'. right; left. eexists _, _, _. split; [reflexivity|]. split; [reflexivity|].
          rewrite Hcp. exact Hvl.
        * destruct (rollback (top :: rest)) as [st2|] eqn:Hrb; [|discriminate].
          inversion Hstep; subst st'. right; right; right. reflexivity.
      + destruct (table cs (tname tk)) as [|r0 prods] eqn:Htab.
        * destruct (rollback (top :: rest)) as [st2|] eqn:Hrb; [|discriminate].
          inversion Hstep; subst st'. right; right; right. reflexivity.
        * inversion Hstep; subst st'. right; right; left. exists top, rest, cs, (tname tk).
          rewrite Htab. split; [reflexivity|]. split; [reflexivity|]. discriminate.
  Qed.

  Lemma rollback_shape : forall st st', rollback st = Some st' ->
    exists up f rest r0 r1 more, st = up ++ f :: rest /\ falts f = r0 :: r1 :: more /\
      st' = mkFrame (fsym f) (fstart f) (fstart f) (r1 :: more) [] :: rest.
  Proof.
    induction st as [|f rest IH]; intros st' Hr; simpl in Hr; [discriminate|].
    destruct (falts f) as [|r0 [|r1 more]] eqn:Ha.
    - destruct (IH st' Hr) as [up [f1 [rest1 [a [b [m [E1 [E2 E3]]]]]]]].
      exists (f :: up), f1, rest1, a, b, m. rewrite E1. auto.
    - destruct (IH st' Hr) as [up [f1 [rest1 [a [b [m [E1 [E2 E3]]]]]]]].
      exists (f :: up), f1, rest1, a, b, m. rewrite E1. auto.
    - inversion Hr; subst. exists [], f, rest, r0, r1, more. auto.
  Qed.

  (* ---- number of alternatives of a stack element is bounded ---- *)
  Definition frame_small (f : frame) : Prop := length (falts f) <= Amax.

  Lemma small_init : Forall frame_small (init_stack start).
  Proof. unfold init_stack. constructor; [|constructor]. unfold frame_small. simpl. exact HA1. Qed.

  Lemma step_small : forall st st', Forall frame_small st -> stepP st = Running st' -> Forall frame_small st'.
  Proof.
    intros st st' Hs Hstep.
    destruct (step_cases st st' Hstep) as [H|[H|[H|H]]].
    - destruct H as [top [par [rest [t [-> ->]]]]]. inversion Hs; subst. inversion H2; subst.
      constructor; auto.
    - destruct H as [top [rest [leaf [-> [-> _]]]]]. inversion Hs; subst. constructor; auto.
    - destruct H as [top [rest [cs [tk [-> [-> _]]]]]]. constructor; auto. unfold frame_small. simpl. apply HA.
    - destruct (rollback_shape st st' H) as [up [f [rest [r0 [r1 [more [-> [Ha ->]]]]]]]].
      apply Forall_app in Hs. destruct Hs as [_ Hs]. inversion Hs; subst.
      constructor; auto. unfold frame_small in *. simpl. rewrite Ha in H2. simpl in H2. lia.
  Qed.

  (* ---- the measure ---- *)
  Definition B : nat := Amax * (L + 1) + 1.
  Definition D : nat := length U * S (length toks).
  Definition digit (f : frame) : nat :=
    (length (falts f) - 1) * (L + 1) + (length (cur_prod f) - length (fvals f)).
  Fixpoint mu_frames (st : list frame) : nat :=
    match st with
    | [] => 0
    | f :: rest => digit f * B ^ (D - 1 - length rest) + mu_frames rest
    end.
  Definition mu (st : list frame) : nat := mu_frames st + B ^ (D - length st).

  Lemma B_pos : forall e, 1 <= B ^ e.
  Proof. intro e. assert (B ^ e <> 0); [|lia]. apply Nat.pow_nonzero. unfold B. lia. Qed.

  Lemma cur_prod_le : forall f, frame_wf f -> length (cur_prod f) <= L.
  Proof.
    intros f [_ [_ [H3 [H4 _]]]]. unfold cur_prod. destruct (falts f) as [|r more]; [congruence|].
    inversion H4; subst. eapply HL; eauto.
  Qed.

  Lemma digit_small : forall f, frame_wf f -> frame_small f -> digit f + 2 <= B.
  Proof.
    intros f Hw Hs. pose proof (cur_prod_le f Hw). unfold digit, B, frame_small in *.
    destruct Hw as [_ [_ [H3 _]]]. destruct (falts f) as [|r more]; [congruence|]. simpl length in *.
    nia.
  Qed.

  Lemma mu_frames_app : forall up l, mu_frames l <= mu_frames (up ++ l).
  Proof. induction up as [|u up IH]; intro l; simpl; [lia|]. specialize (IH l). lia. Qed.

  Lemma replace_top_lt : forall up f f' rest, digit f' < digit f ->
    mu (f' :: rest) < mu (up ++ f :: rest).
  Proof.
    intros up f f' rest Hd. unfold mu.
    pose proof (mu_frames_app up (f :: rest)) as H1.
    pose proof (B_pos (D - length (up ++ f :: rest))) as H2.
    cbn [mu_frames length] in *.
    replace (D - S (length rest)) with (D - 1 - length rest) by lia.
    pose proof (B_pos (D - 1 - length rest)) as H3.
    set (X := B ^ (D - 1 - length rest)) in *.
    assert ((digit f' + 1) * X <= digit f * X) by (apply Nat.mul_le_mono_r; lia).
    lia.
  Qed.

  Lemma push_lt : forall new st, length st < D -> digit new + 2 <= B -> mu (new :: st) < mu st.
  Proof.
    intros new st Hlen Hd. unfold mu. cbn [mu_frames length].
    replace (D - S (length st)) with (D - 1 - length st) by lia.
    replace (D - length st) with (S (D - 1 - length st)) by lia.
    rewrite Nat.pow_succ_r'.
    pose proof (B_pos (D - 1 - length st)) as H3.
    set (X := B ^ (D - 1 - length st)) in *.
    assert ((digit new + 2) * X <= B * X) by (apply Nat.mul_le_mono_r; lia).
    lia.
  Qed.

  (* ---- every step decreases the measure ---- *)
  Definition QINV (st : list frame) : Prop := PINV st /\ Forall frame_small st.

  Lemma QINV_init : QINV (init_stack start).
  Proof. split; [apply PINV_init; auto|apply small_init]. Qed.

  Lemma step_QINV : forall st st', QINV st -> stepP st = Running st' -> QINV st'.
  Proof.
    intros st st' [I Sm] H. split.
    - eapply step_PINV; eauto.
    - eapply step_small; eauto.
  Qed.

  Lemma step_mu : forall st st', QINV st -> stepP st = Running st' -> mu st' < mu st.
  Proof.
    intros st st' Q Hstep. pose proof (step_QINV st st' Q Hstep) as [I' Sm'].
    destruct Q as [I Sm].
    pose proof (depth_bound R is_term toks start U U_all st' I' Hnlr) as Hdepth. fold D in Hdepth.
    destruct (step_cases st st' Hstep) as [H|[H|[H|H]]].
    - destruct H as [top [par [rest [t [-> ->]]]]].
      apply (replace_top_lt [top] par (next_matched par t (fcur top)) rest).
      destruct I as [Hw Hc]. simpl in Hc. destruct Hc as [Hsym _].
      assert (length (fvals par) < length (cur_prod par)) by (apply nth_error_Some; congruence).
      unfold digit, next_matched, cur_prod in *. cbn [falts fvals]. rewrite app_length. simpl. lia.
    - destruct H as [top [rest [leaf [-> [-> Hlt]]]]].
      apply (replace_top_lt [] top (next_matched top leaf (S (fcur top))) rest).
      unfold digit, next_matched, cur_prod in *. cbn [falts fvals]. rewrite app_length. simpl. lia.
    - destruct H as [top [rest [cs [tk [-> [-> Hne]]]]]].
      apply push_lt.
      + cbn [length] in *. lia.
      + inversion Sm' as [|? ? Hs0 _]; subst. destruct I' as [Hw' _]. inversion Hw' as [|? ? Hw0 _]; subst.
        apply digit_small; auto.
    - destruct (rollback_shape st st' H) as [up [f [rest [r0 [r1 [more [-> [Ha ->]]]]]]]].
      apply replace_top_lt.
      destruct I' as [Hw' _]. inversion Hw' as [|? ? Hw0 _]; subst.
      pose proof (cur_prod_le _ Hw0) as Hl.
      unfold digit, cur_prod in *. cbn [falts fvals] in *. rewrite Ha. simpl length in *. nia.
  Qed.

  (* ---- running the loop ---- *)
  (* at most n+1 steps *)
  Fixpoint run_n (n : nat) (st : list frame) : outcome :=
    match stepP st with
    | Running st' => match n with O => Running st' | S n' => run_n n' st' end
    | o => o
    end.

  Lemma run_n_add : forall a b st,
    match run_n a st with Running st' => run_n b st' | o => o end = run_n (a + b + 1) st.
  Proof.
    induction a as [|a IH]; intros b st.
    - replace (0 + b + 1) with (S b) by lia. simpl. destruct (stepP st); auto.
    - replace (S a + b + 1) with (S (a + b + 1)) by lia. simpl. destruct (stepP st); auto.
  Qed.

  Lemma run_pow_run_n : forall k st, run_pow is_term table sfxs toks k st = run_n (2 ^ k - 1) st.
  Proof.
    induction k as [|k IH]; intro st.
    - simpl. destruct (stepP st); reflexivity.
    - cbn [run_pow]. rewrite IH.
      transitivity (match run_n (2 ^ k - 1) st with Running st' => run_n (2 ^ k - 1) st' | o => o end).
      + destruct (run_n (2 ^ k - 1) st); auto.
      + rewrite run_n_add. f_equal.
        assert (1 <= 2 ^ k) by (assert (2 ^ k <> 0) by (apply Nat.pow_nonzero; lia); lia).
        rewrite Nat.pow_succ_r'. lia.
  Qed.

  Lemma run_n_halts : forall n st, QINV st -> mu st <= S n -> forall st', run_n n st <> Running st'.
  Proof.
    induction n as [|n IH]; intros st Q Hmu st' Hr; simpl in Hr.
    - destruct (stepP st) as [s| | |] eqn:Hs; try discriminate.
      pose proof (step_mu st s Q Hs). pose proof (B_pos (D - length s)). unfold mu in *. lia.
    - destruct (stepP st) as [s| | |] eqn:Hs; try discriminate.
      pose proof (step_mu st s Q Hs). apply (IH s) with st'; auto.
      + eapply step_QINV; eauto.
      + lia.
  Qed.

  (* 2^(mu (init_stack start)) iterations are enough *)
  Lemma run_pow_halts : forall st', run_pow is_term table sfxs toks (mu (init_stack start)) (init_stack start) <> Running st'.
  Proof.
    intros st'. rewrite run_pow_run_n.
    set (m := mu (init_stack start)).
    assert (Hm : m < 2 ^ m) by (apply Nat.pow_gt_lin_r; lia).
    apply run_n_halts.
    - apply QINV_init.
    - fold m. lia.
  Qed.

  Lemma mu_init_le : mu (init_stack start) <= B ^ (S D).
  Proof.
    unfold mu, init_stack. cbn [mu_frames length].
    assert (Hd : digit (mkFrame INIT_SYM 0 0 [mkRule INIT_SYM [start; END_TOKEN] (-1)%Z] []) + 2 <= B).
    { pose proof QINV_init as [[Hw _] Hs]. unfold init_stack in *. inversion Hw; subst. inversion Hs; subst.
      apply digit_small; auto. }
    set (d := digit _) in *.
    assert (H1 : B ^ (D - 1 - 0) <= B ^ D) by (apply Nat.pow_le_mono_r; [unfold B|]; lia).
    assert (H2 : B ^ (D - 1) <= B ^ D) by (apply Nat.pow_le_mono_r; [unfold B|]; lia).
    rewrite Nat.pow_succ_r'.
    set (X1 := B ^ (D - 1 - 0)) in *. set (X2 := B ^ (D - 1)) in *. set (X := B ^ D) in *.
    assert (d * X1 <= d * X) by (apply Nat.mul_le_mono_l; auto).
    assert ((d + 1) * X <= B * X) by (apply Nat.mul_le_mono_r; lia).
    lia.
  Qed.
End Term.
