(* C07/Run.v -- entry point of the correspondence check. *)
From Coq Require Import ZArith List Bool Arith.
From AK Require Export Common.Sx Common.Err C07.Model.
Import ListNotations.

Inductive case :=
| Order (repos : list nat) (deps : deps_t)
| Bump (ci : cinfo) (commits : list commit) (heads : list (nat * nat)).

Definition sx_bn (b : bn) : sx := let '(x, y, z) := b in SL [SZ x; SZ y; SZ z].

(* from_build_nums is compared as a sorted list (its order is dict order in the code) *)
Definition sx_bump (b : bump) : sx :=
  SL [sx_bn (b_to_bn b); sx_list sx_bn (bn_sort (b_from_bns b));
      sx_option sx_nat (b_to b); sx_list sx_nat (b_from b)].

(* get_printable_rcommits(): explicit ones, newest iid first, as commit numbers *)
Definition printable (rcs : list (Z * rcommit)) (rb : rbuild) : list nat :=
  map (fun i => rc_commit (match zfind i rcs with Some r => r | None => no_rcommit end))
      (filter (fun i => rc_expl (match zfind i rcs with Some r => r | None => no_rcommit end))
              (rev (rb_rcommits rb))).

Definition sx_rbuild (rcs : list (Z * rcommit)) (p : Z * rbuild) : sx :=
  let rb := snd p in
  SL [sx_bn (rb_bn rb); SZ (rb_type rb); sx_list sx_nat (printable rcs rb); sx_option sx_bump (rb_bump rb)].

Definition sx_report (r : report) : sx :=
  SL [sx_list (fun br => SL [sx_nat (fst br); sx_list (sx_rbuild (r_rcs r)) (rev (snd br))]) (r_branches r);
      sx_list (fun p => SL [sx_nat (fst p);
                            sx_list (fun q => SL [sx_nat (fst q); sx_bn (snd q)]) (snd p)]) (r_included r)].

Definition run (c : case) : sx :=
  match c with
  | Order repos deps =>
      sx_res (fun l => sx_list (fun p => SL [sx_nat (fst p); sx_list sx_nat (snd p)]) l)
             (reports_order repos deps)
  | Bump ci commits heads => sx_res sx_report (parent_report ci commits heads)
  end.
