(* C11/LemmasWrap.v -- long containers are wrapped: a container that is kept on
   one line is shorter than the limit read from the source. *)
From Coq Require Import ZArith List Bool Lia.
From AK Require Import gen.C11_Consts C11.Model C11.Reader C11.LemmasBase C11.LemmasLex C11.Lemmas.
Import ListNotations.

Definition nones (cs : list chunk) : nat :=
  fold_right (fun c n => match c with Some _ => n | None => S n end) 0 cs.

Lemma nones_app a b : nones (a ++ b) = nones a + nones b.
Proof. induction a as [|[t|] a IH]; cbn [app nones fold_right]; [reflexivity| |]; fold (nones (a ++ b)); fold (nones a); lia. Qed.

Lemma chunks_len_app a b : chunks_len (a ++ b) = chunks_len a + chunks_len b.
Proof.
  induction a as [|[t|] a IH]; cbn [app chunks_len fold_right]; [reflexivity| |];
    fold (chunks_len (a ++ b)); fold (chunks_len a); lia.
Qed.

Lemma flat_len cs : length (flat cs) = chunks_len cs + nones cs.
Proof.
  induction cs as [|[t|] cs IH]; [reflexivity| |].
  - rewrite flat_cons. cbn [ctext chunks_len nones fold_right]. fold (chunks_len cs). fold (nones cs).
    rewrite app_length. lia.
  - rewrite flat_cons. cbn [ctext chunks_len nones fold_right app length]. fold (chunks_len cs). fold (nones cs). lia.
Qed.

Lemma nones_sep_join sep parts : nones sep = 0 -> Forall (fun p => nones p = 0) parts ->
  forall first, nones (sep_join sep first parts) = 0.
Proof.
  intros Hs. induction 1 as [|p r Hp Hr IH]; intros first; [reflexivity|].
  cbn [sep_join]. rewrite !nones_app, Hp, IH. destruct first; [reflexivity|]. rewrite Hs. reflexivity.
Qed.

Lemma dict_one_nones m sd : nones (dict_one m sd) = 0.
Proof.
  unfold dict_one. rewrite !nones_app. rewrite nones_sep_join; [reflexivity|reflexivity|].
  apply Forall_forall. intros p Hp. apply in_map_iff in Hp as (kv & <- & _). reflexivity.
Qed.

(* a one-line dict *)
Lemma dict_one_len m sd : length (flat (dict_one m sd)) = chunks_len (dict_one m sd).
Proof. rewrite flat_len, dict_one_nones. lia. Qed.

(* a one-line list: the source computes sum(len) + 2 * n *)
Lemma list_items_len m l :
  length (flat (sep_join [T s_comma_sp] false (map (fun x => [T (simple_chunk m x)]) l))) =
  texts_len (map (simple_chunk m) l) + 2 * length l.
Proof.
  induction l as [|x l IH]; [reflexivity|].
  cbn [map sep_join]. rewrite !flat_app, !app_length, IH.
  cbn [texts_len fold_right map length]. fold (texts_len (map (simple_chunk m) l)).
  rewrite !flat_T, flat_nil, !app_length. cbn [length s_comma_sp]. lia.
Qed.

Lemma list_one_len m l : l <> [] ->
  length (flat (list_one m l)) = texts_len (map (simple_chunk m) l) + 2 * length (map (simple_chunk m) l).
Proof.
  destruct l as [|x l]; [congruence|]. intros _. unfold list_one. cbn [map sep_join app].
  rewrite !flat_T, flat_app, !app_length, list_items_len.
  rewrite flat_T, flat_nil, app_length.
  cbn [texts_len fold_right map length s_lbrack s_rbrack]. rewrite map_length. fold (texts_len (map (simple_chunk m) l)). lia.
Qed.

Lemma long_list_wrapped m l off : l <> [] ->
  In NL (gen m (VList l) off) \/
  (Z.of_nat (off + length (flat (gen m (VList l) off))) < list_oneline_limit)%Z.
Proof.
  intros Hne. rewrite gen_list_eq by exact Hne.
  destruct (forallb is_simple l).
  - destruct (Z.ltb_spec (Z.of_nat (off + (texts_len (map (simple_chunk m) l) + 2 * length (map (simple_chunk m) l))))
                         list_oneline_limit) as [H|H].
    + right. rewrite list_one_len by exact Hne. exact H.
    + left. unfold list_wrap. cbn [app]. right. left. reflexivity.
  - left. unfold list_multi. apply in_or_app. right. apply in_or_app. right. left. reflexivity.
Qed.

Lemma long_dict_wrapped m d off : d <> [] ->
  In NL (gen m (VDict d) off) \/
  (Z.of_nat (off + length (flat (gen m (VDict d) off))) < dict_oneline_limit)%Z.
Proof.
  intros Hne. rewrite gen_dict_eq by exact Hne.
  destruct (forallb (fun kv => is_simple (snd kv)) (isort d)); cbn [andb].
  - destruct (Z.ltb_spec (Z.of_nat (off + chunks_len (dict_one m (isort d)))) dict_oneline_limit) as [H|H].
    + right. rewrite dict_one_len. exact H.
    + left. unfold dict_multi. apply in_or_app. right. apply in_or_app. right. left. reflexivity.
  - left. unfold dict_multi. apply in_or_app. right. apply in_or_app. right. left. reflexivity.
Qed.


(* ------------------------------------------------------------------ *)
(* the lines of an all-simple list are bounded                          *)

(* lengths of the lines of a chunk sequence; [cur] = length of the open line *)
Fixpoint line_lens (cs : list chunk) (cur : nat) : list nat :=
  match cs with
  | [] => [cur]
  | None :: r => cur :: line_lens r 0
  | Some t :: r => line_lens r (cur + length t)
  end.

Lemma line_lens_T t r cur : line_lens (T t :: r) cur = line_lens r (cur + length t).
Proof. reflexivity. Qed.
Lemma line_lens_NL r cur : line_lens (NL :: r) cur = cur :: line_lens r 0.
Proof. reflexivity. Qed.

Lemma wrap_cons off c r len_y first :
  wrap off (c :: r) len_y first =
  (if (wrap_limit <? Z.of_nat (len_y + length c))%Z && negb first then [T s_comma; NL] else [])
    ++ [T (if (if (wrap_limit <? Z.of_nat (len_y + length c))%Z && negb first then true else first)
           then spaces (off + 2) else s_comma_sp); T c]
    ++ match r with
       | [] => [NL]
       | _ :: _ =>
           wrap off r
             ((if (if (wrap_limit <? Z.of_nat (len_y + length c))%Z && negb first then true else first)
               then off + 2
               else (if (wrap_limit <? Z.of_nat (len_y + length c))%Z && negb first then 0 else len_y) + 2)
              + length c) false
       end.
Proof. reflexivity. Qed.

Lemma spaces_length n : length (spaces n) = n.
Proof. apply repeat_length. Qed.

Section WrapBound.
  Variables (off M : nat) (B : Z) (rest : list chunk).
  Hypothesis HB1 : (wrap_limit + 3 <= B)%Z.
  Hypothesis HB2 : (Z.of_nat (off + 3 + M) <= B)%Z.
  Hypothesis Hrest : Forall (fun n => (Z.of_nat n <= B)%Z) (line_lens rest 0).

  Lemma wrap_lens : forall ics c len_y (first : bool) cur,
    Forall (fun c : str => length c <= M) (c :: ics) ->
    (if first then cur = 0 else cur = len_y /\ (Z.of_nat len_y + 1 <= B)%Z) ->
    Forall (fun n => (Z.of_nat n <= B)%Z) (line_lens (wrap off (c :: ics) len_y first ++ rest) cur).
  Proof.
    induction ics as [|c2 ics IH]; intros c len_y first cur HM Hcur;
      inversion HM as [|? ? Hc HM']; subst; rewrite wrap_cons;
      destruct (Z.ltb_spec wrap_limit (Z.of_nat (len_y + length c))) as [Hlt|Hge];
      (destruct first; [rewrite Hcur; clear Hcur|destruct Hcur as [Hc0 Hl]; rewrite Hc0; clear Hc0]);
      cbn [andb negb app]; unfold s_comma, s_comma_sp;
      repeat (rewrite line_lens_T || rewrite line_lens_NL); rewrite ?spaces_length; cbn [length].
    (* last item *)
    - constructor; [lia|exact Hrest].
    - constructor; [lia|]. constructor; [lia|exact Hrest].
    - constructor; [lia|exact Hrest].
    - constructor; [lia|exact Hrest].
    (* an item followed by others *)
    - apply IH; [exact HM'|]. split; lia.
    - constructor; [lia|]. apply IH; [exact HM'|]. split; lia.
    - apply IH; [exact HM'|]. split; lia.
    - apply IH; [exact HM'|]. split; lia.
  Qed.
End WrapBound.

Lemma lens_group cs : forall acc, ends_text cs ->
  map (fun l => length (concat l)) (group cs acc) = line_lens cs (length (concat (rev acc))).
Proof.
  induction cs as [|c r IH]; intros acc H; [contradiction|].
  destruct c as [t|].
  - rewrite group_some. destruct r as [|c2 r2].
    + cbn [group map line_lens rev]. rewrite concat_app, app_length. cbn [concat]. rewrite app_nil_r. reflexivity.
    + rewrite IH by exact H. cbn [rev line_lens]. rewrite concat_app, app_length. cbn [concat]. rewrite app_nil_r. reflexivity.
  - destruct r as [|c2 r2]; [contradiction|]. rewrite group_none. cbn [map line_lens]. f_equal.
    apply IH. exact H.
Qed.

Lemma line_lens_nonl cs : forall cur, nones cs = 0 -> line_lens cs cur = [cur + chunks_len cs].
Proof.
  induction cs as [|[t|] cs IH]; intros cur H.
  - cbn. f_equal. lia.
  - cbn [line_lens]. cbn [nones fold_right] in H. rewrite IH by exact H.
    cbn [chunks_len fold_right]. f_equal. fold (chunks_len cs). lia.
  - cbn in H. discriminate.
Qed.

Lemma list_lines_bounded m off l M : l <> [] -> forallb is_simple l = true ->
  Forall (fun x => length (simple_chunk m x) <= M) l ->
  Forall (fun ln => (Z.of_nat (length ln) <= Z.max list_oneline_limit (Z.max (wrap_limit + 3) (Z.of_nat (off + 3 + M))))%Z)
         (map (@concat Z) (group (gen m (VList l) off) [])).
Proof.
  intros Hne Hs HM.
  assert (E : forall cs, ends_text cs ->
              Forall (fun n => (Z.of_nat n <= Z.max list_oneline_limit (Z.max (wrap_limit + 3) (Z.of_nat (off + 3 + M))))%Z)
                     (line_lens cs 0) ->
              Forall (fun ln => (Z.of_nat (length ln) <= Z.max list_oneline_limit (Z.max (wrap_limit + 3) (Z.of_nat (off + 3 + M))))%Z)
                     (map (@concat Z) (group cs []))).
  { intros cs He H. pose proof (lens_group cs [] He) as G. cbn [rev concat length] in G. rewrite <- G in H.
    rewrite Forall_map in H. rewrite Forall_map. exact H. }
  apply E; [apply gen_ends|].
  pose proof (long_list_wrapped m l off Hne) as Hlong.
  rewrite gen_list_eq in * by exact Hne. rewrite Hs in *.
  destruct (Z.ltb_spec (Z.of_nat (off + (texts_len (map (simple_chunk m) l) + 2 * length (map (simple_chunk m) l))))
                       list_oneline_limit) as [H|H].
  - (* one line *)
    assert (N : nones (list_one m l) = 0).
    { unfold list_one. rewrite !nones_app. rewrite nones_sep_join; [reflexivity|reflexivity|].
      apply Forall_forall. intros p Hp. apply in_map_iff in Hp as (x & <- & _). reflexivity. }
    rewrite (line_lens_nonl _ 0 N). constructor; [|constructor].
    pose proof (list_one_len m l Hne) as L. rewrite flat_len, N in L. lia.
  - (* wrapped *)
    unfold list_wrap. cbn [app]. rewrite line_lens_T, line_lens_NL. cbn [length s_lbrack].
    constructor; [lia|].
    destruct l as [|x l']; [congruence|]. cbn [map].
    apply (wrap_lens off M); try lia.
    + rewrite line_lens_T. cbn [line_lens]. constructor; [|constructor].
      rewrite app_length, spaces_length. cbn [length s_rbrack]. lia.
    + rewrite <- (map_cons (simple_chunk m)). rewrite Forall_map. exact HM.
Qed.
