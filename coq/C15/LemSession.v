(* C15/LemSession.v -- histories: requests of one session are independent
   compilations, and a condition object made earlier follows its list objects. *)
From Coq Require Import ZArith List Bool.
From AK Require Import Common.Sx Common.Err gen.C15_Consts C15.Model C15.Spec C15.Lemmas C15.Run.
Import ListNotations.
Open Scope Z_scope.

(* ---- the session runner is a map ------------------------------------ *)
Lemma run_steps_nth ms st rows steps k s :
  nth_error steps k = Some s ->
  nth_error (run_steps ms st rows steps) k = Some (run_step ms st rows s).
Proof. intros H. unfold run_steps. apply map_nth_error. exact H. Qed.

Lemma run_steps_app ms st rows s1 s2 :
  run_steps ms st rows (s1 ++ s2) = run_steps ms st rows s1 ++ run_steps ms st rows s2.
Proof. unfold run_steps. apply map_app. Qed.

Lemma call_is_query ms st rows mi m mysql kw_ord args kw wr desc mtd :
  nth_error ms mi = Some m ->
  run_step ms st rows (SCall mi mysql kw_ord args kw wr desc mtd)
  = run (Query mysql m kw_ord args kw wr st rows desc mtd).
Proof. intros H. cbn [run_step run]. rewrite H. reflexivity. Qed.

Lemma text_is_compile ms st rows pt a :
  run_step ms st rows (SText pt a) = run (Compile pt a).
Proof. reflexivity. Qed.

(* ---- make does not look into sequences -------------------------------- *)
Section MapSeq.
  Variable g : list scalar -> list scalar.

  Lemma is_kind_mapseq kinds v : is_kind kinds (mapseq_val g v) = is_kind kinds v.
  Proof. destruct v; reflexivity. Qed.

  Lemma mk_field_mapseq f raw up v :
    mk_field f raw up (mapseq_val g v) = res_map (mapseq_cond g) (mk_field f raw up v).
  Proof.
    unfold mk_field. destruct f as [fn|].
    - destruct (classify up init_groups 0) as [[|[|[|[|[|n]]]]]|]; try reflexivity.
      + destruct v as [[|z|s]|k l]; try reflexivity.
        change (mapseq_val g (VSeq k l)) with (VSeq k (g l)).
        change (is_kind seq_kinds_eq (VSeq k (g l))) with (is_kind seq_kinds_eq (VSeq k l)).
        destruct (is_kind seq_kinds_eq (VSeq k l)); reflexivity.
      + rewrite is_kind_mapseq. destruct (is_kind seq_kinds_in v); reflexivity.
      + destruct v as [[|z|s]|k l]; reflexivity.
      + destruct v as [[|z|s]|k l]; reflexivity.
    - destruct v as [[|z|s]|k l]; reflexivity.
  Qed.

  Lemma kw_insert_mapseq e l :
    kw_insert (fst e, mapseq_val g (snd e)) (mapseq_kw g l) = mapseq_kw g (kw_insert e l).
  Proof.
    induction l as [|x r IH]; [reflexivity|].
    cbn [mapseq_kw map kw_insert fst]. destruct (str_leb (fst e) (fst x)); [reflexivity|].
    cbn [map]. f_equal. exact IH.
  Qed.

  Lemma sort_kw_mapseq kw : sort_kw (mapseq_kw g kw) = mapseq_kw g (sort_kw kw).
  Proof.
    unfold sort_kw. induction kw as [|e r IH]; [reflexivity|].
    cbn [mapseq_kw map fold_right]. fold (mapseq_kw g r). rewrite IH. apply kw_insert_mapseq.
  Qed.

  Definition ms_r (r : bool * res cond) : bool * res cond := (fst r, res_map (mapseq_cond g) (snd r)).

  Lemma kw_results_mapseq kw :
    kw_results (sort_kw (mapseq_kw g kw)) = map ms_r (kw_results (sort_kw kw)).
  Proof.
    rewrite sort_kw_mapseq. unfold kw_results, mapseq_kw. rewrite !map_map.
    apply map_ext. intros e. unfold ms_r. cbn [fst snd]. rewrite mk_field_mapseq. reflexivity.
  Qed.

  Lemma first_err_ms rs : first_err (map ms_r rs) = first_err rs.
  Proof. induction rs as [|[b [c|e]] r IH]; cbn [map ms_r first_err fst snd res_map]; auto. Qed.

  Lemma filter_fst_ms rs : filter fst (map ms_r rs) = map ms_r (filter fst rs).
  Proof.
    induction rs as [|[b r0] r IH]; [reflexivity|].
    cbn [map ms_r filter fst snd]. destruct b; cbn [map]; rewrite IH; reflexivity.
  Qed.

  Lemma all_ok_ms rs : all_ok (map ms_r rs) = map (mapseq_cond g) (all_ok rs).
  Proof. induction rs as [|[b [c|e]] r IH]; cbn [map ms_r all_ok fst snd res_map]; congruence. Qed.

  Lemma collect_ms rs : collect (map ms_r rs) = res_map (map (mapseq_cond g)) (collect rs).
  Proof.
    unfold collect. rewrite filter_fst_ms, !first_err_ms, all_ok_ms.
    destruct (first_err (filter fst rs)); [reflexivity|]. destruct (first_err rs); reflexivity.
  Qed.

  Lemma is_or_mapseq a : is_or (mapseq_arg g a) = is_or a. Proof. destruct a; reflexivity. Qed.
  Lemma is_none_mapseq a : is_none (mapseq_arg g a) = is_none a. Proof. destruct a; reflexivity. Qed.

  Lemma make_mapseq a : make (mapseq_arg g a) = res_map (mapseq_cond g) (make a).
  Proof.
    induction a as [|s|f op v|f v| |l kw IH|] using arg_ind'; try reflexivity.
    - destruct op as [[raw up]|]; [|reflexivity]. cbn [mapseq_arg make]. apply mk_field_mapseq.
    - cbn [mapseq_arg make]. apply mk_field_mapseq.
    - cbn [mapseq_arg]. rewrite !make_or, kw_results_mapseq.
      assert (map (fun x => (is_or x, make x)) (map (mapseq_arg g) l)
              = map ms_r (map (fun x => (is_or x, make x)) l)) as ->.
      { rewrite !map_map. induction IH as [|x r Hx _ IHr]; [reflexivity|].
        cbn [map]. rewrite IHr. unfold ms_r at 1. cbn [fst snd]. rewrite Hx, is_or_mapseq. reflexivity. }
      rewrite <- map_app, collect_ms.
      destruct (collect _) as [cs|e]; reflexivity.
  Qed.

  Lemma make_all_mapseq L :
    make_all (map (mapseq_arg g) L) = res_map (map (mapseq_cond g)) (make_all L).
  Proof.
    unfold make_all. rewrite <- collect_ms. f_equal.
    induction L as [|x r IH]; [reflexivity|].
    cbn [map filter]. rewrite is_none_mapseq. destruct (negb (is_none x)); [|exact IH].
    cbn [map]. rewrite IH. unfold ms_r at 1. cbn [fst snd]. rewrite make_mapseq, is_or_mapseq. reflexivity.
  Qed.
End MapSeq.

(* the text of a condition object reads the list as it is NOW: emptiness and the
   number of placeholders follow the current contents *)
Lemma cond_text_current pt f op k l :
  classify op text_groups 0 = Some 1%nat ->
  cond_text pt (CField f op (VSeq k l)) =
  if nonempty l then
    bind (lookup_clause pt op) (fun cl =>
    bind (lookup_clause pt ph_key) (fun ph =>
      Ok ([PField f; PLit cl; PLit in_open]
            ++ join_pieces [PLit in_sep] (map (fun _ => [PLit ph]) l) ++ [PLit in_close], map VS l)))
  else Ok ([PLit (pick empty_in op)], []).
Proof. intros H. cbn [cond_text]. rewrite H. reflexivity. Qed.

(* ---- end to end: the k-th request of any history ------------------------ *)
Lemma session_rows_selected_l ms st rows steps k mi m mysql kw_ord args kw desc mtd is :
  nth_error steps k = Some (SCall mi mysql kw_ord args kw true desc mtd) ->
  nth_error ms mi = Some m ->
  meaning_all args kw = Some is ->
  (forall r, In r rows ->
     isem_and sqlite_cmp sqlite_like (static_of st r) (fun f => assoc_str f (r_cols r)) is <> None) ->
  exists q, build mysql m kw_ord args kw = Ok q /\
    q_params q = flat_map spec_params is /\
    nth_error (run_steps ms st rows steps) k =
    Some (SL [SL [sx_str (q_sql q); sx_list sx_pyval (q_params q)];
              sx_res sx_outcome
                (finish mtd
                   (let ids := sort_Z (map r_id
                                 (filter (fun r => is_T (isem_and sqlite_cmp sqlite_like (static_of st r)
                                                           (fun f => assoc_str f (r_cols r)) is)) rows)) in
                    if desc then rev ids else ids))]).
Proof.
  intros Hk Hm His Hrows.
  destruct (run_query_ok sqlite_cmp sqlite_like mysql m kw_ord args kw is His) as (q & Hb & Hq).
  destruct (where_semantics_l sqlite_cmp sqlite_like (fun _ => None) (fun _ => None) mysql m kw_ord args kw is His)
    as (q' & Hb' & Hp & _).
  rewrite Hb in Hb'. injection Hb' as <-.
  exists q. split; [exact Hb|]. split; [exact Hp|].
  rewrite (run_steps_nth ms st rows steps k _ Hk). f_equal.
  cbn [run_step]. rewrite Hm. unfold run_request. rewrite Hb.
  rewrite (Hq st rows desc mtd Hrows). reflexivity.
Qed.
