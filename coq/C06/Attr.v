(* C06/Attr.v -- the attribution statement for one branch and for the whole report.
   [branch_char] is a statement about one branch that the model satisfies for EVERY acyclic
   history: clauses (A) and (D) of Spec.branch_ok unchanged, clause (B) with "never under
   'not merged'" restricted to branches whose head is not inside a lower-sorted branch, clause
   (C) with the exact content of 'not merged' (when the head lies inside a lower-sorted branch
   it lists ALL matching commits of the lower-sorted branches: the open finding).  On a branch
   whose head is outside the lower-sorted branches it is Spec.branch_ok. *)
From Coq Require Import ZArith List Bool Lia Arith Sorting.Permutation.
From AK Require Import Common.Sx Common.Err gen.C06_Consts C06.Model C06.Lemmas C06.Inv C06.Spec C06.Inv2 C06.Inv3 C06.Inv4.
Import ListNotations.
Open Scope nat_scope.

(* ------------------------------------------------------------------ *)
(* the statement                                                        *)

Definition partB_w (h : history) (lower : list nat) (head : nat) (builds : list obuild) : Prop :=
  forall c, matches h c = true -> reach h head c ->
    count_occ Nat.eq_dec (normal_listed builds) c <= 1 /\
    ((exists b, is_build_of h lower head b /\ reach h b c) -> count_occ Nat.eq_dec (normal_listed builds) c = 1) /\
    (~ in_lower h lower head -> ~ In c (nm_listed builds)).

Definition partC_w (h : history) (lower : list nat) (head : nat) (builds : list obuild) : Prop :=
  (forall c, In c (nm_listed builds) <->
             matches h c = true /\ in_lower h lower c /\ (~ reach h head c \/ in_lower h lower head)) /\
  NoDup (nm_listed builds).

Definition branch_char (h : history) (lower : list nat) (head : nat) (builds : list obuild) : Prop :=
  partA h lower head builds /\ partB_w h lower head builds /\ partC_w h lower head builds /\ partD h head builds.

Lemma branch_char_ok h lower head builds :
  ~ in_lower h lower head -> branch_char h lower head builds -> branch_ok h lower head builds.
Proof.
  intros Hn (A & B & (C1 & C2) & D). split; [exact A|]. split; [|split; [|exact D]].
  - intros c Hm Hr. destruct (B c Hm Hr) as (B1 & B2 & B3). auto.
  - split; [|exact C2]. intros c. rewrite C1. tauto.
Qed.

Fixpoint report_char_from (h : history) (lower : list nat) (brs : list obranch) : Prop :=
  match brs with
  | [] => True
  | br :: r => branch_char h lower (obr_head br) (obr_builds br) /\ report_char_from h (lower ++ [obr_head br]) r
  end.
Definition report_char (h : history) (brs : list obranch) : Prop := report_char_from h [] brs.

Lemma report_char_snoc h brs : forall lower br,
  report_char_from h lower (brs ++ [br]) <->
  report_char_from h lower brs /\ branch_char h (lower ++ map obr_head brs) (obr_head br) (obr_builds br).
Proof.
  induction brs as [|b0 r IH]; intros lower br; cbn [app report_char_from map].
  - rewrite app_nil_r. tauto.
  - rewrite IH. rewrite <- app_assoc. cbn [app]. tauto.
Qed.

Lemma report_char_ok h brs : forall lower,
  report_char_from h lower brs ->
  (forall l1 br l2, brs = l1 ++ br :: l2 -> ~ in_lower h (lower ++ map obr_head l1) (obr_head br)) ->
  report_ok_from h lower brs.
Proof.
  induction brs as [|b0 r IH]; intros lower H Hap; cbn [report_char_from report_ok_from] in *; [exact I|].
  destruct H as (H1 & H2). split.
  - apply branch_char_ok; [|exact H1]. specialize (Hap [] b0 r eq_refl). cbn [map] in Hap. rewrite app_nil_r in Hap. exact Hap.
  - apply IH; [exact H2|]. intros l1 br l2 E. specialize (Hap (b0 :: l1) br l2). cbn [map app] in Hap.
    rewrite <- app_assoc. cbn [app]. apply Hap. rewrite E. reflexivity.
Qed.

(* ------------------------------------------------------------------ *)
(* lists                                                                *)

Lemma flat_map_map {A B C} (f : B -> list C) (g : A -> B) l : flat_map f (map g l) = flat_map (fun x => f (g x)) l.
Proof. induction l as [|x l IH]; cbn [map flat_map]; [reflexivity|]. rewrite IH. reflexivity. Qed.

Lemma nodup_flat_map_sub {A B} (f g : A -> list B) l :
  (forall x, g x = f x \/ g x = []) -> NoDup (flat_map f l) -> NoDup (flat_map g l).
Proof.
  intros Hs. induction l as [|x l IH]; cbn [flat_map]; intros D; [constructor|].
  apply nodup_app_inv in D as (D1 & D2 & Hd).
  assert (forall y, In y (flat_map g l) -> In y (flat_map f l)) as Hsub.
  { intros y Hy. apply in_flat_map in Hy as (z & Hz & Hy). apply in_flat_map. exists z. split; [exact Hz|].
    destruct (Hs z) as [E|E]; rewrite E in Hy; [exact Hy|destruct Hy]. }
  destruct (Hs x) as [E|E]; rewrite E; [|cbn [app]; apply IH, D2].
  apply nodup_app; [exact D1|apply IH, D2|]. intros y Hy Hy2. apply (Hd y Hy). apply Hsub, Hy2.
Qed.

Lemma in_rbuilds_list rbs rb : In rb (rbuilds_list rbs) <-> In rb rbs.
Proof.
  unfold rbuilds_list. split; intros H.
  - eapply Permutation_in; [apply Permutation_sym, stable_sort_perm|exact H].
  - eapply Permutation_in; [apply stable_sort_perm|exact H].
Qed.

Lemma in_builds_listing rbs j : In j (builds_listing rbs) <-> exists rb, In rb rbs /\ In j (rb_rcommits rb).
Proof.
  unfold builds_listing. rewrite in_concat. split.
  - intros (l & Hl & Hj). apply in_map_iff in Hl as (rb & <- & Hrb). eauto.
  - intros (rb & Hrb & Hj). exists (rb_rcommits rb). split; [apply in_map, Hrb|exact Hj].
Qed.

(* ------------------------------------------------------------------ *)
(* what the report shows, in terms of RCommit ids                       *)

Definition builds_of (s : state) (rbs : list rbuild) : list obuild := map (out_build s) (rbuilds_list rbs).

Definition is_nm (rb : rbuild) : bool := Z.eqb (rb_type rb) FAKE_NOT_MERGED.

Lemma in_normal_listed s rbs c :
  In c (normal_listed (builds_of s rbs)) <-> exists rb, In rb rbs /\ is_nm rb = false /\ In c (listed_of s rb).
Proof.
  unfold normal_listed, builds_of. rewrite flat_map_map, in_flat_map. split.
  - intros (rb & Hrb & Hc). apply (proj1 (in_rbuilds_list _ _)) in Hrb. exists rb. split; [exact Hrb|].
    unfold normal, is_nm in *. cbn [out_build ob_type] in Hc. destruct (rb_type rb =? FAKE_NOT_MERGED)%Z; [destruct Hc|auto].
  - intros (rb & Hrb & Hn & Hc). exists rb. split; [apply in_rbuilds_list, Hrb|].
    unfold normal, is_nm in *. cbn [out_build ob_type]. rewrite Hn. exact Hc.
Qed.

Lemma in_nm_listed s rbs c :
  In c (nm_listed (builds_of s rbs)) <-> exists rb, In rb rbs /\ is_nm rb = true /\ In c (listed_of s rb).
Proof.
  unfold nm_listed, builds_of. rewrite flat_map_map, in_flat_map. split.
  - intros (rb & Hrb & Hc). apply (proj1 (in_rbuilds_list _ _)) in Hrb. exists rb. split; [exact Hrb|].
    unfold normal, is_nm in *. cbn [out_build ob_type] in Hc. destruct (rb_type rb =? FAKE_NOT_MERGED)%Z; [auto|destruct Hc].
  - intros (rb & Hrb & Hn & Hc). exists rb. split; [apply in_rbuilds_list, Hrb|].
    unfold normal, is_nm in *. cbn [out_build ob_type]. rewrite Hn. exact Hc.
Qed.

Lemma listed_nodup_inj s rbs :
  (forall i j, expl s i = true -> expl s j = true -> cid s i = cid s j -> i = j) ->
  NoDup (builds_listing rbs) -> NoDup (flat_map (listed_of s) rbs).
Proof.
  intros C. unfold builds_listing. induction rbs as [|rb rbs IH]; cbn [map concat flat_map]; intros D; [constructor|].
  apply nodup_app_inv in D as (D1 & D2 & Hd). apply nodup_app; [|apply IH, D2|].
  - unfold listed_of, out_build. cbn [ob_listed]. apply nodup_map_inj_on.
    + intros x y Hx Hy. apply filter_In in Hx as [_ Hx], Hy as [_ Hy]. apply (C x y Hx Hy).
    + apply NoDup_filter. eapply Permutation_NoDup; [apply stable_sort_perm|exact D1].
  - intros c Hc Hc2. apply listed_of_in in Hc as (i & Hi & Hei & Eci).
    apply in_flat_map in Hc2 as (rb' & Hrb' & Hc2). apply listed_of_in in Hc2 as (j & Hj & Hej & Ecj).
    assert (i = j) by (apply (C i j Hei Hej); unfold cid; congruence). subst j.
    apply (Hd i Hi). apply in_concat. exists (rb_rcommits rb'). split; [apply in_map, Hrb'|exact Hj].
Qed.

Lemma GI_inj h s i j : GI h s -> expl s i = true -> expl s j = true -> cid s i = cid s j -> i = j.
Proof.
  intros G Hi Hj E.
  assert (forall k, expl s k = true -> k < len s) as Hlt.
  { intros k Hk. destruct (lt_dec k (len s)) as [H|H]; [exact H|].
    unfold expl, rc_get, len in *. rewrite nth_overflow in Hk by lia. discriminate. }
  pose proof (gi_sel h s G i (Hlt i Hi)) as E1. pose proof (gi_sel h s G j (Hlt j Hj)) as E2.
  rewrite E in E1. congruence.
Qed.

Lemma nodup_listed h s rbs :
  GI h s -> NoDup (builds_listing rbs) ->
  NoDup (normal_listed (builds_of s rbs)) /\ NoDup (nm_listed (builds_of s rbs)).
Proof.
  intros G D.
  assert (NoDup (flat_map (listed_of s) (rbuilds_list rbs))) as D2.
  { eapply Permutation_NoDup; [apply Permutation_flat_map; unfold rbuilds_list; apply stable_sort_perm|].
    apply listed_nodup_inj; [intros i j; apply (GI_inj h s i j G)|exact D]. }
  unfold normal_listed, nm_listed, builds_of. rewrite !flat_map_map. split.
  - eapply nodup_flat_map_sub; [|exact D2]. intros rb. cbn beta. destruct (normal (out_build s rb)); [left; reflexivity|right; reflexivity].
  - eapply nodup_flat_map_sub; [|exact D2]. intros rb. cbn beta. destruct (normal (out_build s rb)); [right; reflexivity|left; reflexivity].
Qed.

Lemma not_merged_in s p j :
  In j (not_merged s p) <-> In j (builds_listing p) /\ expl s j = true /\ ~ In j (builds_listing (s_rbuilds s)).
Proof.
  unfold not_merged. destruct consts_nm as [E1 E2]. rewrite E1, E2. cbn [negb orb].
  rewrite filter_In, andb_true_iff, negb_true_iff, nmem_false, !all_rcommits_in. unfold expl. tauto.
Qed.

(* ------------------------------------------------------------------ *)
(* the state between two branches                                       *)

Record BB (h : history) (lower : list nat) (prev : option (list rbuild)) (s : state) : Prop := mkBB {
  bb_gi : GI h s;
  bb_wg : WG s;
  bb_hang : s_hang s = false;
  (* classified = belongs to a branch read before *)
  bb_cached : forall c, cached s c = true <-> in_lower h lower c;
  bb_brc : Forall (fun i => In i (s_prev_builds s)) (s_brcommits s);
  bb_brlt : Forall (fun i => i < len s) (s_brcommits s);
  (* the previous branch lists (under its builds or under its 'not merged') every explicit RCommit *)
  bb_prev : match prev with
            | None => len s = 0 /\ lower = []
            | Some p => (forall j, j < len s -> expl s j = true -> In j (builds_listing p)) /\
                        Forall (fun j => j < len s) (builds_listing p)
            end
}.

Lemma is_nm_normal rb : rb_type rb = NORMAL -> is_nm rb = false.
Proof. unfold is_nm. intros ->. reflexivity. Qed.

Lemma in_lower_dec h lower c : acyclic h -> in_lower h lower c \/ ~ in_lower h lower c.
Proof.
  intros Ha. pose proof (in_lowerb_spec h lower Ha c) as H. destruct (in_lowerb h lower c).
  - left. apply H. reflexivity.
  - right. intros Hl. apply H in Hl. discriminate.
Qed.

Section Facts.
  Variable h : history.
  Variable lower : list nat.
  Variable prev : option (list rbuild).
  Variable s s1 : state.
  Variable head : nat.
  Variable nmb : list rbuild.
  Let nm := match prev with Some p => not_merged s1 p | None => [] end.
  Hypothesis Ha : acyclic h.
  Hypothesis HB : BB h lower prev s.
  Hypothesis G1 : GI h s1.
  Hypothesis P1 : pre s s1.
  Hypothesis F1 : Forall (rb_ok h lower head s1) (s_rbuilds s1).
  Hypothesis F2 : forall b c, is_build_of h lower head b -> reach h b c -> matches h c = true ->
                              exists j, j < len s1 /\ cid s1 j = c /\ In j (builds_listing (s_rbuilds s1)).
  Hypothesis F4 : in_lower h lower head -> s_rbuilds s1 = [].
  Hypothesis N1 : forall rb, In rb nmb -> is_nm rb = true /\ rb_rcommits rb = nm.
  Hypothesis N2 : nm <> [] -> nmb <> [].
  Hypothesis D : NoDup (builds_listing (s_rbuilds s1 ++ nmb)).

  Let rbs := s_rbuilds s1 ++ nmb.

  Lemma f_rb_ok rb : In rb (s_rbuilds s1) -> rb_ok h lower head s1 rb.
  Proof. rewrite Forall_forall in F1. apply F1. Qed.

  Lemma f_normal c : In c (normal_listed (builds_of s1 rbs)) <-> exists rb, In rb (s_rbuilds s1) /\ In c (listed_of s1 rb).
  Proof.
    rewrite in_normal_listed. unfold rbs. split.
    - intros (rb & Hrb & Hn & Hc). exists rb. split; [|exact Hc]. apply in_app_or in Hrb as [H|H]; [exact H|].
      destruct (N1 rb H) as (E & _). congruence.
    - intros (rb & Hrb & Hc). exists rb. split; [apply in_or_app; left; exact Hrb|]. split; [|exact Hc].
      destruct (f_rb_ok rb Hrb) as (i & _ & _ & Ty & _). apply is_nm_normal, Ty.
  Qed.

  Lemma f_nm c : In c (nm_listed (builds_of s1 rbs)) <-> exists j, In j nm /\ expl s1 j = true /\ cid s1 j = c.
  Proof.
    rewrite in_nm_listed. unfold rbs. split.
    - intros (rb & Hrb & Hn & Hc). apply in_app_or in Hrb as [H|H].
      + destruct (f_rb_ok rb H) as (i & _ & _ & Ty & _). rewrite (is_nm_normal rb Ty) in Hn. discriminate.
      + destruct (N1 rb H) as (_ & E). apply listed_of_in in Hc. rewrite E in Hc. exact Hc.
    - intros (j & Hj & He & Ec). assert (nm <> []) as Hne by (intros E; rewrite E in Hj; destruct Hj).
      specialize (N2 Hne). destruct nmb as [|rb nmb0] eqn:En; [congruence|]. exists rb.
      destruct (N1 rb (or_introl eq_refl)) as (T & E). split; [apply in_or_app; right; left; reflexivity|]. split; [exact T|].
      apply listed_of_in. rewrite E. eauto.
  Qed.

  Lemma f_nm_in j : In j nm <-> exists p, prev = Some p /\ In j (builds_listing p) /\ expl s1 j = true /\
                                         ~ In j (builds_listing (s_rbuilds s1)).
  Proof.
    unfold nm. destruct prev as [p|].
    - rewrite not_merged_in. split; [intros H; exists p; tauto|intros (p' & [= <-] & H); tauto].
    - split; [intros []|intros (p & E & _); discriminate].
  Qed.

  (* RCommits of a build of this branch belong to commits reachable from the head *)
  Lemma f_listing_reach j : In j (builds_listing (s_rbuilds s1)) -> j < len s1 /\ reach h head (cid s1 j).
  Proof.
    intros Hj. apply in_builds_listing in Hj as (rb & Hrb & Hj).
    destruct (f_rb_ok rb Hrb) as (i & _ & _ & _ & _ & R1 & _ & _ & H5). destruct (H5 j Hj) as (L & R2 & _).
    split; [exact L|]. eapply reach_trans; eassumption.
  Qed.

  Lemma f_old j : j < len s -> cid s1 j = cid s j /\ expl s1 j = expl s j /\ in_lower h lower (cid s j).
  Proof.
    intros Hj. split; [apply pre_cid; assumption|]. split; [apply pre_expl; assumption|].
    apply (bb_cached h lower prev s HB). apply (GI_cid_cached h s j (bb_gi h lower prev s HB) Hj).
  Qed.

  Lemma f_expl_lt j : expl s1 j = true -> j < len s1.
  Proof.
    intros Hk. destruct (lt_dec j (len s1)) as [H|H]; [exact H|].
    unfold expl, rc_get, len in *. rewrite nth_overflow in Hk by lia. discriminate.
  Qed.

  Lemma facts_char : branch_char h lower head (builds_of s1 rbs).
  Proof.
    destruct (nodup_listed h s1 rbs G1 D) as (Dn & Dm).
    split; [|split; [|split]].
    - (* A *)
      intros ob c Hob Hn Hc. unfold builds_of in Hob. apply in_map_iff in Hob as (rb & <- & Hrb).
      apply (proj1 (in_rbuilds_list _ _)) in Hrb. unfold rbs in Hrb. apply in_app_or in Hrb as [Hrb|Hrb].
      2:{ destruct (N1 rb Hrb) as (T & _). unfold normal, is_nm in *. cbn [out_build ob_type] in Hn. rewrite T in Hn. discriminate. }
      destruct (f_rb_ok rb Hrb) as (i & Ei & Li & Ty & Nl & Rh & Bh & Hnb & H5).
      apply listed_of_in in Hc as (j & Hj & He & Ec). fold (cid s1 j) in Ec. destruct (H5 j Hj) as (Lj & Rj & Mj).
      split; [rewrite <- Ec, <- (gi_flags h s1 G1 j Lj); exact He|].
      exists (cid s1 i). split; [cbn [out_build ob_commit]; rewrite Ei; reflexivity|].
      split; [split; [exact Rh|split; [exact Bh|exact Nl]]|]. rewrite <- Ec. split; [exact Rj|].
      intros b' (R' & B' & N') Rb Rc. apply Mj; assumption.
    - (* B *)
      intros c Hm Hr. split; [apply (NoDup_count_occ Nat.eq_dec), Dn|].
      assert ((exists b, is_build_of h lower head b /\ reach h b c) ->
              exists j, j < len s1 /\ cid s1 j = c /\ In j (builds_listing (s_rbuilds s1)) /\ In c (normal_listed (builds_of s1 rbs))) as Hin.
      { intros (b & Hb & Rb). destruct (F2 b c Hb Rb Hm) as (j & Lj & Ec & Hj). exists j. repeat split; auto.
        apply f_normal. apply in_builds_listing in Hj as (rb & Hrb & Hj). exists rb. split; [exact Hrb|].
        apply listed_of_in. exists j. split; [exact Hj|]. split; [|exact Ec].
        rewrite (gi_flags h s1 G1 j Lj), Ec. exact Hm. }
      split.
      + intros Hex. destruct (Hin Hex) as (j & _ & _ & _ & Hc).
        apply (proj1 (NoDup_count_occ' Nat.eq_dec _) Dn c Hc).
      + intros Hnl Hc. destruct Hin as (j & Lj & Ec & Hj & _).
        { exists head. split; [|exact Hr]. split; [constructor|]. split; [right; reflexivity|exact Hnl]. }
        apply f_nm in Hc as (j' & Hj' & He' & Ec'). apply f_nm_in in Hj' as (p & _ & _ & _ & Hnot).
        assert (j = j'); [|subst j'; contradiction].
        apply (GI_inj h s1 j j' G1); [rewrite (gi_flags h s1 G1 j Lj), Ec; exact Hm|exact He'|congruence].
    - (* C *)
      split; [|exact Dm]. intros c. rewrite f_nm. split.
      + intros (j & Hj & He & Ec). apply f_nm_in in Hj as (p & Ep & Hp & _ & Hnot).
        pose proof (bb_prev h lower prev s HB) as Hprev. rewrite Ep in Hprev. destruct Hprev as (_ & Hlt).
        rewrite Forall_forall in Hlt. specialize (Hlt j Hp). destruct (f_old j Hlt) as (E1 & E2 & E3).
        pose proof (f_expl_lt j He) as Lj.
        split; [rewrite <- Ec, <- (gi_flags h s1 G1 j Lj); exact He|]. split; [rewrite <- Ec, E1; exact E3|].
        destruct (in_lower_dec h lower head Ha) as [Hl|Hl]; [right; exact Hl|left].
        intros Hr. destruct (F2 head c) as (j2 & L2 & Ec2 & Hj2).
        { split; [constructor|]. split; [right; reflexivity|exact Hl]. }
        { exact Hr. }
        { rewrite <- Ec, <- (gi_flags h s1 G1 j Lj); exact He. }
        assert (j2 = j); [|subst j2; contradiction].
        apply (GI_inj h s1 j2 j G1); [|exact He|congruence].
        rewrite (gi_flags h s1 G1 j2 L2), Ec2, <- Ec, <- (gi_flags h s1 G1 j Lj). exact He.
      + intros (Hm & Hl & Hor).
        pose proof (proj2 (bb_cached h lower prev s HB c) Hl) as Hc.
        destruct (gi_match h s (bb_gi h lower prev s HB) c Hc Hm) as (j & Lj & Ec).
        destruct (f_old j Lj) as (E1 & E2 & _).
        assert (expl s j = true) as He by (rewrite (gi_flags h s (bb_gi h lower prev s HB) j Lj), Ec; exact Hm).
        exists j. split; [|split; [congruence|congruence]].
        apply f_nm_in. pose proof (bb_prev h lower prev s HB) as Hprev. destruct prev as [p|].
        * destruct Hprev as (Hall & _). exists p. split; [reflexivity|]. split; [apply Hall; assumption|]. split; [congruence|].
          intros Hin. destruct Hor as [Hnr|Hlh]; [|rewrite (F4 Hlh) in Hin; destruct Hin].
          apply Hnr. destruct (f_listing_reach j Hin) as (_ & R). rewrite E1, Ec in R. exact R.
        * destruct Hprev as (_ & ->). destruct Hl as (hd & [] & _).
    - (* D *)
      intros ob Hob Hn Hc Ht. unfold builds_of in Hob. apply in_map_iff in Hob as (rb & <- & Hrb).
      apply (proj1 (in_rbuilds_list _ _)) in Hrb. unfold rbs in Hrb. apply in_app_or in Hrb as [Hrb|Hrb].
      2:{ destruct (N1 rb Hrb) as (T & _). unfold normal, is_nm in *. cbn [out_build ob_type] in Hn. rewrite T in Hn. discriminate. }
      destruct (f_rb_ok rb Hrb) as (i & Ei & Li & Ty & Nl & Rh & Bh & Hnb & H5).
      cbn [out_build ob_commit ob_num] in *. rewrite Ei in Hc. injection Hc as Hc. fold (cid s1 i) in Hc.
      apply Hnb. rewrite Hc. exact Ht.
  Qed.
End Facts.

(* ------------------------------------------------------------------ *)
(* reading one branch                                                   *)

Lemma GI_same h s s' :
  s_done s' = s_done s -> s_visited s' = s_visited s -> s_selected s' = s_selected s -> s_rcommits s' = s_rcommits s ->
  GI h s -> GI h s'.
Proof.
  intros E1 E2 E3 E4 G.
  assert (forall c, fr s' c = fr s c) as Hfr by (intros c; apply fr_eq; assumption).
  assert (forall c, cached s' c = cached s c) as Hca by (intros c; unfold cached; rewrite E1, E2, E3; reflexivity).
  assert (forall i, rc_get s' i = rc_get s i) as Hget by (intros i; unfold rc_get; rewrite E4; reflexivity).
  assert (len s' = len s) as Hlen by (unfold len; rewrite E4; reflexivity).
  assert (forall i, cid s' i = cid s i) as Hcid by (intros i; unfold cid; rewrite Hget; reflexivity).
  assert (forall i, rpar s' i = rpar s i) as Hrp by (intros i; unfold rpar; rewrite Hget; reflexivity).
  assert (forall i j, rreach s i j -> rreach s' i j) as Hrr by (apply rreach_mono; intros i p; rewrite Hrp; auto).
  constructor; rewrite ?Hlen.
  - intros c p. rewrite !Hca. apply (gi_closed h s G).
  - intros c l i. rewrite Hfr, Hcid. apply (gi_front h s G).
  - intros i Hi. rewrite Hfr, Hcid. apply (gi_sel h s G i Hi).
  - intros i p. rewrite Hrp, !Hcid. apply (gi_par h s G).
  - intros c l j E Hj R. rewrite Hfr in E. rewrite Hcid in R. destruct (gi_complete h s G c l j E Hj R) as (f & Hf & Rf).
    exists f. split; [exact Hf|apply Hrr, Rf].
  - intros i Hi. unfold expl. rewrite Hget, Hcid. apply (gi_flags h s G i Hi).
  - intros c. rewrite Hca. intros H1 H2. destruct (gi_match h s G c H1 H2) as (i & Hi & E). exists i. rewrite Hcid. auto.
Qed.

Lemma out_build_eq s s' rb : s_rcommits s' = s_rcommits s -> out_build s' rb = out_build s rb.
Proof. intros E. unfold out_build, rc_get. rewrite E. reflexivity. Qed.

Lemma builds_of_eq s s' rbs : s_rcommits s' = s_rcommits s -> builds_of s' rbs = builds_of s rbs.
Proof. intros E. unfold builds_of. apply map_ext. intros rb. apply out_build_eq, E. Qed.

Lemma in_lower_app h lower x c : in_lower h (lower ++ [x]) c <-> in_lower h lower c \/ reach h x c.
Proof.
  unfold in_lower. split.
  - intros (hd & Hin & R). apply in_app_or in Hin as [Hin|[<-|[]]]; [left; eauto|right; exact R].
  - intros [(hd & Hin & R)|R]; [exists hd; split; [apply in_or_app; left; exact Hin|exact R]|].
    exists x. split; [apply in_or_app; right; left; reflexivity|exact R].
Qed.

Lemma in_lower_reach h lower a b : in_lower h lower a -> reach h a b -> in_lower h lower b.
Proof. intros (hd & Hin & R) R2. exists hd. split; [exact Hin|eapply reach_trans; eassumption]. Qed.

Lemma finish_pre h head s c rcps : cached s c = false -> pre s (finish h head s c rcps).
Proof.
  intros Ec. destruct (finish_fr h head s c rcps Ec) as (_ & [(E & _)|(bn & E & _)]); [apply pre_eq, E|eexists; exact E].
Qed.

Lemma BI_start h lower prev s head :
  BB h lower prev s -> ~ in_lower h lower head -> BI h lower head (start_branch s).
Proof.
  intros [G Wg Hg Ca Brc Brl Pv] Hn.
  assert (forall i, inK (start_branch s) i -> False) as HK.
  { intros i [H|H]; [destruct H|]. apply is_cur_build_In in H as [H1 H2]. cbn [start_branch s_brcommits s_prev_builds] in *.
    rewrite Forall_forall in Brc. apply H2, Brc, H1. }
  constructor.
  - apply (GI_same h s); auto.
  - apply WG_start, Wg.
  - exact Hg.
  - intros c Hc. apply Ca in Hc. exact Hc.
  - intros c Hc. left. apply Ca. exact Hc.
  - intros i p Hi. destruct (HK i Hi).
  - intros i Hi. destruct (HK i Hi).
  - intros c j Hc Hnl. exfalso. apply Hnl, Ca, Hc.
  - constructor.
  - exact Brl.
  - cbn [start_branch s_brcommits s_prev_builds s_anc]. eapply Forall_impl; [|exact Brc]. cbn beta. auto.
Qed.

Lemma branch_visit h lower head s0 :
  acyclic h -> BI h lower head s0 -> head < S (length (h_commits h)) ->
  let s1 := visit h head (S (length (h_commits h))) s0 head in
  BI h lower head s1 /\ pre s0 s1 /\ cached s1 head = true /\ (forall c', cached s0 c' = true -> fr s1 c' = fr s0 c').
Proof.
  intros Ha B0 Hlt. cbn zeta.
  destruct (visit_ind h head Ha (fun x => BI h lower head x /\ pre s0 x)) with (fuel := S (length (h_commits h))) (s := s0) (c := head)
    as ((B1 & P1) & C1 & F1 & _).
  - intros s c rcps (B & P) Hr Ec Hpar Hrc. split; [apply BI_finish; assumption|].
    eapply pre_trans; [exact P|apply finish_pre, Ec].
  - exact Hlt.
  - constructor.
  - split; [exact B0|apply pre_refl].
  - auto.
Qed.

Lemma fold_add_keys_in (anc : list (nat * list nat)) acc i :
  In i (fold_left (fun a kv => add_uniq (fst kv) a) anc acc) <-> In i acc \/ In i (keys anc).
Proof.
  revert acc. induction anc as [|kv anc IH]; intros acc; cbn [fold_left keys map In]; [tauto|].
  rewrite IH, add_uniq_in. unfold keys. intuition.
Qed.

Lemma read_branch_shape h s head prev fake :
  let s1 := visit h head (S (length (h_commits h))) (start_branch s) head in
  let nm := match prev with Some p => not_merged s1 p | None => [] end in
  exists nmb fake', read_branch h s head prev fake = (end_branch s1, s_rbuilds s1 ++ nmb, fake') /\
    (forall rb, In rb nmb -> is_nm rb = true /\ rb_rcommits rb = nm /\ rb_commit rb = None) /\ (nm <> [] -> nmb <> []).
Proof.
  cbn zeta. unfold read_branch.
  set (s1 := visit h head (S (length (h_commits h))) (start_branch s) head).
  destruct (match prev with Some p => not_merged s1 p | None => [] end) as [|n0 nm0] eqn:En.
  - exists [], fake. rewrite app_nil_r. split; [reflexivity|]. split; [intros rb []|congruence].
  - eexists [_], _. split; [reflexivity|]. split; [|discriminate].
    intros rb [<-|[]]. repeat split; reflexivity.
Qed.

Definition rb_lt (n : nat) (rb : rbuild) : Prop :=
  (forall i, rb_commit rb = Some i -> i < n) /\ Forall (fun j => j < n) (rb_rcommits rb).

Lemma read_branch_char h lower prev s head fake s' rbs fake' :
  acyclic h -> BB h lower prev s -> head < S (length (h_commits h)) ->
  read_branch h s head prev fake = (s', rbs, fake') ->
  BB h (lower ++ [head]) (Some rbs) s' /\ pre s s' /\ Forall (rb_lt (len s')) rbs /\
  branch_char h lower head (builds_of s' rbs).
Proof.
  intros Ha HB Hlt E.
  destruct (read_branch_once h s head prev fake s' rbs fake' (bb_wg h lower prev s HB) E) as (Wg' & Dn).
  destruct (read_branch_shape h s head prev fake) as (nmb & fk & E2 & N1 & N2). cbn zeta in *.
  rewrite E in E2. injection E2 as -> -> _.
  set (s0 := start_branch s) in *.
  set (s1 := visit h head (S (length (h_commits h))) s0 head) in *.
  set (nm := match prev with Some p => not_merged s1 p | None => [] end) in *.
  pose proof (bb_gi h lower prev s HB) as G.
  assert (forall c', fr s0 c' = fr s c') as Fr0 by (intros c'; apply fr_eq; reflexivity).
  assert (forall c', cached s0 c' = cached s c') as Ca0 by reflexivity.
  assert (forall j, In j (builds_listing nmb) <-> In j nm /\ nmb <> []) as Hnmb.
  { intros j. rewrite in_builds_listing. split.
    - intros (rb & Hrb & Hj). destruct (N1 rb Hrb) as (_ & Er & _). rewrite Er in Hj. split; [exact Hj|]. intros ->. destruct Hrb.
    - intros (Hj & Hne). destruct nmb as [|rb nmb0]; [congruence|]. exists rb. split; [left; reflexivity|].
      destruct (N1 rb (or_introl eq_refl)) as (_ & Er & _). rewrite Er. exact Hj. }
  (* common part of the two cases *)
  assert (forall s1',
            s1' = s1 -> GI h s1 -> pre s s1 -> Forall (rb_ok h lower head s1) (s_rbuilds s1) ->
            (forall b c, is_build_of h lower head b -> reach h b c -> matches h c = true ->
                         exists j, j < len s1 /\ cid s1 j = c /\ In j (builds_listing (s_rbuilds s1))) ->
            (in_lower h lower head -> s_rbuilds s1 = []) ->
            s_hang s1 = false ->
            (forall c, cached s1 c = true <-> in_lower h (lower ++ [head]) c) ->
            Forall (fun i => In i (s_prev_builds (end_branch s1))) (s_brcommits s1) ->
            Forall (fun i => i < len s1) (s_brcommits s1) ->
            (forall j, len s <= j -> j < len s1 -> expl s1 j = true -> In j (builds_listing (s_rbuilds s1))) ->
            BB h (lower ++ [head]) (Some (s_rbuilds s1 ++ nmb)) (end_branch s1) /\ pre s (end_branch s1) /\
            Forall (rb_lt (len (end_branch s1))) (s_rbuilds s1 ++ nmb) /\
            branch_char h lower head (builds_of (end_branch s1) (s_rbuilds s1 ++ nmb))) as Hcommon.
  { intros s1' _ G1 P1 F1 F2 F4 Hg1 Ca1 Brc1 Brl1 Hnew.
    assert (forall rb, In rb nmb -> is_nm rb = true /\ rb_rcommits rb = nm) as N1' by (intros rb Hrb; destruct (N1 rb Hrb) as (A1 & A2 & _); auto).
    assert (forall j, In j (builds_listing (s_rbuilds s1)) -> j < len s1) as Hl1.
    { intros j Hj. apply in_builds_listing in Hj as (rb & Hrb & Hj). rewrite Forall_forall in F1.
      destruct (F1 rb Hrb) as (i & _ & _ & _ & _ & _ & _ & _ & H5). apply (H5 j Hj). }
    assert (forall j, In j nm -> j < len s) as Hl2.
    { intros j Hj. unfold nm in Hj. pose proof (bb_prev h lower prev s HB) as Hp. destruct prev as [p|]; [|destruct Hj].
      apply not_merged_in in Hj as (Hj & _). destruct Hp as (_ & Hp). rewrite Forall_forall in Hp. apply Hp, Hj. }
    pose proof (pre_len s s1 P1) as Lle.
    split; [|split; [exact P1|split]].
    - constructor.
      + apply (GI_same h s1); auto.
      + exact Wg'.
      + exact Hg1.
      + exact Ca1.
      + exact Brc1.
      + exact Brl1.
      + change (len (end_branch s1)) with (len s1). split.
        * intros j Hj He. unfold builds_listing. rewrite map_app, concat_app. apply in_or_app.
          fold (builds_listing (s_rbuilds s1)). fold (builds_listing nmb).
          destruct (in_dec Nat.eq_dec j (builds_listing (s_rbuilds s1))) as [Hin|Hnin]; [left; exact Hin|right].
          destruct (lt_dec j (len s)) as [Lj|Lj]; [|exfalso; apply Hnin, Hnew; [lia|exact Hj|exact He]].
          assert (In j nm) as Hjn.
          { unfold nm. pose proof (bb_prev h lower prev s HB) as Hp. destruct prev as [p|]; [|destruct Hp; lia].
            apply not_merged_in. split; [|split; [exact He|exact Hnin]]. apply (proj1 Hp j Lj).
            rewrite <- (pre_expl s s1 j P1 Lj). exact He. }
          apply Hnmb. split; [exact Hjn|]. apply N2. intros E0. rewrite E0 in Hjn. destruct Hjn.
        * unfold builds_listing. rewrite map_app, concat_app. apply Forall_app.
          fold (builds_listing (s_rbuilds s1)). fold (builds_listing nmb). split; apply Forall_forall; intros j Hj.
          -- apply Hl1, Hj.
          -- apply Hnmb in Hj as (Hj & _). specialize (Hl2 j Hj). lia.
    - change (len (end_branch s1)) with (len s1). apply Forall_app. split; apply Forall_forall; intros rb Hrb.
      + rewrite Forall_forall in F1. destruct (F1 rb Hrb) as (i & Ei & Li & _ & _ & _ & _ & _ & H5). split.
        * intros i0 E0. rewrite Ei in E0. injection E0 as <-. exact Li.
        * apply Forall_forall. intros j Hj. apply (H5 j Hj).
      + destruct (N1 rb Hrb) as (_ & Er & Ec). split; [intros i0 E0; congruence|].
        rewrite Er. apply Forall_forall. intros j Hj. specialize (Hl2 j Hj). lia.
    - rewrite (builds_of_eq s1 (end_branch s1)) by reflexivity.
      apply (facts_char h lower prev s s1 head nmb Ha HB G1 P1 F1 F2 F4 N1' N2 Dn). }
  destruct (in_lower_dec h lower head Ha) as [Hl|Hnl].
  - (* the head lies inside a branch read before: nothing is visited *)
    assert (cached s0 head = true) as Ec by (rewrite Ca0; apply (bb_cached h lower prev s HB), Hl).
    assert (s1 = s0) as Es1 by (unfold s1; cbn [visit]; rewrite Ec; reflexivity).
    apply (Hcommon s1 eq_refl); rewrite Es1.
    + apply (GI_same h s); auto.
    + apply pre_eq. reflexivity.
    + constructor.
    + intros b c (Rb & _ & Nb). exfalso. apply Nb. eapply in_lower_reach; eassumption.
    + reflexivity.
    + apply (bb_hang h lower prev s HB).
    + intros c. rewrite Ca0, in_lower_app, (bb_cached h lower prev s HB c). split; [auto|].
      intros [H|H]; [exact H|eapply in_lower_reach; eassumption].
    + cbn [end_branch start_branch s0 s_prev_builds s_anc s_brcommits fold_left]. apply (bb_brc h lower prev s HB).
    + apply (bb_brlt h lower prev s HB).
    + intros j H1 H2. change (len s0) with (len s) in H2. lia.
  - (* the head is new *)
    pose proof (BI_start h lower prev s head HB Hnl) as B0.
    destruct (branch_visit h lower head s0 Ha B0 Hlt) as (B1 & P01 & C1 & F01). fold s1 in B1, P01, C1, F01.
    destruct B1 as [G1 W1 Hg1 Lw1 Sc1 Cl1 Li1 Ex1 Bu1 Br1 Br21].
    assert (pre s s1) as P1 by (destruct P01 as [l El]; exists l; exact El).
    assert (forall b c, cached s1 b = true -> ~ in_lower h lower b -> bhc h head b -> reach h b c -> matches h c = true ->
                        exists j, j < len s1 /\ cid s1 j = c /\ In j (builds_listing (s_rbuilds s1))) as Hexp.
    { intros b c Hcb Nb Bb Rb Hm. pose proof (GI_reach_closed h s1 b c G1 Hcb Rb) as Hcc.
      destruct (gi_match h s1 G1 c Hcc Hm) as (j & Lj & Ec). exists j. split; [exact Lj|]. split; [exact Ec|].
      apply Li1; [|rewrite (gi_flags h s1 G1 j Lj), Ec; exact Hm]. apply (Ex1 b j Hcb Nb Bb Lj). rewrite Ec. exact Rb. }
    apply (Hcommon s1 eq_refl); auto.
    + intros b c (Rb & Bb & Nb) Rc Hm. apply (Hexp b c); auto. apply (GI_reach_closed h s1 head b G1 C1 Rb).
    + intros Hl. contradiction.
    + intros c. rewrite in_lower_app. split; [apply Sc1|]. intros [H|H]; [apply Lw1, H|apply (GI_reach_closed h s1 head c G1 C1 H)].
    + cbn [end_branch s_prev_builds]. eapply Forall_impl; [|exact Br21]. cbn beta. intros i Hi. apply fold_add_keys_in. exact Hi.
    + intros j H1 H2 He. pose proof (GI_cid_cached h s1 j G1 H2) as Hcj.
      assert (~ in_lower h lower (cid s1 j)) as Nj.
      { intros Hlj. apply (bb_cached h lower prev s HB) in Hlj. rewrite <- Ca0 in Hlj.
        pose proof (F01 _ Hlj) as Ef. rewrite (gi_sel h s1 G1 j H2), Fr0 in Ef. symmetry in Ef.
        destruct (gi_front h s G _ _ j Ef (or_introl eq_refl)) as (Lj & _). lia. }
      destruct (Sc1 _ Hcj) as [Hlj|Rj]; [contradiction|].
      apply Li1; [|exact He]. apply (Ex1 head j C1 Hnl (or_intror eq_refl) H2 Rj).
Qed.

(* ------------------------------------------------------------------ *)
(* the whole run                                                        *)

Definition obr_of (s : state) (br : rbranch) : obranch :=
  mkOBr (br_name br) (br_head br) (map (out_build s) (rbuilds_list (br_rbuilds br))).

Definition prev_of (brs : list rbranch) : option (list rbuild) :=
  match rev brs with [] => None | p :: _ => Some (br_rbuilds p) end.

Lemma all_branches_obr h : all_branches h = map (obr_of (g_state (run_graph h))) (g_branches (run_graph h)).
Proof. reflexivity. Qed.

Lemma out_build_pre s s' rb : pre s s' -> rb_lt (len s) rb -> out_build s' rb = out_build s rb.
Proof.
  intros P (H1 & H2). unfold out_build.
  assert (forall i, In i (sort_desc_nat (rb_rcommits rb)) -> rc_get s' i = rc_get s i) as Hg.
  { intros i Hi. apply (pre_get s s' i P). rewrite Forall_forall in H2. apply H2.
    eapply Permutation_in; [apply Permutation_sym, stable_sort_perm|exact Hi]. }
  f_equal.
  - destruct (rb_commit rb) as [i|]; [|reflexivity]. rewrite (pre_get s s' i P (H1 i eq_refl)). reflexivity.
  - apply map_ext_in. intros i Hi. rewrite (Hg i Hi). reflexivity.
  - rewrite (filter_ext_in (fun i => rc_explicit (rc_get s' i)) (fun i => rc_explicit (rc_get s i))).
    + apply map_ext_in. intros i Hi. apply filter_In in Hi as [Hi _]. rewrite (Hg i Hi). reflexivity.
    + intros i Hi. rewrite (Hg i Hi). reflexivity.
Qed.

Record TI (h : history) (g : gstate) : Prop := mkTI {
  ti_bb : BB h (map br_head (g_branches g)) (prev_of (g_branches g)) (g_state g);
  ti_lt : Forall (fun br => Forall (rb_lt (len (g_state g))) (br_rbuilds br)) (g_branches g);
  ti_char : report_char_from h [] (map (obr_of (g_state g)) (g_branches g))
}.

Lemma TI_init h : TI h (mkG init_state [] None fake_iid_base).
Proof.
  constructor; cbn [g_state g_branches map]; [|constructor|exact I].
  constructor.
  - apply GI_init.
  - apply WG_init.
  - reflexivity.
  - intros c. split; [discriminate|]. intros (hd & [] & _).
  - constructor.
  - constructor.
  - split; reflexivity.
Qed.

Lemma TI_step h g b :
  acyclic h -> b_head b < S (length (h_commits h)) -> TI h g -> TI h (step_branch h g b).
Proof.
  intros Ha Hlt [HB Hl Hc]. unfold step_branch.
  destruct (match g_min_ts g with Some m => _ | None => false end); [constructor; assumption|].
  change (match rev (g_branches g) with [] => None | p :: _ => Some (br_rbuilds p) end) with (prev_of (g_branches g)).
  destruct (read_branch h (g_state g) (b_head b) (prev_of (g_branches g)) (g_fake g)) as [[s' rbs] fake'] eqn:E.
  destruct (read_branch_char h _ _ _ _ _ _ _ _ Ha HB Hlt E) as (HB' & P & Hl' & Hc').
  pose proof (pre_len _ _ P) as Lle.
  constructor; cbn [g_state g_branches].
  - rewrite map_app. cbn [map br_head]. unfold prev_of. rewrite rev_unit. cbn [br_rbuilds]. exact HB'.
  - apply Forall_app. split; [|constructor; [exact Hl'|constructor]].
    eapply Forall_impl; [|exact Hl]. cbn beta. intros br. apply Forall_impl. intros rb (H1 & H2). split.
    + intros i Hi. specialize (H1 i Hi). lia.
    + eapply Forall_impl; [|exact H2]. cbn beta. intros; lia.
  - rewrite map_app. cbn [map]. apply report_char_snoc. split.
    + replace (map (obr_of s') (g_branches g)) with (map (obr_of (g_state g)) (g_branches g)); [exact Hc|].
      apply map_ext_in. intros br Hbr. unfold obr_of. f_equal. apply map_ext_in. intros rb Hrb.
      symmetry. apply out_build_pre; [exact P|]. rewrite Forall_forall in Hl. specialize (Hl br Hbr).
      rewrite Forall_forall in Hl. apply Hl. apply in_rbuilds_list. exact Hrb.
    + cbn [app obr_head obr_builds obr_of br_head br_rbuilds]. rewrite map_map. cbn [obr_head obr_of]. exact Hc'.
Qed.

Lemma TI_run h : acyclic h -> forall bs g,
  Forall (fun b => b_head b < S (length (h_commits h))) bs -> TI h g -> TI h (fold_left (step_branch h) bs g).
Proof.
  intros Ha. induction bs as [|b bs IH]; intros g F T; cbn [fold_left]; [exact T|].
  inversion F; subst. apply IH; [assumption|]. apply TI_step; assumption.
Qed.

Lemma release_branches_head remote refs b : In b (release_branches remote refs) -> exists n, In (n, b_head b) refs.
Proof.
  unfold release_branches. rewrite in_flat_map. intros ([name head] & Hin & Hb). exists name.
  apply in_app_or in Hb as [Hb|Hb].
  - destruct (existsb _ master_names); [|destruct Hb]. destruct Hb as [<-|[]]. exact Hin.
  - destruct (prefixb _ name); [|destruct Hb]. destruct Hb as [<-|[]]. exact Hin.
Qed.

Lemma sorted_heads h : heads_exist h ->
  Forall (fun b => b_head b < S (length (h_commits h))) (sorted_branches (h_remote h) (h_refs h)).
Proof.
  intros He. apply Forall_forall. intros b Hb.
  assert (In b (release_branches (h_remote h) (h_refs h))) as Hin
    by (eapply Permutation_in; [apply Permutation_sym, sorted_branches_perm|exact Hb]).
  destruct (release_branches_head _ _ b Hin) as (n & Hn). specialize (He n (b_head b) Hn). lia.
Qed.

Lemma TI_final h : acyclic h -> heads_exist h -> TI h (run_graph h).
Proof. intros Ha He. unfold run_graph. apply TI_run; [exact Ha|apply sorted_heads, He|apply TI_init]. Qed.

(* for every acyclic history: the report is produced and every branch satisfies [branch_char] *)
Lemma report_char_all h : acyclic h -> heads_exist h -> (exists l, report h = Ok l) /\ report_char h (all_branches h).
Proof.
  intros Ha He. destruct (TI_final h Ha He) as [HB _ Hc]. split.
  - unfold report. rewrite (bb_hang _ _ _ _ HB). eauto.
  - rewrite all_branches_obr. exact Hc.
Qed.

(* heads outside the lower-sorted branches: the property statement *)
Lemma attribution_l h :
  acyclic h -> heads_exist h ->
  (forall l1 br l2, all_branches h = l1 ++ br :: l2 -> ~ in_lower h (map obr_head l1) (obr_head br)) ->
  property_holds h.
Proof.
  intros Ha He Hap. destruct (report_char_all h Ha He) as ((l & El) & Hc). exists l. split; [exact El|].
  apply report_char_ok; [exact Hc|]. intros l1 br l2 E. cbn [app]. apply (Hap l1 br l2 E).
Qed.

(* ------------------------------------------------------------------ *)
(* exactly when the statement holds                                     *)

Lemma branch_char_iff h lower head builds :
  branch_char h lower head builds ->
  (branch_ok h lower head builds <->
   (in_lower h lower head -> forall c, matches h c = true -> reach h head c -> False)).
Proof.
  intros Hc. split.
  - intros (_ & B & _ & _) Hl c Hm Hr. destruct Hc as (_ & _ & (C1 & _) & _).
    destruct (B c Hm Hr) as (_ & _ & Hn). apply Hn. apply C1. split; [exact Hm|]. split; [|right; exact Hl].
    eapply in_lower_reach; eassumption.
  - intros Hno. destruct Hc as (A & B & (C1 & C2) & D). split; [exact A|]. split; [|split; [|exact D]].
    + intros c Hm Hr. destruct (B c Hm Hr) as (B1 & B2 & B3). split; [exact B1|]. split; [exact B2|].
      intros Hin. apply C1 in Hin as (_ & Hl & [Hnr|Hlh]); [contradiction|]. exact (Hno Hlh c Hm Hr).
    + split; [|exact C2]. intros c. rewrite C1. split; [|tauto].
      intros (Hm & Hl & [Hnr|Hlh]); (split; [exact Hm|split; [exact Hl|]]); [exact Hnr|].
      intros Hr. exact (Hno Hlh c Hm Hr).
Qed.

Lemma report_char_nth h brs : forall lower l1 br l2,
  report_char_from h lower brs -> brs = l1 ++ br :: l2 ->
  branch_char h (lower ++ map obr_head l1) (obr_head br) (obr_builds br).
Proof.
  induction brs as [|b0 r IH]; intros lower l1 br l2 H E; [destruct l1; discriminate|].
  cbn [report_char_from] in H. destruct H as (H1 & H2). destruct l1 as [|x l1]; cbn [app map] in *.
  - injection E as E1 E2. subst br l2. rewrite app_nil_r. exact H1.
  - injection E as E1 E2. subst x r. replace (lower ++ obr_head b0 :: map obr_head l1) with ((lower ++ [obr_head b0]) ++ map obr_head l1)
      by (rewrite <- app_assoc; reflexivity).
    eapply IH; [exact H2|reflexivity].
Qed.

Lemma report_ok_iff h brs : forall lower,
  report_char_from h lower brs ->
  (report_ok_from h lower brs <->
   forall l1 br l2 c, brs = l1 ++ br :: l2 -> in_lower h (lower ++ map obr_head l1) (obr_head br) ->
                      matches h c = true -> reach h (obr_head br) c -> False).
Proof.
  induction brs as [|b0 r IH]; intros lower Hc; cbn [report_char_from report_ok_from] in *.
  - split; [|auto]. intros _ l1 br l2 c E. destruct l1; discriminate.
  - destruct Hc as (H1 & H2). rewrite (branch_char_iff h lower _ _ H1), (IH _ H2). split.
    + intros (Ha & Hb) l1 br l2 c E. destruct l1 as [|x l1]; cbn [app map] in *; injection E as E1 E2.
      * subst br l2. rewrite app_nil_r. intros Hl. apply Ha, Hl.
      * subst x r. replace (lower ++ obr_head b0 :: map obr_head l1) with ((lower ++ [obr_head b0]) ++ map obr_head l1)
          by (rewrite <- app_assoc; reflexivity).
        apply (Hb l1 br l2 c eq_refl).
    + intros Hall. split.
      * intros Hl c. apply (Hall [] b0 r c eq_refl). cbn [map]. rewrite app_nil_r. exact Hl.
      * intros l1 br l2 c E. specialize (Hall (b0 :: l1) br l2 c). cbn [app map] in Hall.
        rewrite <- app_assoc. cbn [app]. apply Hall. rewrite E. reflexivity.
Qed.

(* the property holds for a history iff no branch with a matching commit in its history has its
   head inside (or equal to the head of) a lower-sorted branch *)
Lemma property_iff_l h :
  acyclic h -> heads_exist h ->
  (property_holds h <->
   forall l1 br l2 c, all_branches h = l1 ++ br :: l2 -> in_lower h (map obr_head l1) (obr_head br) ->
                      matches h c = true -> reach h (obr_head br) c -> False).
Proof.
  intros Ha He. destruct (report_char_all h Ha He) as ((l & El) & Hc).
  pose proof (report_ok_iff h (all_branches h) [] Hc) as Hiff. cbn [app] in Hiff.
  unfold property_holds, report_ok. rewrite <- Hiff. split; [intros (l' & _ & H); exact H|intros H; eauto].
Qed.
