(* C14/Model.v -- executable model of ak/color.py: _ColorConfColorDescr (parser of
   the description strings, resolve), ColorsConfig (add_new_items with the
   incremental resolution loop, _flatten_dict, get_color, the palette cache) and
   the part of ColorFmt/_ColorSequences.make that turns a resolved description
   into SGR parameters.  Tables, the statements of resolve() and the built-in
   configuration are regenerated from the source (gen/C14_Consts.v).
   Strings are lists of code points.  No proofs in this file. *)
From Coq Require Import ZArith List Bool.
From AK Require Import Common.Sx Common.Err.
From AK Require Export C14.Base gen.C14_Consts.
Import ListNotations.
Open Scope Z_scope.

(* ------------------------------------------------------------------ colors *)
(* the python object kept in fg_color / bg_color (None is [option]'s None) *)
Inductive pcolor :=
| CStr (s : str)            (* a member of _COLORS_NAMES: a name, "", "-", "g<i>" *)
| CRgb (r g b : Z)
| CInt (n : Z).

Definition pcolor_is (c : option pcolor) (v : str) : bool :=
  match c with Some (CStr s) => str_eqb s v | _ => false end.

Definition color_names : list str :=
  map fst colors_tbl ++ extra_names ++ map (fun i => 103 :: dec (Z.of_nat i)) (seq 0 gray_count).

(* _ColorSequences._make_seq_element *)
Definition seq_element (c : pcolor) (is_bg : bool) : res str :=
  let fg_bg := if is_bg then [52] else [51] in
  let by_int (n : Z) : res str :=
    if (n <? 0) || (255 <? n) then Err ValueErr
    else Ok (fg_bg ++ [56; 58; 53; 58] ++ dec n) in
  match c with
  | CStr s =>
      match lookup s colors_tbl with
      | Some d => Ok (fg_bg ++ d)
      | None =>
          match s with
          | 103 :: r =>
              let shade := match py_int r with Some n => n | None => -1 end in
              if (shade <? 0) || (24 <? shade) then Err ValueErr else by_int (232 + shade)
          | _ => Err ValueErr
          end
      end
  | CRgb r g b =>
      if existsb (fun x => (x <? 0) || (5 <? x)) [r; g; b] then Err ValueErr
      else by_int (16 + r * 36 + g * 6 + b)
  | CInt n => by_int n
  end.

(* modifiers: one [option bool] per keyword of ColorFmt, in the order of mod_codes *)
Notation mods := (list (option bool)).
Definition no_mods : mods := repeat None (length mod_codes).

Fixpoint set_nth {A} (n : nat) (x : A) (l : list A) : list A :=
  match l, n with
  | [], _ => []
  | _ :: r, O => x :: r
  | y :: r, S n' => y :: set_nth n' x r
  end.

(* {**parent, **own} *)
Fixpoint merge_mods (own parent : mods) : mods :=
  match own, parent with
  | o :: own', p :: parent' => (match o with Some b => Some b | None => p end) :: merge_mods own' parent'
  | _, _ => own
  end.

(* a ColorFmt object = its list of SGR parameters ([] = no effects) *)
Notation fmt := (list str).

Fixpoint mod_params (m : mods) (codes : list str) : list str :=
  match m, codes with
  | Some true :: m', c :: codes' => c :: mod_params m' codes'
  | _ :: m', _ :: codes' => mod_params m' codes'
  | _, _ => []
  end.

(* ColorFmt(fg, bg_color=bg, **mods) *)
Definition make_fmt (fg bg : option pcolor) (m : mods) : res fmt :=
  bind (match fg with None => Ok [] | Some c => bind (seq_element c false) (fun e => Ok [e]) end) (fun f =>
  bind (match bg with None => Ok [] | Some c => bind (seq_element c true) (fun e => Ok [e]) end) (fun b =>
  Ok (f ++ b ++ mod_params m mod_codes))).

(* str(fmt('x')) minus the text: the prefix; the suffix is ESC[0m iff the prefix is not empty *)
Definition fmt_prefix (f : fmt) : str :=
  match f with
  | [] => []
  | _ => [27; 91] ++ join [59] f ++ [109]
  end.

(* ------------------------------------------------------------------ parser *)
(* _parse_color_impl; None = ValueError *)
Definition parse_color (s : str) : option pcolor :=
  let c := strip s in
  if mem_str c color_names then Some (CStr c)
  else if starts_with 40 c then
    if negb (ends_with 41 c) then None
    else
      match map strip (split_on 44 (removelast (tl c))) with
      | [a; b; d] =>
          match py_int a, py_int b, py_int d with
          | Some r, Some g, Some b' =>
              if existsb (fun x => (x <? 0) || (5 <? x)) [r; g; b'] then None
              else Some (CRgb r g b')
          | _, _, _ => None
          end
      | _ => None
      end
  else
    match py_int c with
    | Some n => if (n <? 0) || (255 <? n) then None else Some (CInt n)
    | None => None
    end.

Inductive cpart :=
| CPParent (p : str)
| CPColors (fg bg : pcolor).

(* _parse_colors_part *)
Definition parse_colors_part (part : str) : res cpart :=
  match split_on 47 part with
  | [a; b] =>
      match parse_color a, parse_color b with
      | Some f, Some g => Ok (CPColors f g)
      | _, _ => Err ValueErr
      end
  | [_] =>
      match parse_color part with
      | Some f => Ok (CPColors f (CStr []))
      | None =>
          if existsb (Z.eqb 44) part || has_key part modifiers_tbl then Err ValueErr
          else Ok (CPParent part)
      end
  | _ => Err ValueErr
  end.

(* _parse_modifiers *)
Fixpoint apply_modifiers (names : list str) (m : mods) : res mods :=
  match names with
  | [] => Ok m
  | n :: r =>
      match lookup n modifiers_tbl with
      | None => Err ValueErr      (* KeyError translated *)
      | Some (i, v) => apply_modifiers r (set_nth i (Some v) m)
      end
  end.
Definition parse_modifiers (s : str) : res mods :=
  let chunks := filter (fun c => negb (match c with [] => true | _ => false end))
                       (map strip (split_on 44 s)) in
  apply_modifiers chunks no_mods.

(* the description after the constructor's normalisation (None -> "") *)
Record descr := mk_descr {
  d_parent : option str;
  d_fg : pcolor;
  d_bg : pcolor;
  d_mods : mods }.

Definition descr_of (p0 : cpart) (second : option (pcolor * pcolor)) (m : mods) : descr :=
  match p0, second with
  | CPParent p, Some (f, g) => mk_descr (Some p) f g m
  | CPParent p, None => mk_descr (Some p) (CStr []) (CStr []) m
  | CPColors f g, _ => mk_descr None f g m
  end.

(* _parse_init_str followed by `if self.fg_color is None: self.fg_color = ""` *)
Definition parse_init_str (s : str) : res descr :=
  match split_on 58 s with
  | [] => Err ValueErr  (* split never returns [] *)
  | c0 :: rest =>
      if (3 <? length (c0 :: rest))%nat then Err ValueErr
      else
        bind (parse_colors_part c0) (fun p0 =>
        match rest with
        | [] => Ok (descr_of p0 None no_mods)
        | c1 :: rest2 =>
            match parse_colors_part c1 with
            | Err _ =>
                match rest2 with
                | _ :: _ => Err ValueErr
                | [] => bind (parse_modifiers c1) (fun m => Ok (descr_of p0 None m))
                end
            | Ok (CPParent _) => Err ValueErr
            | Ok (CPColors f1 g1) =>
                match p0 with
                | CPColors _ _ => Err ValueErr
                | CPParent _ =>
                    match rest2 with
                    | [] => Ok (descr_of p0 (Some (f1, g1)) no_mods)
                    | c2 :: _ => bind (parse_modifiers c2) (fun m => Ok (descr_of p0 (Some (f1, g1)) m))
                    end
                end
            end
        end)
  end.

(* ------------------------------------------------------------------ _ColorConfColorDescr *)
Record entry := mk_entry {
  e_init : str;                    (* init_str *)
  e_parent : option str;           (* parent_syntax_id *)
  e_fg : option pcolor;            (* fg_color: overwritten by resolve *)
  e_bg : option pcolor;
  e_mods : mods;
  e_fmt : option fmt }.            (* color_fmt; None = not resolved *)

Definition get_fld (f : fld) (e : entry) : option pcolor :=
  match f with FFg => e_fg e | FBg => e_bg e end.
Definition set_fld (f : fld) (v : option pcolor) (e : entry) : entry :=
  match f with
  | FFg => mk_entry (e_init e) (e_parent e) v (e_bg e) (e_mods e) (e_fmt e)
  | FBg => mk_entry (e_init e) (e_parent e) (e_fg e) v (e_mods e) (e_fmt e)
  end.
Definition set_mods (m : mods) (e : entry) : entry :=
  mk_entry (e_init e) (e_parent e) (e_fg e) (e_bg e) m (e_fmt e).
Definition set_fmt (f : fmt) (e : entry) : entry :=
  mk_entry (e_init e) (e_parent e) (e_fg e) (e_bg e) (e_mods e) (Some f).

(* one statement of resolve(); [parent] is only read by the statements of the
   with-parent branch (a missing parent there would be an AttributeError) *)
Definition run_act (parent : option entry) (a : ract) (e : entry) : res entry :=
  match a with
  | ANoneIfIn f vs => Ok (if existsb (pcolor_is (get_fld f e)) vs then set_fld f None e else e)
  | AInheritIfIn f vs =>
      match parent with
      | None => Err AttrErr
      | Some p => Ok (if existsb (pcolor_is (get_fld f e)) vs then set_fld f (get_fld f p) e else e)
      end
  | AMergeMods =>
      match parent with
      | None => Err AttrErr
      | Some p => Ok (set_mods (merge_mods (e_mods e) (e_mods p)) e)
      end
  end.

Fixpoint run_acts (parent : option entry) (acts : list ract) (e : entry) : res entry :=
  match acts with
  | [] => Ok e
  | a :: r => bind (run_act parent a e) (run_acts parent r)
  end.

(* resolve(parent, no_color) *)
Definition resolve_entry (no_color : bool) (parent : option entry) (e : entry) : res entry :=
  match e_fmt e with
  | Some _ => Err AssertErr
  | None =>
      bind (match e_parent e, parent with
            | Some _, Some p =>
                match e_fmt p with
                | None => Err AssertErr
                | Some _ => run_acts parent acts_parent e
                end
            | None, None => run_acts None acts_root e
            | _, _ => Err AssertErr
            end) (fun e1 =>
      if no_color then Ok (set_fmt [] e1)
      else bind (make_fmt (e_fg e1) (e_bg e1) (e_mods e1)) (fun f => Ok (set_fmt f e1)))
  end.

(* _ColorConfColorDescr(synt_id, init_str, src, no_color) *)
Definition new_entry (no_color : bool) (init : str) : res entry :=
  bind (parse_init_str init) (fun d =>
  let e := mk_entry init (d_parent d) (Some (d_fg d)) (Some (d_bg d)) (d_mods d) None in
  match d_parent d with
  | None => resolve_entry no_color None e
  | Some _ => Ok e
  end).

(* ------------------------------------------------------------------ ColorsConfig *)
Notation smap := (list (str * entry)).

Record conf := mk_conf {
  c_nocolor : bool;
  c_map : smap;                       (* syntax_map *)
  c_cache : option (list fmt) }.      (* _cache[GlobalPalette]: formatters of its accessors *)

(* the registration loop of add_new_items *)
Fixpoint insert_items (nc : bool) (m : smap) (items : list (str * str)) : res smap :=
  match items with
  | [] => Ok m
  | (id, init) :: r =>
      if has_key id m then insert_items nc m r
      else bind (new_entry nc init) (fun e => insert_items nc (m ++ [(id, e)]) r)
  end.

Inductive wres :=
| WFound (top : str) (path : list str)   (* reached a resolved description *)
| WCant (path : list str)                (* reached a pending one that cannot be resolved now *)
| WAssert                                (* circular dependency *)
| WHang.                                 (* out of fuel / impossible lookup failure *)

(* the inner `while True` walk towards a resolved ancestor *)
Fixpoint walk (fuel : nat) (m : smap) (cant : list str) (cur : str) (path : list str) : wres :=
  match fuel with
  | O => WHang
  | S f =>
      if mem_str cur path then WAssert
      else
        match lookup cur m with
        | None => WHang
        | Some e =>
            match e_fmt e with
            | Some _ => WFound cur path
            | None =>
                match e_parent e with
                | None => WCant path          (* `None not in self.syntax_map` *)
                | Some p =>
                    if mem_str cur cant || negb (has_key p m) then WCant path
                    else walk f m cant p (path ++ [cur])
                end
            end
        end
  end.

(* for synt_id in reversed(path): resolve(parent); parent = it *)
Fixpoint resolve_path (nc : bool) (m : smap) (parent : entry) (ids : list str) : res smap :=
  match ids with
  | [] => Ok m
  | i :: r =>
      match lookup i m with
      | None => Err Hang
      | Some e =>
          bind (resolve_entry nc (Some parent) e) (fun e' =>
          resolve_path nc (update i e' m) e' r)
      end
  end.

(* one `for synt_id, syntax_color in sorted(to_resolve.items())` pass *)
Fixpoint pass (nc : bool) (ids : list str) (m : smap) (cant : list str) (any : bool)
  : res (smap * list str * bool) :=
  match ids with
  | [] => Ok (m, cant, any)
  | i :: r =>
      match lookup i m with
      | None => Err Hang
      | Some e =>
          match e_fmt e with
          | Some _ => pass nc r m cant any
          | None =>
              match walk (S (length m)) m cant i [] with
              | WAssert => Err AssertErr
              | WHang => Err Hang
              | WCant path => pass nc r m (path ++ cant) any
              | WFound top path =>
                  match lookup top m with
                  | None => Err Hang
                  | Some pe =>
                      bind (resolve_path nc m pe (rev path)) (fun m' =>
                      pass nc r m' cant (any || negb (match path with [] => true | _ => false end)))
                  end
              end
          end
      end
  end.

(* `while to_resolve:` -- to_resolve is never shrunk, the loop ends with the first
   pass that resolves nothing *)
Fixpoint resolve_loop (fuel : nat) (nc : bool) (ids : list str) (m : smap) (cant : list str) : res smap :=
  match fuel with
  | O => Err Hang
  | S f =>
      bind (pass nc ids m cant false) (fun r =>
      match r with
      | (m', cant', any) => if any then resolve_loop f nc ids m' cant' else Ok m'
      end)
  end.

Definition unresolved_ids (m : smap) : list str :=
  map fst (filter (fun p => match e_fmt (snd p) with None => true | Some _ => false end) m).

Definition resolve_pending (nc : bool) (m : smap) : res smap :=
  match sort_strs (unresolved_ids m) with
  | [] => Ok m
  | ids => resolve_loop (S (S (length ids))) nc ids m []
  end.

(* add_new_items(new_items, src) *)
Definition add_new_items (c : conf) (items : list (str * str)) : res conf :=
  match items with
  | [] => Ok c
  | _ =>
      let cache := if existsb (fun it => negb (has_key (fst it) (c_map c))) items then None
                   else c_cache c in
      bind (insert_items (c_nocolor c) (c_map c) items) (fun m1 =>
      bind (resolve_pending (c_nocolor c) m1) (fun m2 =>
      Ok (mk_conf (c_nocolor c) m2 cache)))
  end.

(* _flatten_dict: the items are processed left to right with `result[key] = value`
   (a repeated key keeps its first position and gets the last value) *)
Definition dedupe (l : list (str * str)) : list (str * str) :=
  fold_left (fun acc kv => dict_set (fst kv) (snd kv) acc) l [].

Fixpoint flatten_v (v : cval) : list (str * str) :=
  match v with
  | VDict items =>
      dedupe ((fix raw (items : list (str * cval)) : list (str * str) :=
                 match items with
                 | [] => []
                 | (k, v') :: r =>
                     (match v' with
                      | VStr s => [(k, s)]
                      | VDict _ => map (fun kv => (k ++ [46] ++ fst kv, snd kv)) (flatten_v v')
                      | VOther => []
                      end) ++ raw r
                 end) items)
  | _ => []
  end.
Definition flatten (items : list (str * cval)) : list (str * str) := flatten_v (VDict items).

(* ColorsConfig(init_config, no_color=...) with BUILT_IN_CONFIG = builtin *)
Definition new_conf (nc : bool) (init builtin : list (str * cval)) : res conf :=
  bind (add_new_items (mk_conf nc [] None) (flatten init)) (fun c1 =>
  add_new_items c1 (flatten builtin)).

(* get_color *)
Definition get_color (c : conf) (id : str) : fmt :=
  let sc := match lookup id (c_map c) with
            | Some e => Some e
            | None => lookup dflt_id (c_map c)
            end in
  match sc with
  | Some e => match e_fmt e with Some f => f | None => [] end
  | None => []
  end.

(* get_palette(): GlobalPalette(colors_conf=self); its accessor attributes are fixed at
   construction, the object is kept in the cache until add_new_items resets it *)
Definition get_palette (c : conf) : conf * list fmt :=
  match c_cache c with
  | Some snap => (c, snap)
  | None =>
      let snap := map (get_color c) accessors in
      (mk_conf (c_nocolor c) (c_map c) (Some snap), snap)
  end.
