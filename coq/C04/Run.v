(* C04/Run.v -- correspondence entry point: tokenize a text under a tokenizer
   configuration, report every token (skipped ones included) with its span and
   get_orig_text, or the LexicalError; then parse the non-skipped tokens with a
   grammar and report every tree node with its span and get_orig_text. *)
From Coq Require Import ZArith List Bool.
From AK Require Export Common.Sx Common.Err LLP.Build gen.C04_Consts C04.Model.
Import ListNotations.
Open Scope Z_scope.

Inductive case :=
| Case (cfg : lexcfg) (skip : option (list sym))
       (ug : list (sym * list (list sym))) (smart : bool) (start : sym) (fuel : nat)
       (inp : input).

Definition sx_text (r : res (list Z)) : sx := sx_res sx_str r.

Definition sx_tok (olines : list line) (t : token) : sx :=
  SL [sx_str (tname t); sx_str (tvalue t); sx_span (tstart t, tend t);
      sx_text (get_orig_text olines (tstart t, tend t))].

Fixpoint sx_tree_txt (olines : list line) (t : tree) : sx :=
  match t with
  | Leaf n v sp => SL [SZ 0; sx_str n; sx_str v; sx_span sp; sx_text (get_orig_text olines sp)]
  | Node n ch sp => SL [SZ 1; sx_str n; SL (map (sx_tree_txt olines) ch); sx_span sp;
                        sx_text (get_orig_text olines sp)]
  end.

(* LLParser.__init__: skip_tokens=None means SPACE and COMMENT when they are terminals *)
Definition effective_skip (terminals : list sym) (skip : option (list sym)) : list sym :=
  match skip with
  | Some l => l
  | None => filter (fun s => mem s terminals) default_skip
  end.

Definition run (c : case) : sx :=
  match c with
  | Case cfg skip ug smart start fuel inp =>
      let terminals := cfg_terminals cfg in
      match build ug terminals smart start with
      | Err e => SL [SZ 3; SZ (err_code e)]
      | Ok p =>
          let olines := orig_lines inp in
          match cfg_tokenize cfg (tok_lines inp) with
          | LHang => SL [SZ 2]
          | LErr pos text unclosed => SL [SZ 1; sx_pos pos; sx_str text]
          | LOk toks =>
              SL [SZ 0; SL (map (sx_tok olines) toks);
                  sx_res (sx_tree_txt olines)
                         (p_parse p fuel (drop_skipped (effective_skip terminals skip) toks))]
          end
      end
  end.
