(* C15/Spec.v -- specification-level notions used by the theorems (definitions
   only).  Nothing here refers to the constants read from the source: operator
   names are written out, so that a change of the source tables breaks a proof
   instead of silently changing the specification. *)
From Coq Require Import ZArith List Bool.
From AK Require Import Common.Err gen.C15_Consts C15.Model.
Import ListNotations.
Open Scope Z_scope.

(* ------------------------------------------------------------------ *)
(* documented meaning of a filter                                       *)

Inductive icond :=
| ICmp (f : str) (c : cop) (v : scalar)               (* f c v *)
| INull (f : str) (pos : bool)                        (* f IS NULL / f IS NOT NULL *)
| IIn (f : str) (pos : bool) (vs : list scalar)       (* f IN vs / f NOT IN vs *)
| ILike (f : str) (pos : bool) (pat : scalar)         (* f LIKE pat / f NOT LIKE pat *)
| IStatic (text : str)
| IOr (l : list icond).

Inductive opk := OCmp (c : cop) | OIn (pos : bool) | ONull (pos : bool) | OLike (pos : bool).

(* SUPPORTED_OPS: '=', '!=', 'IN', 'NOT IN', 'IS NULL', 'IS NOT NULL', 'LIKE', 'NOT LIKE', '>', '<', '>=', '<=' *)
Definition op_table : list (str * opk) :=
  [([61], OCmp CEq); ([33;61], OCmp CNe);
   ([73;78], OIn true); ([78;79;84;32;73;78], OIn false);
   ([73;83;32;78;85;76;76], ONull true); ([73;83;32;78;79;84;32;78;85;76;76], ONull false);
   ([76;73;75;69], OLike true); ([78;79;84;32;76;73;75;69], OLike false);
   ([62], OCmp CGt); ([60], OCmp CLt); ([62;61], OCmp CGe); ([60;61], OCmp CLe)].

Definition parse_op (up : str) : option opk := assoc_str up op_table.

(* (field, op, value) with [up] = op.upper().  None = not a documented form:
   a set with '='/'!=', a container with an ordering operator, a scalar with IN,
   a value with IS NULL, a non-str with LIKE, an unknown operator. *)
Definition meaning_leaf (f up : str) (v : pyval) : option icond :=
  match parse_op up with
  | None => None
  | Some (OCmp c) =>
      match v with
      | VS SNone =>
          match c with
          | CEq => Some (INull f true)
          | CNe => Some (INull f false)
          | _ => Some (ICmp f c SNone)
          end
      | VS a => Some (ICmp f c a)
      | VSeq KSet _ => None
      | VSeq _ l =>
          match c with
          | CEq => Some (IIn f true l)
          | CNe => Some (IIn f false l)
          | _ => None
          end
      end
  | Some (OIn pos) => match v with VSeq _ l => Some (IIn f pos l) | VS _ => None end
  | Some (ONull pos) => match v with VS SNone => Some (INull f pos) | _ => None end
  | Some (OLike pos) =>
      match v with VS (SStr p) => Some (ILike f pos (SStr p)) | _ => None end
  end.

Fixpoint all_some {A} (l : list (option A)) : option (list A) :=
  match l with
  | [] => Some []
  | Some a :: r => match all_some r with Some s => Some (a :: s) | None => None end
  | None :: _ => None
  end.

Definition kw_meanings (kw : list (str * pyval)) : list (option icond) :=
  map (fun e => meaning_leaf (fst e) [61] (snd e)) (sort_kw kw).

Fixpoint meaning (a : arg) : option icond :=
  match a with
  | AText s => Some (IStatic ([32] ++ s ++ [32]))
  | ATup3 (Some f) (Some (_, up)) v => meaning_leaf f up v
  | ATup2 (Some f) v => meaning_leaf f [61] v
  | AOr l kw =>
      let fix go (l : list arg) : list (option icond) :=
        match l with
        | [] => []
        | x :: r => meaning x :: go r
        end in
      match all_some (go l ++ kw_meanings kw) with
      | Some is => Some (IOr is)
      | None => None
      end
  | _ => None
  end.

(* the filters of a call: positional ones except None, then the keywords *)
Definition meaning_all (args : list arg) (kw : list (str * pyval)) : option (list icond) :=
  all_some (map meaning (filter (fun x => negb (is_none x)) args) ++ kw_meanings kw).

(* ------------------------------------------------------------------ *)
(* truth of a documented filter on one row, three-valued; None = a column or a
   static text the row does not know (the engine raises) *)
Section Sem.
  Variable cmpf : cop -> scalar -> scalar -> tv.
  Variable likef : scalar -> scalar -> tv.
  Variable staticf : str -> option tv.
  Variable col : str -> option scalar.

  Definition signed (pos : bool) (t : tv) : tv := if pos then t else not3 t.

  Fixpoint isem (i : icond) : option tv :=
    match i with
    | ICmp f c v => option_map (fun x => cmpf c x v) (col f)
    | INull f pos => option_map (fun x => tv_of_bool (Bool.eqb (is_null x) pos)) (col f)
    | IIn f pos [] => Some (tv_of_bool (negb pos))
    | IIn f pos vs => option_map (fun x => signed pos (in3 cmpf x vs)) (col f)
    | ILike f pos p => option_map (fun x => signed pos (likef x p)) (col f)
    | IStatic t => staticf t
    | IOr l =>
        (fix go (l : list icond) : option tv :=
           match l with
           | [] => Some F
           | x :: r => match isem x, go r with
                       | Some a, Some b => Some (or3 a b)
                       | _, _ => None
                       end
           end) l
    end.

  Fixpoint isem_or (l : list icond) : option tv :=
    match l with
    | [] => Some F
    | x :: r => match isem x, isem_or r with
                | Some a, Some b => Some (or3 a b)
                | _, _ => None
                end
    end.

  Fixpoint isem_and (l : list icond) : option tv :=
    match l with
    | [] => Some T
    | x :: r => match isem x, isem_and r with
                | Some a, Some b => Some (and3 a b)
                | _, _ => None
                end
    end.
End Sem.

(* ------------------------------------------------------------------ *)
(* tokens / bound values a documented filter must produce                *)

Fixpoint qtoks (vs : list scalar) : list tok :=
  match vs with
  | [] => []
  | [_] => [TQ]
  | _ :: r => TQ :: TComma :: qtoks r
  end.

Fixpoint join_toks (sep : list tok) (l : list (list tok)) : list tok :=
  match l with
  | [] => []
  | [x] => x
  | x :: r => x ++ sep ++ join_toks sep r
  end.

Fixpoint spec_toks (i : icond) : list tok :=
  match i with
  | ICmp f c _ => [TId f; TOp c; TQ]
  | INull f true => [TId f; TIs; TNull]
  | INull f false => [TId f; TIs; TNot; TNull]
  | IIn f pos [] => [TNum (if pos then 0 else 1)]
  | IIn f true vs => TId f :: TIn :: TLP :: qtoks vs ++ [TRP]
  | IIn f false vs => TId f :: TNot :: TIn :: TLP :: qtoks vs ++ [TRP]
  | ILike f true _ => [TId f; TLike; TQ]
  | ILike f false _ => [TId f; TNot; TLike; TQ]
  | IStatic t => [TStatic t]
  | IOr [] => [TFalse]
  | IOr l => TLP :: join_toks [TOr] (map spec_toks l) ++ [TRP]
  end.

(* (field, operand) of every bound value, left to right *)
Fixpoint operands (i : icond) : list (str * scalar) :=
  match i with
  | ICmp f _ v => [(f, v)]
  | INull _ _ => []
  | IIn f _ vs => map (pair f) vs
  | ILike f _ p => [(f, p)]
  | IStatic _ => []
  | IOr l => flat_map operands l
  end.

Definition spec_params (i : icond) : list pyval := map (fun fv => VS (snd fv)) (operands i).

(* the column each placeholder of a token list is compared with: the nearest
   column reference to its left *)
Fixpoint owners_from (cur : option str) (ts : list tok) : list (option str) :=
  match ts with
  | [] => []
  | TId f :: r => owners_from (Some f) r
  | TQ :: r => cur :: owners_from cur r
  | _ :: r => owners_from cur r
  end.
Definition owners (ts : list tok) : list (option str) := owners_from None ts.

(* ------------------------------------------------------------------ *)
(* shapes: what the statement text may depend on                         *)

Definition erase_scalar (a : scalar) : scalar :=
  match a with SNone => SNone | SInt _ => SInt 0 | SStr _ => SStr [] end.
Definition erase_val (v : pyval) : pyval :=
  match v with
  | VS a => VS (erase_scalar a)
  | VSeq k l => VSeq k (map (fun _ => SNone) l)
  end.
Definition erase_kw (kw : list (str * pyval)) : list (str * pyval) :=
  map (fun e => (fst e, erase_val (snd e))) kw.

(* same filter, every operand value replaced by a fixed one of the same shape
   (None / int / str / container kind and length) *)
Fixpoint erase_arg (a : arg) : arg :=
  match a with
  | ATup3 f op v => ATup3 f op (erase_val v)
  | ATup2 f v => ATup2 f (erase_val v)
  | AOr l kw => AOr (map erase_arg l) (erase_kw kw)
  | _ => a
  end.

Fixpoint erase_cond (c : cond) : cond :=
  match c with
  | CStatic t => CStatic t
  | CField f op v => CField f op (erase_val v)
  | COr l => COr (map erase_cond l)
  end.

Definition sql_of (r : res query) : res str :=
  match r with Ok q => Ok (q_sql q) | Err e => Err e end.

(* number of '?' characters *)
Definition count_q (s : str) : nat := count_occ Z.eq_dec s 63.

Fixpoint count_tq (ts : list tok) : nat :=
  match ts with
  | [] => O
  | TQ :: r => S (count_tq r)
  | _ :: r => count_tq r
  end.

Definition res_map {A B} (f : A -> B) (r : res A) : res B :=
  match r with Ok a => Ok (f a) | Err e => Err e end.

(* every literal the code can put into the text for placeholder style [pt] *)
Definition all_literals (pt : Z) : list str :=
  match assoc_Z pt clause_tables with Some tab => map snd tab | None => [] end
  ++ [in_open; in_sep; in_close; or_empty; or_open; or_sep; or_close; kw_and; kw_where;
      snd (fst empty_in); snd empty_in].

(* ------------------------------------------------------------------ *)
(* histories: a list object handed to a condition object may be changed by the
   caller afterwards.  [g] rewrites the contents of every list / tuple / set
   value (its kind stays); scalars are untouched. *)
Definition mapseq_val (g : list scalar -> list scalar) (v : pyval) : pyval :=
  match v with VS a => VS a | VSeq k l => VSeq k (g l) end.
Definition mapseq_kw (g : list scalar -> list scalar) (kw : list (str * pyval)) : list (str * pyval) :=
  map (fun e => (fst e, mapseq_val g (snd e))) kw.
Fixpoint mapseq_arg (g : list scalar -> list scalar) (a : arg) : arg :=
  match a with
  | ATup3 f op v => ATup3 f op (mapseq_val g v)
  | ATup2 f v => ATup2 f (mapseq_val g v)
  | AOr l kw => AOr (map (mapseq_arg g) l) (mapseq_kw g kw)
  | _ => a
  end.
Fixpoint mapseq_cond (g : list scalar -> list scalar) (c : cond) : cond :=
  match c with
  | CStatic t => CStatic t
  | CField f op v => CField f op (mapseq_val g v)
  | COr l => COr (map (mapseq_cond g) l)
  end.
