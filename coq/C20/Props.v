(* C20/Props.v -- the property theorems, nothing else.
   Short uuid strings are a bijective encoding of UUIDs.
   UUID = integer n with 0 <= n < 2^128; strings = lists of code points. *)
From Coq Require Import ZArith List.
From AK Require Import Common.Err gen.C20_Consts C20.Model C20.Lemmas.
Import ListNotations.
Open Scope Z_scope.

(* the constants read from ak/short_uuid.py meet what the codec needs *)
Theorem consts_ok :
  NoDup alphabet /\ 2 <= base /\ 2 ^ 128 <= base ^ Z.of_nat short_len.
Proof. exact (conj alphabet_nodup (conj base_ge_2 bound_fits)). Qed.
Print Assumptions consts_ok.

(* uuid_from_short_str(uuid_to_short_str(u)) == u for every 128-bit UUID *)
Theorem roundtrip : forall n, 0 <= n < 2 ^ 128 ->
  uuid_from_short_str (PStr (uuid_to_short_str n)) = Ok n.
Proof. exact roundtrip_l. Qed.
Print Assumptions roundtrip.

(* every encoding is exactly short_len (22) characters of the alphabet *)
Theorem shape : forall n, 0 <= n < 2 ^ 128 ->
  length (uuid_to_short_str n) = short_len /\
  Forall (fun c => In c alphabet) (uuid_to_short_str n).
Proof. exact shape_l. Qed.
Print Assumptions shape.

(* distinct UUIDs get distinct strings *)
Theorem injective : forall n m, 0 <= n < 2 ^ 128 -> 0 <= m < 2 ^ 128 ->
  uuid_to_short_str n = uuid_to_short_str m -> n = m.
Proof. exact injective_l. Qed.
Print Assumptions injective.

(* exactly the strings of the right length, over the alphabet, denoting a
   number below 2^128 are accepted, with that number as the result ... *)
Theorem accept_iff : forall s n,
  uuid_from_short_str (PStr s) = Ok n <->
  (length s = short_len /\ Forall (fun c => In c alphabet) s /\ value s < 2 ^ 128) /\ n = value s.
Proof. exact accept_iff_l. Qed.
Print Assumptions accept_iff.

(* ... each accepted string is the encoding of its value (bijection) ... *)
Theorem surjective_on_valid : forall s n,
  uuid_from_short_str (PStr s) = Ok n -> 0 <= n < 2 ^ 128 /\ uuid_to_short_str n = s.
Proof. exact surjective_l. Qed.
Print Assumptions surjective_on_valid.

(* ... and any other argument is rejected with ValueError, nothing else *)
Theorem reject_value_error : forall a,
  (forall s, a = PStr s ->
     ~ (length s = short_len /\ Forall (fun c => In c alphabet) s /\ value s < 2 ^ 128)) ->
  uuid_from_short_str a = Err ValueErr.
Proof. exact reject_l. Qed.
Print Assumptions reject_value_error.

(* uuid_from_str accepts the canonical form (whatever uuid.UUID accepts, [std])
   and the short form, and rejects the rest with ValueError *)
Theorem from_str_both : forall n,
  (forall s, uuid_from_str (Some n) s = Ok n) /\
  (0 <= n < 2 ^ 128 -> uuid_from_str None (uuid_to_short_str n) = Ok n) /\
  (forall s, ~ (length s = short_len /\ Forall (fun c => In c alphabet) s /\ value s < 2 ^ 128) ->
             uuid_from_str None s = Err ValueErr).
Proof. exact (fun n => conj (from_str_canonical n) (conj (from_str_short n) from_str_reject)). Qed.
Print Assumptions from_str_both.

(* ---- sequences of calls in one process (eval_seq: the calls one after another).
   The result of a call is the result of that call alone, whatever was called
   before or after it ... *)
Theorem calls_independent : forall pre c post,
  nth_error (eval_seq (pre ++ c :: post)) (length pre) = Some (eval_call c).
Proof. exact calls_independent_l. Qed.
Print Assumptions calls_independent.

(* ... so at every position of every history a decoding call (uuid_from_short_str,
   or uuid_from_str of a string uuid.UUID does not take) returns the value of ITS
   string when that is a valid short string and raises ValueError otherwise ... *)
Theorem seq_decode_exact : forall l i c s,
  nth_error l i = Some c -> (c = CFromShort (PStr s) \/ c = CFromStr None s) ->
  ((length s = short_len /\ Forall (fun c => In c alphabet) s /\ value s < 2 ^ 128) ->
     nth_error (eval_seq l) i = Some (ORes (Ok (value s)))) /\
  (~ (length s = short_len /\ Forall (fun c => In c alphabet) s /\ value s < 2 ^ 128) ->
     nth_error (eval_seq l) i = Some (ORes (Err ValueErr))).
Proof. exact (fun l i c s H D => conj (seq_decode_valid l i c s H D) (seq_decode_invalid l i c s H D)). Qed.
Print Assumptions seq_decode_exact.

(* ... two decoding calls of one history that return the same uuid were given the
   same string (strings differing only in letter case never share a result) ... *)
Theorem seq_decode_injective : forall l i j ci cj si sj n,
  nth_error l i = Some ci -> nth_error l j = Some cj ->
  (ci = CFromShort (PStr si) \/ ci = CFromStr None si) ->
  (cj = CFromShort (PStr sj) \/ cj = CFromStr None sj) ->
  nth_error (eval_seq l) i = Some (ORes (Ok n)) -> nth_error (eval_seq l) j = Some (ORes (Ok n)) ->
  si = sj.
Proof. exact seq_decode_injective. Qed.
Print Assumptions seq_decode_injective.

(* ... and an encoding call returns the encoding, which every decoding call of the
   same history (earlier or later) takes back to the uuid *)
Theorem seq_encode_decode : forall l i u, nth_error l i = Some (CToShort u) -> 0 <= u < 2 ^ 128 ->
  nth_error (eval_seq l) i = Some (OStr (uuid_to_short_str u)) /\
  forall j c, nth_error l j = Some c ->
    (c = CFromShort (PStr (uuid_to_short_str u)) \/ c = CFromStr None (uuid_to_short_str u)) ->
    nth_error (eval_seq l) j = Some (ORes (Ok u)).
Proof. exact seq_encode. Qed.
Print Assumptions seq_encode_decode.

(* non-vacuity: concrete values meet the hypotheses and exercise both branches *)
Example roundtrip_max : uuid_from_short_str (PStr (uuid_to_short_str (2 ^ 128 - 1))) = Ok (2 ^ 128 - 1).
Proof. vm_compute. reflexivity. Qed.
Print Assumptions roundtrip_max.

Example reject_foreign_char :
  uuid_from_short_str (PStr (repeat 48 22)) = Err ValueErr /\          (* '0' * 22 *)
  uuid_from_short_str (PStr (repeat 122 22)) = Err ValueErr /\         (* 'z' * 22 >= 2^128 *)
  uuid_from_short_str (PStr (repeat 50 21)) = Err ValueErr.            (* too short *)
Proof. vm_compute. repeat split. Qed.
Print Assumptions reject_foreign_char.

(* a history of the kind the sequence theorems speak about: 'H' + 'a'*21 and
   'h' + 'a'*21 differ only in letter case, both are valid and denote different
   uuids; 'l' + 'a'*21 is invalid ('l' is not a letter of the alphabet) *)
Example seq_case_variants :
  let big := 72 :: repeat 97 21 in let small := 104 :: repeat 97 21 in let bad := 108 :: repeat 97 21 in
  match eval_seq [CFromStr None big; CFromStr None small; CFromShort (PStr bad); CFromStr None big] with
  | [ORes (Ok a); ORes (Ok b); ORes (Err ValueErr); ORes (Ok a')] => a <> b /\ a = a'
  | _ => False
  end.
Proof. vm_compute. split; [discriminate|reflexivity]. Qed.
Print Assumptions seq_case_variants.
