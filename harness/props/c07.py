"""C07  Component builds are reported at the first parent build that ships them  (ak/ghist.py)"""
import ast
import hashlib
import io
import json
import os
import random

from harness.lib import sx as SX

ID = "C07"
COQ_DIR = "C07"
RUN_MOD = "C07.Run"
MODEL_TARGETS = ["C07/Run.vo"]
PROOF_TARGETS = ["C07/Lemmas.vo", "C07/LemmasOrder.vo"]
PROPS = ["C07/Props.v"]
ALLOWED_AXIOMS = []
IMPL_TIMEOUT = 20.0
COQ_SHARD = 20
SEARCH_TEXT = "BUG-7"

RULE = ("(order) dependency graphs of 1-7 repositories over ids 0-9, random edges incl. self loops, cycles and "
        "dependencies on repositories that were not supplied, supply order and declaration order shuffled; "
        "(bump) a generated component repository (3-11 commits, linear or with parallel sub-branches and merges, "
        "1-2 release branches, increasing build numbers, matching commits at random) and a generated parent "
        "repository (2-11 commits, 1-3 branches, forks/merges, build tags at random commits, unbuilt heads, pins "
        "that never decrease along a path and name existing component builds; a minority with decreasing / unknown / "
        "missing pins or with matching commits of its own, which are outside the oracle's domain or the model's) run "
        "through ReposCollection.make_reports_data on harness-side mock git objects; a share with commit times spread "
        "over several days inside the cut-off windows (spread_days).  Version numbers take boundary "
        "values: release series drawn from 1.1 (most), 0.9, 0.0, 0.1, 1.0, 10.240, 9.9 -> 9.10 / 10.0, 0.99 -> 0.100, the "
        "parent's own series; build numbers = commit id + offset in {0, -1 (first build is 0), 95 (99 -> 100), 4150}; a "
        "second component series that restarts its numbers (1.1.3 and 1.2.3 both exist); two build numbers on one "
        "commit (either tag order), the same number in two series on one commit; in ~40 % of the cases some tags are "
        "exotic: leading zeros, a project specific tag format handled by an overridden parse_buildtag, a tag text that "
        "names no release series (incl. near misses release_1, release_1_1_x, pre_release_1_2) whose major.minor come "
        "from a version file saved in the commit, or '?'.'?'.n when that file is missing / unreadable; saved version "
        "files that nothing should read.  (collection) 3-4 generated repositories in one ReposCollection: one parent "
        "pinning 2-3 components (most), two parents pinning the same component(s), three levels (a component that pins "
        "a sub-component itself; also with the top pinning the sub-component directly); RBuild / RCommit iids start at "
        "0 in every repository, so the iids of different components overlap; the pins of the components of one parent "
        "move independently (one stays while another moves), exactly one per commit, or in lock-step; all pins in one "
        "DEPENDS file (entries in either order) or a file per component; sometimes a declared component that is not "
        "supplied; repository names (hence the analysis order) and the supply order shuffled; the report is made twice "
        "on the same collection.  REF FILES: 20% of the two-repository histories and 30% of the collections are read through "
        "the library's own GitRepo (GitRepo.iter_refs / _iter_packed_refs / _iter_refs_files behind make_branch_refs_map and "
        "make_buildtags_map) from '.git' directories the harness writes for EVERY repository of the collection (parents and "
        "components): layouts of property C06's generator (harness/props/c06.py gen_layout: refs packed / loose / both with a "
        "stale packed value, annotated build tags with '^' peeled lines after and between the branch entries, lightweight "
        "tags, foreign refs, header variants, CRLF) or plainly the state after `git gc` (all packed, sorted, annotated tags); "
        "the model and the oracle keep working with the intended heads and tags (confirmed per layout by the reference reader "
        "c06.ref_semantics), and the oracle also compares the heads / tag commits the library reads with them.  "
        "Non-trivial = a cycle or >= 2 repositories with a dependency (order); at "
        "least one included_at registration (bump).")
TRUSTED_BASE = [
    "harness-side mock git objects (commit / tree / blob / refs) stand in for GitPython; the harness renders the tags "
    "(build_<n>_release_<M>_<m>_success, with leading zeros, build_<n>_<word>_success, ok-<M>.<m>-<n>) and tells the model "
    "which route of finalize_build_tag_info each takes (tag_name / tag_version / c_rawtag in c07.py; the two regular "
    "expressions are re-read from the source, fail closed); pins come from a JSON DEPENDS file, saved versions from a "
    "VERSION file read by harness-side _read_saved_build_num_from_file / parse_buildtag overrides (the documented "
    "extension points)",
    "ref-file cases: the library's GitRepo subclassed without git.Repo.__init__ (GitPython is not installed): git_dir / remotes "
    "/ commit() come from the harness mock, get_ref_commit (GitPython's part of reading a loose ref) is a stand-in; the ref "
    "files are real files read by the library; layout generator, writer and reference reader are those of property C06's "
    "check (harness/props/c06.py, imported read-only), the Coq model of the reader and its theorems are coq/C06/Refs.v / "
    "PropsRefs.v - this property's model receives the heads and tags the files denote, it does not read the texts itself",
    "the finished RGraph of every component (RBuild iids renumbered order-preservingly per repository, parent_rbuilds, "
    "bn_map, RBranch membership) is read from the implementation's own run and handed to the model as input: the "
    "construction of a single repository's RGraph is property C06's subject (for a component that pins sub-components "
    "itself its RGraph is this model's OUTPUT one level down, which is compared; it still enters the next level as read "
    "from the implementation); RBuild objects in a bump are identified by object identity, an object of another "
    "repository shows up as a number >= 10^6; the oracle does not use it (it works from the raw histories); "
    "the component's tag -> build number step IS compared with the model (get_builds_numbers of every commit)",
    "gen/C07_Consts.v: the clauses of ComponentBump.get_rbuilds_in_bump (the statements that build excluded_iids, the pruning "
    "test `cur_rbuild.iid in excluded_iids`, the DFS statements) / is_trivial / the is_rbuild disjunction / the "
    "cycle test / the route tests of finalize_build_tag_info / guess_major_minor_build_by_tag_substr's returns / the "
    "'?' fallback of get_saved_build_number are recognised in ak/ghist.py by harness/props/c07.py:gen_consts (ast, fail-closed)",
]
ASSUMPTIONS = [
    "commit times lie within the 30-day / 1-day cut-off windows: every commit of a repository is younger than (oldest "
    "report-related build of each component it pins - _CHECK_COMPONENTS_CUTOFF_PERIOD) and no branch head is 30 days older "
    "than a report-related build.  Most mock commits are seconds apart; ~250 quick collections spread the commit times over "
    "0-11 days ('d' of a commit, components with builds in two branches, the older ones not in the branch analysed last); "
    "whether such a case is inside the window is decided from the finished report (oldest build its bn_map still names: an "
    "upper bound of the oldest report-related build) and a case outside is run with the flat times instead (obs 'flat'); "
    "the model itself has no times: inside the windows they must not matter, which the correspondence and the oracle check",
    "the bump model describes one repository and the components it pins (any number); a collection is modelled as one "
    "such run per repository that pins components (dependency graphs of any shape in the order model); a component is "
    "its position in the parent's component list - the order of the components in the version file / the dicts is not "
    "modelled (nothing observable depends on it; the generators vary it)",
    "build numbers have patch == build (tag and pin formats used by the generators); builds are detected by tags "
    "(RepoBuildsByTagDetector, the default), not by RepoBuildsBySavedBuildNumDetector",
    "a version component is a non-negative integer or the string '?' (encoded -1 / [qm]); no real build is numbered "
    "8888.8888.8888 or 9999.9999.9999 (the code's fake builds)",
]
MODELLED = ("ak/ghist.py ReposCollection.__init__ ordering DFS and make_reports_data order; ComponentBump; RGraph.__init__, "
            "_read_branch, _mk_rcommits, _find_new_rcommits_in_build, _mk_bumps_info (the loop over the components, each "
            "iteration with its own from_builnums / from_rbuilds), pending bumps of the 'not merged' pseudo build and "
            "included_at registration (per component) for a repository that pins several components; RepoBuildsByTagDetector."
            "finalize_build_tag_info / get_builds_numbers (three routes from a tag to major.minor, incl. the '?' fallback) "
            "and BuildNumData.cmp (integers below '?'); NOT modelled: BranchName sorting, the regular expressions of the "
            "tag formats, the obsolete-branch / component cut-off times, report formatting, the component's own RGraph")


class ExtractError(Exception):
    pass


# ------------------------------------------------------------------ constants from the source
def _find_class(tree, name):
    for n in tree.body:
        if isinstance(n, ast.ClassDef) and n.name == name:
            return n
    raise ExtractError(f"class {name} not found")


def _find_func(cls, name):
    for n in cls.body:
        if isinstance(n, ast.FunctionDef) and n.name == name:
            return n
    raise ExtractError(f"method {name} not found")


def _src(node):
    return ast.unparse(node)


def gen_consts(repo):
    """Recognise, in the current source, the few clauses the theorems lean on and emit them as
    booleans/constructors; anything unrecognised raises (fail closed)."""
    src = open(os.path.join(repo, "ak", "ghist.py")).read()
    tree = ast.parse(src)
    cb = _find_class(tree, "ComponentBump")
    # --- get_rbuilds_in_bump: (1) excluded_iids = the from-builds and all their ancestors (work list + visited set),
    #     (2) the DFS from to_rbuild whose only pruning test is `cur_rbuild.iid in excluded_iids`
    f = _find_func(cb, "get_rbuilds_in_bump")
    flat = lambda n: _src(n).replace(" ", "").replace("\n", ";")
    ifs = [n for n in ast.walk(f) if isinstance(n, ast.If)]
    old_prune = [n for n in ifs if "from_rbuilds" in _src(n.test)]
    prune = [n for n in ifs if "cur_rbuild" in _src(n.test)]
    if old_prune and [flat(n.test) for n in old_prune] == ["cur_rbuild.iidinself.from_rbuilds"] and len(prune) == 1 \
            and not any("excluded" in flat(n) for n in f.body):
        # the code before d037b67: prunes AT the from-builds only (the model no longer describes it: the proof
        # obligation src_prune_ok fails and the correspondence disagrees on parallel component paths)
        prune_kind = "PruneAtFrom"
    else:
        if old_prune:
            raise ExtractError("get_rbuilds_in_bump: a test mentions from_rbuilds; the model tests excluded_iids only")
        if [flat(n.test) for n in prune] != ["cur_rbuild.iidinexcluded_iids"]:
            raise ExtractError(f"get_rbuilds_in_bump: unrecognised pruning test(s) {[flat(n.test) for n in prune]}")
        if not (len(prune[0].body) == 2 and flat(prune[0].body[0]) == "dfs_sp[-1]=cur_sp-1"
                and isinstance(prune[0].body[1], ast.Continue) and not prune[0].orelse):
            raise ExtractError("get_rbuilds_in_bump: an excluded build must be skipped (not entered, not reported)")
        # the statements that build excluded_iids, in order, before the DFS; nothing else touches it or `todo`
        top = [flat(n) for n in f.body if "excluded_iids" in _src(n) or "todo" in _src(n)]
        want = ["excluded_iids=set()",
                "todo=list(self.from_rbuilds.values())",
                "whiletodo:;rbuild=todo.pop();ifrbuild.iidnotinexcluded_iids:;excluded_iids.add(rbuild.iid);"
                "todo.extend(rbuild.parent_rbuilds.values())"]
        if top[:3] != want or len(top) != 4 or not top[3].startswith("whiledfs_stack:"):
            raise ExtractError(f"get_rbuilds_in_bump: unrecognised construction of excluded_iids: {top[:3]}")
        uses = [n for n in ast.walk(f) if isinstance(n, ast.Name) and n.id == "excluded_iids"]
        if len(uses) != 4:
            raise ExtractError("get_rbuilds_in_bump: excluded_iids is used outside the recognised places")
        if sum(1 for n in ast.walk(f) if isinstance(n, ast.Name) and n.id == "todo") != 4:
            raise ExtractError("get_rbuilds_in_bump: the work list `todo` is used outside the recognised places")
        prune_kind = "PruneAtFromAncestors"
    names = {n.id for n in ast.walk(f) if isinstance(n, ast.Name)} | {n.attr for n in ast.walk(f) if isinstance(n, ast.Attribute)}
    has_visited = any("visited" in x or "seen" in x or "ancestors" in x for x in names)
    if has_visited:
        raise ExtractError("get_rbuilds_in_bump: a visited/ancestor set appeared in the DFS; the model's DFS has none")
    if "parent_rbuilds" not in names:
        raise ExtractError("get_rbuilds_in_bump: does not walk parent_rbuilds")
    # the DFS enters the parents of a build that is not excluded, sorted by iid, and reports it after them
    dfs = [flat(n) for n in ast.walk(f) if isinstance(n, ast.Assign) and flat(n).startswith(("parents=", "result_rbuilds[", "dfs_stack="))]
    if sorted(dfs) != ["dfs_stack=[[self.to_rbuild]]", "parents=sorted(cur_rbuild.parent_rbuilds.values(),key=lambdarb:rb.iid)",
                       "result_rbuilds[cur_rbuild.iid]=cur_rbuild"]:
        raise ExtractError(f"get_rbuilds_in_bump: unrecognised DFS statements {dfs}")
    # --- is_trivial: `return self.to_rbuild.iid in self.from_rbuilds`
    f = _find_func(cb, "is_trivial")
    rets = [_src(n.value).replace(" ", "") for n in ast.walk(f) if isinstance(n, ast.Return) and n.value is not None]
    if sorted(rets) != ["False", "True", "self.to_rbuild.iidinself.from_rbuilds"]:
        raise ExtractError(f"is_trivial: unrecognised returns {rets}")
    # --- _mk_rcommits: is_rbuild = contains_new_commits or non_trivial_bumps_present or len(parent_rbuilds) > 1
    rg = _find_class(tree, "RGraph")
    f = _find_func(rg, "_mk_rcommits")
    disj = None
    for n in ast.walk(f):
        if isinstance(n, ast.Assign) and len(n.targets) == 1 and isinstance(n.targets[0], ast.Name) \
                and n.targets[0].id == "is_rbuild" and isinstance(n.value, ast.BoolOp):
            disj = n.value
    if disj is None or not isinstance(disj.op, ast.Or):
        raise ExtractError("_mk_rcommits: is_rbuild is not a disjunction")
    clauses = [_src(v).replace(" ", "") for v in disj.values]
    known = {"contains_new_commits": "ClNew", "non_trivial_bumps_present": "ClBump", "len(parent_rbuilds)>1": "ClMerge"}
    if any(c not in known for c in clauses):
        raise ExtractError(f"_mk_rcommits: unrecognised is_rbuild clause in {clauses}")
    ntb = [n for n in ast.walk(f) if isinstance(n, ast.Assign) and isinstance(n.targets[0], ast.Name)
           and n.targets[0].id == "non_trivial_bumps_present"]
    if len(ntb) != 1 or _src(ntb[0].value).replace(" ", "").replace("\n", "") != \
            "any((notbump.is_trivial()forbumpincomponents_bumps.values()))":
        raise ExtractError("_mk_rcommits: non_trivial_bumps_present is not any(not bump.is_trivial() ...)")
    # --- _mk_bumps_info: one loop iteration per component; the state of an iteration (from_builnums, from_rbuilds) is
    #     created inside the loop body, reads the parent builds' bumps of that component only, and ends in the
    #     component's ComponentBump.  (RBuild iids are unique within one repository only: a from_rbuilds dict that
    #     survives an iteration mixes the iids of different components.)
    f = _find_func(rg, "_mk_bumps_info")
    loops = [n for n in f.body if isinstance(n, ast.For) and flat(n.iter) == "cur_components_buildnums.items()"
             and flat(n.target) == "(repo_id,cur_component_bn)"]
    if len(loops) != 1:
        raise ExtractError("_mk_bumps_info: the loop over cur_components_buildnums.items() was not found")
    loop = loops[0]
    state = ("from_builnums", "from_rbuilds")
    inner = [i for i, n in enumerate(loop.body) if isinstance(n, ast.For) and flat(n.iter) == "parent_rbuilds.values()"]
    if len(inner) != 1:
        raise ExtractError("_mk_bumps_info: the loop over the parent builds was not found inside the loop over the components")
    stores = {v: [n for n in ast.walk(f) if isinstance(n, ast.Name) and n.id == v and isinstance(n.ctx, ast.Store)] for v in state}
    inits = {flat(n): i for i, n in enumerate(loop.body) if isinstance(n, ast.Assign)}
    gets = [flat(n.value) for n in ast.walk(loop.body[inner[0]]) if isinstance(n, ast.Assign) and "bumps" in flat(n.value)]
    made = [flat(n) for n in loop.body if isinstance(n, ast.Assign) and flat(n).startswith("components_bumps[")]
    if gets != ["parent_rbuild.bumps.get(repo_id)"] or made != \
            ["components_bumps[repo_id]=ComponentBump(from_builnums,cur_component_bn,from_rbuilds,cur_component_rbuild)"]:
        raise ExtractError(f"_mk_bumps_info: unrecognised per-component statements {gets} {made}")
    if all(len(stores[v]) == 1 for v in state) and inits.get("from_builnums=[]", 99) < inner[0] \
            and inits.get("from_rbuilds={}", 99) < inner[0]:
        bump_state = "StatePerComponent"
    elif not any(isinstance(n, ast.Assign) and any(v in flat(t) for t in n.targets for v in state) for n in loop.body) \
            and all(stores[v] for v in state):
        # created once, outside the loop over the components: shared by (and accumulating over) all components of a
        # commit.  Not what the model describes: the obligation src_bump_state_ok fails, the correspondence and the
        # oracle look for the failing history.
        bump_state = "StateShared"
    else:
        raise ExtractError("_mk_bumps_info: from_builnums / from_rbuilds are neither created per component nor once per commit")
    # the registration loop and the pending bumps read a build's bump of the component they are dealing with
    f = _find_func(rg, "__init__")
    regs = [flat(n.value) for n in ast.walk(f) if isinstance(n, ast.Assign) and ".bumps" in flat(n.value)]
    if regs != ["my_rbuild.bumps.get(cmpnt_name)"]:
        raise ExtractError(f"RGraph.__init__: unrecognised access to the bumps of a build in the registration loop: {regs}")
    f = _find_func(rg, "_read_branch")
    pend = [flat(n) for n in ast.walk(f) if isinstance(n, ast.Assign) and "bumps" in flat(n)]
    if len(pend) != 4 or set(pend) != {"cmpnt_prev_bump=latest_rbuild.bumps[repo_id]", "pending_cmpnts_bumps[repo_id]=bump", "pending_cmpnts_bumps={}",
                        "rbuild=RBuild(None,parent_rbuilds,not_merged_rcommits,pending_cmpnts_bumps,build_type=RBuild.FAKE_NOT_MERGED)"}:
        raise ExtractError(f"_read_branch: unrecognised statements about the pending bumps: {pend}")
    # --- ReposCollection.__init__: cycle test and exception class
    rcol = _find_class(tree, "ReposCollection")
    f = _find_func(rcol, "__init__")
    raises = [n for n in ast.walk(f) if isinstance(n, ast.Raise)]
    if len(raises) != 1 or not (isinstance(raises[0].exc, ast.Call) and isinstance(raises[0].exc.func, ast.Name)):
        raise ExtractError("ReposCollection.__init__: expected exactly one raise of a named exception")
    exc = raises[0].exc.func.id
    emap = {"ValueError": "ValueErr", "KeyError": "KeyErr", "AssertionError": "AssertErr", "TypeError": "TypeErr"}
    if exc not in emap:
        raise ExtractError(f"unknown exception class {exc} for dependency cycles")
    cyc = [n for n in ast.walk(f) if isinstance(n, ast.Assign) and isinstance(n.targets[0], ast.Name)
           and n.targets[0].id == "cycled_repo_ids"]
    if len(cyc) != 1 or _src(cyc[0].value).replace(" ", "") != \
            "[repo_idforrepo_idinnot_processed_sub_componentsifrepo_idindfs_path_names]":
        raise ExtractError("ReposCollection.__init__: unrecognised cycle test")
    # --- RepoBuildsByTagDetector.finalize_build_tag_info: the tests that choose the route from a tag to major.minor
    det = _find_class(tree, "RepoBuildsByTagDetector")
    f = _find_func(det, "finalize_build_tag_info")
    tests = [_src(n.test).replace(" ", "") for n in f.body if isinstance(n, ast.If)]
    route = [t for t in tests if "patch" not in t]
    if route != ["all((visnotNoneforvin[parsed_bt.major,parsed_bt.minor]))", "majorisnotNone"]:
        raise ExtractError(f"finalize_build_tag_info: unrecognised route tests {route} (the model has: major and minor "
                           f"already known -> keep; guessed major `is not None` -> take the guess; else the saved version)")
    pr = _find_class(tree, "ProjectRepo")
    f = _find_func(pr, "guess_major_minor_build_by_tag_substr")
    rets = [_src(n.value).replace(" ", "") for n in ast.walk(f) if isinstance(n, ast.Return) and n.value is not None]
    if sorted(rets) != ["(None,None)", "(int(m.group('major')),int(m.group('minor')))"]:
        raise ExtractError(f"guess_major_minor_build_by_tag_substr: unrecognised returns {rets}")
    pats = {}
    for n in pr.body:
        if isinstance(n, ast.Assign) and isinstance(n.targets[0], ast.Name) and n.targets[0].id.startswith("_RE_B") \
                and isinstance(n.value, ast.Call) and n.value.args and isinstance(n.value.args[0], ast.Constant):
            pats[n.targets[0].id] = n.value.args[0].value
    if pats != {"_RE_BUILD_TAG": r"build_(?P<build>\d+)_(?P<branch>.*)_success$",
                "_RE_BRANCH_IN_TAG_SUBSTR": r"release_(?P<major>\d+)_(?P<minor>\d+)$"}:
        raise ExtractError(f"ProjectRepo: unrecognised build tag patterns {pats} (the harness renders tags for these two)")
    f = _find_func(pr, "get_saved_build_number")
    unk = [_src(n.value).replace(" ", "") for n in ast.walk(f) if isinstance(n, ast.Assign)
           and _src(n.targets[0]).replace(" ", "") == "(major,minor,patch)"]
    if unk != ["('?','?','?')"]:
        raise ExtractError(f"get_saved_build_number: unrecognised fallback version {unk}")
    text = ("(* generated from ak/ghist.py by harness/props/c07.py -- do not edit *)\n"
            "From AK Require Import Common.Err.\nFrom Coq Require Import List.\nImport ListNotations.\n"
            "Inductive prune_kind := PruneAtFrom | PruneAtFromAncestors.\n"
            "Inductive rb_clause := ClNew | ClBump | ClMerge.\n"
            f"Definition src_prune : prune_kind := {prune_kind}.\n"
            f"Definition src_is_rbuild : list rb_clause := [{'; '.join(known[c] for c in clauses)}].\n"
            f"Definition src_cycle_err : err := {emap[exc]}.\n"
            "Inductive tag_route := RouteKnown | RouteGuessIsNotNone | RouteSaved.\n"
            "Definition src_tag_routes : list tag_route := [RouteKnown; RouteGuessIsNotNone; RouteSaved].\n"
            "Inductive bump_state := StatePerComponent | StateShared.\n"
            f"Definition src_bump_state : bump_state := {bump_state}.\n")
    return {"C07_Consts": text}


# ------------------------------------------------------------------ mock git objects
BASE_T = 1_700_000_000
DAY = 86400


class _Author:
    name = "tester"


class _Blob:
    def __init__(self, text):
        self.data = text.encode()
        self.hexsha = hashlib.sha1(self.data).hexdigest()

    @property
    def data_stream(self):
        return io.BytesIO(self.data)


class _Tree:
    def __init__(self, files):
        self.files = {p: _Blob(t) for p, t in files.items()}

    def __truediv__(self, path):
        return self.files[path]          # KeyError like git


class _Commit:
    def __init__(self, repo_name, cid, message, files, day=0):
        self.cid = cid
        self.hexsha = hashlib.sha1(f"{repo_name}:{cid}".encode()).hexdigest()
        self.parents = []
        self.message = message
        self.tree = _Tree(files)
        self.committed_date = BASE_T + cid + int(DAY * day)     # "d" of the commit spec: days after BASE_T (may be fractional)
        self.author = _Author()


class _Ref:
    def __init__(self, name):
        self.name = name


class _Remote:
    def __init__(self, names):
        self.refs = [_Ref(n) for n in sorted(names)]


def vstr(v):
    return ".".join(str(x) for x in v)


# ---- build tags.  A tag of a case is one of
#   [M, m, n]            build_<n>_release_<M>_<m>_success          (major.minor guessed from the tag text)
#   [M, m, n, "z"]       the same with leading zeros in all three numbers (build_0<n>_release_00<M>_0<m>_success)
#   ["w", k, n]          build_<n>_<WORDS[k]>_success: the text names no release series, major.minor come from the
#                        version file saved in the commit (commit["ver"] = [M, m]); no / unreadable file -> '?'.'?'.n
#   ["f", M, m, n]       ok-<M>.<m>-<n>: a project specific tag format, parse_buildtag (overridden by the harness
#                        classes, the documented extension point) delivers major and minor itself
QM = -1                  # the string '?' as a version component (the model's [qm])
WORDS = ["master", "main", "nightly", "release_1", "release_1_1_x", "prerelease_1_2", "pre_release_1_2", "hotfix_1_1"]
SAVED_FILE = "VERSION"


def tag_name(t):
    if t[0] == "w":
        return f"build_{t[2]}_{WORDS[t[1]]}_success"
    if t[0] == "f":
        return f"ok-{t[1]}.{t[2]}-{t[3]}"
    if len(t) > 3:
        return f"build_0{t[2]}_release_00{t[0]}_0{t[1]}_success"
    return f"build_{t[2]}_release_{t[0]}_{t[1]}_success"


def tag_version(c, t):
    """the build number (major, minor, build) a tag on commit c stands for -- what the property's 'build' means"""
    if t[0] == "w":
        v = c.get("ver")
        return (v[0], v[1], t[2]) if isinstance(v, list) else (QM, QM, t[2])
    if t[0] == "f":
        return (t[1], t[2], t[3])
    return (t[0], t[1], t[2])


def versions(c):
    return [tag_version(c, t) for t in c.get("tags", [])]


def vkey(v):
    """BuildNumData order: integers numerically, '?' above every integer"""
    return tuple((1, 0) if x == QM else (0, x) for x in v)


def has_qm(v):
    return QM in v


def dep_file(spec, comp):
    """the file of a repository's commits that holds the pinned version of component `comp`"""
    return "DEPENDS" if spec.get("files", "one") == "one" else "DEPENDS_" + comp


def declared(spec):
    """keys of _COMPONENTS_VERSIONS_LOCATIONS in declaration order: the components of the collection the repository
    pins, and `ghosts` - declared components that are not supplied to the collection"""
    return list(spec.get("comps", [])) + list(spec.get("ghosts", []))


def as_multi(case):
    """a bump case is a collection of repositories {"k": "bump", "repos": [spec]} with
    spec = {"name", "comps": [names], "ghosts": [names], "files": "one" (one DEPENDS file for all pins) | "sep" (a file
    per component), "frev": 0/1 (order of the entries inside the shared file), "commits": [{.., "pins": {comp: [M,m,n]}}],
    "branches"}; the older two-repository form {"comp": spec, "par": spec with "pin"} is read as such a collection"""
    if "repos" in case:
        return case
    if "disk" in case:
        return dict(as_multi({k: v for k, v in case.items() if k != "disk"}), disk=case["disk"])
    par = dict(case["par"], name="par", comps=["comp"], files="one")
    par["commits"] = [dict({k: v for k, v in c.items() if k != "pin"},
                           pins={} if c.get("pin") is None else {"comp": c["pin"]}) for c in case["par"]["commits"]]
    comp = dict(case["comp"], name="comp", comps=[])
    return {"k": "bump", "repos": [par, comp]}


def pin_of(c, comp):
    p = (c.get("pins") or {}).get(comp)
    return None if p is None else list(p)


class MockRepo:
    """spec = {"commits": [{"id", "p": [ids], "m": 0/1, "tags": [tag], "ver": [M,m]|"bad"|absent, "pins": {comp: [M,m,n]}}],
               "branches": [[name, head]], "comps", "ghosts", "files", "frev"}"""

    def __init__(self, name, spec):
        self.git_dir = "/mock/" + name
        self.commits = {}
        order = declared(spec)
        if spec.get("frev"):
            order = order[::-1]
        for c in spec["commits"]:
            files = {}
            byfile = {}
            for comp in order:
                if pin_of(c, comp) is not None:
                    byfile.setdefault(dep_file(spec, comp), {})[comp] = vstr(pin_of(c, comp))
            for fname, d in byfile.items():
                files[fname] = json.dumps(d)
            if c.get("ver") is not None:
                files[SAVED_FILE] = "no version here\n" if c["ver"] == "bad" else f"{c['ver'][0]}.{c['ver'][1]}.77\n"
            msg = f"fix {SEARCH_TEXT} here" if c.get("m") else "unrelated"
            self.commits[c["id"]] = _Commit(name, c["id"], msg, files, c.get("d", 0))
        for c in spec["commits"]:
            self.commits[c["id"]].parents = [self.commits[p] for p in c["p"]]
        self.by_hex = {c.hexsha: c for c in self.commits.values()}
        self.refs = {}
        for bname, head in spec["branches"]:
            self.refs["refs/remotes/origin/" + bname] = self.commits[head].hexsha
        for c in spec["commits"]:
            for t in c.get("tags", []):
                self.refs["refs/tags/" + tag_name(t)] = self.commits[c["id"]].hexsha
        self.remotes = {"origin": _Remote(["origin/" + b for b, _ in spec["branches"]])}

    def commit(self, hexsha):
        return self.by_hex[hexsha]

    def iter_refs(self, *prefixes):
        for n, h in self.refs.items():
            if any(n.startswith(p) for p in prefixes):
                yield n, h


# ---- repositories whose refs are real files.  The mock above overrides iter_refs, so the library's own reader of
# '.git/packed-refs' and of the loose ref files (GitRepo._iter_packed_refs / _iter_refs_files / iter_refs, behind
# make_branch_refs_map and make_buildtags_map) would never run: which commit is the head of a parent branch and which
# commits carry the build tags -- the inputs of everything this property says -- would come from the harness.  A case
# with "disk" (a layout seed, or {repository name: layout} in the corpus) lets EVERY repository of the collection
# (parents and components) be the library's GitRepo over a '.git' directory written by the harness.  The layouts are
# those of property C06's check (harness/props/c06.py, imported read-only: gen_layout = refs packed / loose / both
# with stale packed values, annotated tags with '^' peeled lines after and between the branch entries, lightweight
# tags, foreign refs, CRLF ...; ref_semantics = the independent reference reader; the Coq model of the reader and
# its theorems are coq/C06/Refs.v, PropsRefs.v).  The heads and tags the model and the oracle of THIS property work
# with are the intended ones; [disk_layout] checks with ref_semantics that the files say exactly that.
def _c06():
    from harness.props import c06
    return c06


def repo_sha(name, cid):
    return hashlib.sha1(f"{name}:{cid}".encode()).hexdigest()


def intended_refs(spec):
    """(branches [(full ref name, hexsha)], tags [(tag name, hexsha)]) a repository spec stands for"""
    name = spec["name"]
    branches = [("refs/remotes/origin/" + b, repo_sha(name, head)) for b, head in spec["branches"]]
    tags = [(tag_name(t), repo_sha(name, c["id"])) for c in spec["commits"] for t in c.get("tags", [])]
    return branches, tags


def packed_layout(branches, tags, annotated=True):
    """the '.git' directory right after `git gc` / `git pack-refs --all`: everything in packed-refs, sorted,
    build tags annotated (tag object + '^' line with the tagged commit)"""
    lines = [_c06().PACK_HEADER]
    for n, sha in sorted(branches + [("refs/tags/" + t, sha) for t, sha in tags]):
        if n.startswith("refs/tags/") and annotated:
            lines += [hashlib.sha1(("tag:" + n + sha).encode()).hexdigest() + " " + n, "^" + sha]
        else:
            lines.append(sha + " " + n)
    return {"packed": "\n".join(lines) + "\n", "loose": [], "seed": None}


def disk_layout(case, spec):
    """the ref files of one repository of a disk case, or None when its refs cannot be laid out (repeated names)"""
    import random
    d = case.get("disk")
    if d is None:
        return None
    branches, tags = intended_refs(spec)
    if len({n for n, _ in branches}) != len(branches) or len({t for t, _ in tags}) != len(tags):
        return None
    if isinstance(d, dict):
        disk = d.get(spec["name"])
        if disk is None:
            return None
    elif d == "gc":
        disk = packed_layout(branches, tags)
    else:
        rng = random.Random(f"{d}:{spec['name']}")
        if rng.random() < 0.3:
            disk = packed_layout(branches, tags, annotated=rng.random() < 0.8)
        else:
            disk = _c06().gen_layout(rng, branches, tags, d)
    sem = _c06().ref_semantics(disk)
    want = dict(branches)
    want.update({"refs/tags/" + t: sha for t, sha in tags})
    if sem is None or any(sem.get(k) != v for k, v in want.items()):
        raise AssertionError("harness: generated layout does not say what the case says")
    return disk


def disk_repo_class(ghist):
    class _Resolved:
        def __init__(self, hexsha):
            self.hexsha = hexsha

    class DiskRepo(ghist.GitRepo):
        """the library's GitRepo over a real '.git' directory (no git.Repo.__init__: GitPython is not installed);
        commit objects and the list of remote branches come from the mock, get_ref_commit (GitPython's part of
        reading a loose ref) is a stand-in, the ref files are real and are read by the library"""
        def __init__(self, root, mock, name, disk):        # noqa
            self._git_dir = os.path.join(root, name, ".git")
            os.makedirs(self._git_dir, exist_ok=True)
            self._mock = mock
            _c06().write_disk(self._git_dir, disk)
            self._resolved = {n: resolved for n, _c, resolved in disk["loose"]}

        git_dir = property(lambda self: self._git_dir)
        working_dir = property(lambda self: self._git_dir)
        remotes = property(lambda self: self._mock.remotes)
        commits = property(lambda self: self._mock.commits)

        def commit(self, hexsha):
            return self._mock.by_hex[hexsha]

        def get_ref_commit(self, ref_name):
            return _Resolved(self._resolved[ref_name])

        def close(self):
            pass

        def __del__(self):
            pass

    return DiskRepo


def branch_key(name):
    """processing order of the branches (release/<a>.<b> numerically, master last)"""
    if name in ("master", "main"):
        return (1,)
    a, b = name.split("/")[1].split(".")
    return (0, int(a), int(b))


def sorted_branches(spec):
    return sorted(spec["branches"], key=lambda b: branch_key(b[0]))


# ------------------------------------------------------------------ generators
def rid(i):
    return f"r{i:02d}"


def gen_order(rng, n=None, acyclic=None):
    n = n or rng.choice([1, 2, 2, 3, 3, 4, 4, 5, 6, 7])
    ids = rng.sample(range(10), n)
    universe = list(range(10))
    acyclic = rng.random() < 0.55 if acyclic is None else acyclic
    deps = {}
    rank = {x: i for i, x in enumerate(rng.sample(ids, len(ids)))}
    dens = rng.choice([0.15, 0.3, 0.5, 0.8])
    for x in ids:
        ds = []
        for y in universe:
            if y in rank:
                if acyclic and rank[y] >= rank[x]:
                    continue
                if rng.random() < dens:
                    ds.append(y)
            elif rng.random() < 0.1:
                ds.append(y)                      # dependency on a repository that is not supplied
        rng.shuffle(ds)
        deps[str(x)] = ds
    return {"k": "order", "repos": ids, "deps": deps}


def _gen_dag(rng, n, linear, first_id=1):
    """-> list of (id, parents); ids increase, parents have smaller ids; returns also the open tips"""
    commits = []
    tips = []
    cid = first_id
    for i in range(n):
        if not tips:
            commits.append((cid, []))
            tips = [cid]
        else:
            r = rng.random()
            if linear or r < 0.6 or (r < 0.8 and len(tips) >= 3):
                t = rng.randrange(len(tips))
                commits.append((cid, [tips[t]]))
                tips[t] = cid
            elif r < 0.8:
                base = rng.choice([c for c, _ in commits])
                commits.append((cid, [base]))
                tips.append(cid)
            elif len(tips) >= 2:
                a, b = rng.sample(range(len(tips)), 2)
                ps = [tips[a], tips[b]]
                commits.append((cid, ps))
                tips = [t for k, t in enumerate(tips) if k not in (a, b)] + [cid]
            else:
                commits.append((cid, [tips[0]]))
                tips[0] = cid
        cid += rng.choice([2, 2, 3])          # leaves room for a second build number on the same commit
    return commits, tips, cid


def _close(rng, commits, tips, cid):
    """merge all open tips into a single head"""
    while len(tips) > 1:
        a = tips.pop()
        b = tips.pop()
        commits.append((cid, [b, a] if rng.random() < 0.5 else [a, b]))
        tips.append(cid)
        cid += 2
    return tips[0], cid


# release series (major, minor) of the component's first branch: mostly the plain 1.1, else boundary values:
# 0 as major and/or minor, several digits, 9 -> 10 roll-over into the second branch, the parent's own series
SERIES = [(1, 1), (1, 1), (1, 1), (1, 1), (0, 9), (0, 0), (0, 1), (1, 0), (10, 240), (9, 9), (5, 1), (1, 9), (0, 99)]
BUILD_OFFSETS = [0, 0, 0, 0, -1, -1, 95, 4150]      # build number = commit id + offset; ids start at 1, so -1 gives build 0


def _mk_tag(rng, exotic, M, m, n):
    """-> (tag, saved version the commit needs for it | None)"""
    if rng.random() >= exotic:
        return [M, m, n], None
    k = rng.random()
    if k < 0.25:
        return [M, m, n, "z"], None
    if k < 0.45:
        return ["f", M, m, n], None
    if k < 0.85:
        return ["w", rng.randrange(len(WORDS)), n], [M, m]
    return ["w", rng.randrange(len(WORDS)), n], rng.choice([None, "bad"])      # a build numbered '?'.'?'.n


def _tag_commit(rng, exotic, c, M, m, n, second):
    """build tag(s) for one commit; `second`: a second build number n+1 on the same commit"""
    tag, ver = _mk_tag(rng, exotic, M, m, n)
    c["tags"] = [tag]
    if second:
        t2, v2 = _mk_tag(rng, exotic, M, m, n + 1)
        if tag[0] != "w":
            ver = v2                       # else: one saved version file per commit, the first tag decided it
        c["tags"].append(t2)
        if rng.random() < 0.5:
            c["tags"].reverse()
    if any(t[0] == "w" for t in c["tags"]):
        if ver is not None:
            c["ver"] = ver
    elif rng.random() < exotic * 0.3:
        c["ver"] = rng.choice([[M, m], [M + 1, 0], "bad"])     # a saved version that nothing should read
    return c


def _unique_tag_names(spec):
    """a tag name refers to one commit in git: drop a tag whose name an earlier commit already carries"""
    used = set()
    for c in spec:
        keep = []
        for t in c["tags"]:
            if tag_name(t) not in used:
                used.add(tag_name(t))
                keep.append(t)
        c["tags"] = keep
    return spec


def gen_component(rng, linear, two_branches):
    n = rng.randint(3, 9)
    commits, tips, cid = _gen_dag(rng, n, linear)
    head1, cid = _close(rng, commits, tips, cid)
    spec = []
    branch_of = {}
    for c, ps in commits:
        branch_of[c] = 1
    s1 = rng.choice(SERIES)
    s2 = (s1[0], s1[1] + 1) if rng.random() < 0.6 else (s1[0] + 1, 0)
    series = {1: s1, 2: s2}
    off = {1: rng.choice(BUILD_OFFSETS)}
    off[2] = off[1]
    branches = [[f"release/{s1[0]}.{s1[1]}", head1]]
    if two_branches:
        base = rng.choice([c for c, _ in commits])
        more, tips2, cid = _gen_dag(rng, rng.randint(1, 4), True, first_id=cid)
        if rng.random() < 0.5:
            off[2] = off[1] - (more[0][0] - 1)     # the second series restarts: equal build numbers in both series
        more[0] = (more[0][0], [base])
        for c, ps in more:
            branch_of[c] = 2
        commits += more
        branches.append([rng.choice([f"release/{s2[0]}.{s2[1]}", "master"]), tips2[0]])
    ptag = rng.choice([0.5, 0.7, 0.9])
    pm = rng.choice([0.3, 0.5, 0.8])
    exotic = rng.choice([0.0, 0.0, 0.0, 0.15, 0.4])
    for c, ps in commits:
        d = {"id": c, "p": ps, "m": int(rng.random() < pm), "tags": []}
        if rng.random() < ptag:
            M, m = series[branch_of[c]]
            _tag_commit(rng, exotic, d, M, m, c + off[branch_of[c]], rng.random() < 0.12)
            if two_branches and branch_of[c] == 1 and rng.random() < exotic * 0.3:
                d["tags"].append([s2[0], s2[1], c + off[1]])       # the same number in the other series, same commit
        spec.append(d)
    rng.shuffle(branches)
    return {"commits": _unique_tag_names(spec), "branches": branches}


def gen_parent(rng, comp, mode):
    """mode: 'domain' (pins never decrease, name existing builds), 'wild' (anything)"""
    versions_ = sorted(v for c in comp["commits"] for v in versions(c) if not has_qm(v))
    nb = rng.choice([1, 1, 2, 2, 3])
    linear = rng.random() < 0.6
    commits = []
    branch_of = {}
    branches = []
    cid = 1
    PM = rng.choice([5, 5, 5, 5, 0, 0, 10, versions_[0][0]])
    pm0 = rng.choice([1, 1, 1, 0, 0, 9, 99])
    poff = rng.choice(BUILD_OFFSETS[:-1])
    names = [f"release/{PM}.{pm0}", f"release/{PM}.{pm0 + 1}", "master"]
    if nb < 3 and rng.random() < 0.5:
        names = names[:nb - 1] + ["master"] if nb > 1 else rng.choice([[names[0]], ["master"]])
    for b in range(nb):
        k = rng.randint(1, 5 if nb > 1 else 8)
        more, tips, cid = _gen_dag(rng, k, linear, first_id=cid)
        if commits and rng.random() < 0.85:
            more[0] = (more[0][0], [rng.choice([c for c, _ in commits])])
        head, cid = _close(rng, more, tips, cid)
        for c, ps in more:
            branch_of[c] = b + 1
        commits += more
        branches.append([names[b], head])
    if nb > 1 and rng.random() < 0.1:
        # a head that lies inside another branch's history
        branches[-1][1] = rng.choice([c for c, _ in commits])
    ptag = rng.choice([0.4, 0.6, 0.9])
    explicit = mode != "domain" and rng.random() < 0.5 or rng.random() < 0.15
    exotic = rng.choice([0.0, 0.0, 0.0, 0.15, 0.4])
    pin_idx = {}
    spec = []
    for c, ps in sorted(commits):
        if mode == "domain" or rng.random() < 0.6:
            lo = max([pin_idx[p] for p in ps], default=rng.choice([0, 0, 0, 1, 2]))
            lo = min(lo, len(versions_) - 1)
            idx = min(len(versions_) - 1, lo + rng.choice([0, 0, 1, 1, 2, 3]))
            pin = list(versions_[idx])
        else:
            idx = rng.randrange(len(versions_))
            r = rng.random()
            v = versions_[idx]
            # an existing build / a number no build has / an existing number in a series that has no builds / no pin
            pin = list(v) if r < 0.7 else [v[0], v[1], v[2] + 999] if r < 0.8 else [v[0] + 3, v[1], v[2]] if r < 0.85 else None
        pin_idx[c] = idx
        d = {"id": c, "p": ps, "m": int(explicit and rng.random() < 0.25), "tags": [], "pin": pin}
        if rng.random() < ptag:
            _tag_commit(rng, exotic, d, PM, pm0 + branch_of[c] - 1, c + poff, rng.random() < 0.08)
        spec.append(d)
    rng.shuffle(branches)
    return {"commits": _unique_tag_names(spec), "branches": branches}


def gen_bump(rng, mode=None, linear_comp=None, two=None):
    mode = mode or rng.choice(["domain", "domain", "domain", "wild"])
    for _ in range(50):
        linear = rng.random() < 0.45 if linear_comp is None else linear_comp
        comp = gen_component(rng, linear, two_branches=rng.random() < 0.25 if two is None else two)
        if any(not has_qm(v) for c in comp["commits"] for v in versions(c)):
            break
    par = gen_parent(rng, comp, mode)
    return {"k": "bump", "comp": comp, "par": par}


def gen_owner(rng, name, comps, mode, small=False, like=None):
    """a repository that pins the repositories `comps` = [(name, spec)] (each with at least one numbered build).
    mode 'domain': every commit pins an existing build of every component and no pin decreases along a path;
    'wild': anything.  The pins of the components move independently of one another: a pin stays while another
    moves (style 'indep'), exactly one pin moves per commit ('alternate'), all move together ('lockstep')."""
    vers_ = {}
    for cn, cs in comps:
        anc = _ancestors({c["id"]: c["p"] for c in cs["commits"]})
        live = set().union(*[anc[h] for _, h in cs["branches"]])
        vers_[cn] = sorted(v for c in cs["commits"] if c["id"] in live for v in versions(c) if not has_qm(v)) \
            or sorted(v for c in cs["commits"] for v in versions(c) if not has_qm(v))
    nb = rng.choice([1, 1, 2, 2, 3])
    linear = rng.random() < 0.6
    commits = []
    branch_of = {}
    branches = []
    cid = 1
    first = vers_[comps[0][0]]
    PM = rng.choice([5, 5, 5, 5, 0, 0, 10, first[0][0]])
    pm0 = rng.choice([1, 1, 1, 0, 0, 9, 99])
    poff = rng.choice(BUILD_OFFSETS[:-1])
    if like is not None:
        PM, pm0, poff = like["gen"]       # a sibling repository: the same release series and build numbers
    names = [f"release/{PM}.{pm0}", f"release/{PM}.{pm0 + 1}", "master"]
    if nb < 3 and rng.random() < 0.5:
        names = names[:nb - 1] + ["master"] if nb > 1 else rng.choice([[names[0]], ["master"]])
    for b in range(nb):
        k = rng.randint(2, 4 if nb > 1 or small else 8)
        more, tips, cid = _gen_dag(rng, k, linear, first_id=cid)
        if commits and rng.random() < 0.85:
            more[0] = (more[0][0], [rng.choice([c for c, _ in commits])])
        head, cid = _close(rng, more, tips, cid)
        for c, ps in more:
            branch_of[c] = b + 1
        commits += more
        branches.append([names[b], head])
    if nb > 1 and rng.random() < 0.1:
        branches[-1][1] = rng.choice([c for c, _ in commits])
    ptag = rng.choice([0.6, 0.9, 0.9, 1.0])
    explicit = mode != "domain" and rng.random() < 0.5 or rng.random() < 0.15
    exotic = rng.choice([0.0, 0.0, 0.0, 0.15, 0.4])
    files = rng.choice(["one", "one", "sep"])
    style = rng.choice(["indep", "indep", "indep", "alternate", "alternate", "lockstep"])
    ghost = rng.random() < 0.15
    pin_idx = {cn: {} for cn, _ in comps}
    start = {cn: rng.choice([0, 0, 0, 1, 2]) for cn, _ in comps}
    spec = []
    for c, ps in sorted(commits):
        nopin_all = mode != "domain" and rng.random() < 0.06
        mover = rng.choice([cn for cn, _ in comps])
        step = rng.choice([0, 1, 1, 2, 3])
        pins = {}
        for cn, _ in comps:
            vs = vers_[cn]
            if mode == "domain" or rng.random() < 0.6:
                lo = min(max([pin_idx[cn][p] for p in ps], default=start[cn]), len(vs) - 1)
                inc = rng.choice([0, 0, 0, 1, 1, 2, 3]) if style == "indep" else step if style == "lockstep" or cn == mover else 0
                idx = min(len(vs) - 1, lo + inc)
                pin = list(vs[idx])
            else:
                idx = rng.randrange(len(vs))
                q = rng.random()
                v = vs[idx]
                pin = list(v) if q < 0.7 else [v[0], v[1], v[2] + 999] if q < 0.8 else [v[0] + 3, v[1], v[2]] if q < 0.85 else None
            pin_idx[cn][c] = idx
            pins[cn] = pin
        if nopin_all or (files == "one" and any(v is None for v in pins.values())):
            pins = None              # one shared file: a commit has all its pins or none
        else:
            pins = {cn: v for cn, v in pins.items() if v is not None}
        if pins is not None and ghost:
            pins["ghost"] = [1, 1, 1 + len(spec) // 2]
        d = {"id": c, "p": ps, "m": int(explicit and rng.random() < 0.25), "tags": [], "pins": pins or {}}
        if rng.random() < ptag:
            _tag_commit(rng, exotic, d, PM, pm0 + branch_of[c] - 1, c + poff, rng.random() < 0.08)
        spec.append(d)
    rng.shuffle(branches)
    cnames = [cn for cn, _ in comps]
    rng.shuffle(cnames)
    return {"name": name, "comps": cnames, "ghosts": ["ghost"] if ghost else [], "files": files, "frev": int(rng.random() < 0.5),
            "commits": _unique_tag_names(spec), "branches": branches, "gen": [PM, pm0, poff]}


# shapes of a collection: (number of repositories, {index: indices of the repositories it pins}); leaves first
TOPOLOGIES = {
    "fan2": (3, {2: [0, 1]}),                       # one parent, two components
    "fan3": (4, {3: [0, 1, 2]}),
    "two_parents": (3, {1: [0], 2: [0]}),           # the same component pinned by two parents
    "two_parents_fan": (4, {2: [0, 1], 3: [0, 1]}),
    "chain": (3, {1: [0], 2: [1]}),                 # three levels: a component that pins a sub-component itself
    "chain_diamond": (3, {1: [0], 2: [1, 0]}),      # ... and the top pins the sub-component directly, too
    "chain_fan": (4, {2: [0], 3: [2, 1]}),
}
REPO_NAMES = ["app", "base", "core", "lib_a", "lib_b", "zeta", "mid", "top", "r2", "R1"]


def gen_multi(rng, topo=None, mode=None, two=0.2):
    """a collection of 3-4 repositories in which a repository pins several components, a component is pinned by
    several repositories, or a component pins a sub-component; RBuild / RCommit iids start at 0 in every repository"""
    topo = topo or rng.choice(["fan2", "fan2", "fan2", "fan2", "fan3", "two_parents", "two_parents_fan", "chain",
                               "chain_diamond", "chain_fan"])
    mode = mode or rng.choice(["domain", "domain", "domain", "domain", "wild"])
    n, deps = TOPOLOGIES[topo]
    names = rng.sample(REPO_NAMES, n)
    repos = []
    for i in range(n):
        if i not in deps:
            twin = [r for r in repos if not r["comps"]]
            if twin and rng.random() < 0.3:
                # a twin of another component: the same history, tags and version numbers (so every key that is not
                # qualified by the repository coincides), other matching commits
                comp = json.loads(json.dumps({"commits": twin[0]["commits"], "branches": twin[0]["branches"]}))
                for c in comp["commits"]:
                    c["m"] = int(rng.random() < 0.5)
                repos.append(dict(comp, name=names[i], comps=[]))
                continue
            for _ in range(50):
                comp = gen_component(rng, rng.random() < 0.5, two_branches=rng.random() < two)
                if any(not has_qm(v) for c in comp["commits"] for v in versions(c)):
                    break
            repos.append(dict(comp, name=names[i], comps=[]))
        else:
            sib = [r for r in repos if r.get("comps") and set(r["comps"]) & {names[j] for j in deps[i]}]
            like = sib[0] if sib and rng.random() < 0.6 else None
            for _ in range(50):
                own = gen_owner(rng, names[i], [(names[j], repos[j]) for j in deps[i]], mode, small=True, like=like)
                if any(not has_qm(v) for c in own["commits"] for v in versions(c)):
                    break
            repos.append(own)
    rng.shuffle(repos)                    # the order in which the repositories are supplied
    return {"k": "bump", "repos": repos}


def spread_days(rng, case, p):
    """commit times spread over several days (a share p of the collections; all other mock commits are seconds apart):
    "d" of a commit = days after BASE_T.  A repository's commits owned by its first branch (processing order) stay on
    the first day, the commits that only later branches (the last one analysed: master) reach are days younger, so the
    oldest report-related build of a component usually is NOT in the branch analysed last; the commits of the
    repositories that pin components fall anywhere in between.  Whether the times of a case are inside the cut-off
    windows (ASSUMPTIONS) is decided at run time from the report itself (_run_bump: a case outside is run with the
    flat times)"""
    if rng.random() >= p:
        return case
    specs = case["repos"] if "repos" in case else [case["comp"], case["par"]]
    how = rng.choice(["branch", "branch", "branch", "random"])
    gap = rng.choice([1.5, 2, 3, 5, 9])
    pinned = set() if "repos" in case else None
    if pinned is not None:
        for r in specs:
            pinned |= set(r.get("comps") or [])
    for k, r in enumerate(specs):
        is_comp = (k == 0) if pinned is None else r["name"] in pinned
        own, brs = _own(r, _ancestors({c["id"]: c["p"] for c in r["commits"]}))
        for c in r["commits"]:
            if how == "random":
                d = rng.choice([0, 0.5, 1, 2, 3, 4])
            elif is_comp:
                i = own.get(c["id"], len(brs))
                d = (0 if i == 0 else gap + (i - 1)) + rng.choice([0, 0, 0.3, 0.6])
            else:
                d = rng.choice([0.2, 0.5, 0.8, 1, 1.4, gap - 0.7, gap, gap + 0.5, gap + 2])
            if d:
                c["d"] = d
    return case


def gen_cases(rng, tier):
    big = tier == "thorough"
    cases = []
    # every dependency graph on <= 3 repositories (ids 0..2, each edge incl. self loops) in one supply order
    for n in (1, 2, 3):
        pairs = [(a, b) for a in range(n) for b in range(n)]
        for mask in range(1 << len(pairs)):
            if n == 3 and not big and mask % 7:
                continue
            deps = {str(a): [] for a in range(n)}
            for i, (a, b) in enumerate(pairs):
                if mask >> i & 1:
                    deps[str(a)].append(b)
            ids = list(range(n))
            rng.shuffle(ids)
            cases.append({"k": "order", "repos": ids, "deps": deps})
    for _ in range(3000 if big else 400):
        cases.append(gen_order(rng))
    for _ in range(9000 if big else 1000):
        cases.append(with_disk(rng, gen_bump(rng), 0.2))
    for _ in range(3000 if big else 450):
        cases.append(with_disk(rng, gen_multi(rng), 0.3))
    # commit times over several days, components with builds in two branches (own random stream: the cases above
    # stay what they were)
    rng2 = random.Random(rng.randrange(1 << 30))
    for _ in range(1500 if big else 250):
        c = gen_bump(rng2, mode="domain" if rng2.random() < 0.7 else None, two=rng2.random() < 0.8) if rng2.random() < 0.7 \
            else gen_multi(rng2, two=0.7)
        cases.append(spread_days(rng2, with_disk(rng2, c, 0.15), 1.0))
    return cases


def with_disk(rng, case, p):
    """a share of the collections is read through the library's own GitRepo from ref files (every repository of the
    collection: parents and components); "gc" = everything packed, annotated build tags (the state after `git gc`)"""
    if rng.random() < p:
        case["disk"] = "gc" if rng.random() < 0.15 else rng.randrange(1 << 30)
        try:
            for r in as_multi(case)["repos"]:
                disk_layout(case, r)
        except AssertionError:
            case.pop("disk")               # names that cannot be laid out as files (never seen so far)
    return case


def search_cases(rng, tier):
    out = [gen_order(rng) for _ in range(600)]
    out += [with_disk(rng, gen_bump(rng, mode="domain"), 0.2) for _ in range(1800)]
    out += [with_disk(rng, gen_multi(rng, mode="domain"), 0.3) for _ in range(700)]
    return out


def kind(case):
    disk = ":ref-files" if case.get("disk") is not None else ""
    if case["k"] == "bump" and "repos" in case:
        n = max(len(r.get("comps", [])) for r in case["repos"])
        return "bump:collection" + (":multi-component" if n > 1 else "") + disk
    return case["k"] + disk


# ------------------------------------------------------------------ implementation
def _vc(x):
    if isinstance(x, int) and not isinstance(x, bool) and x >= 0:
        return x
    if x == "?":
        return QM
    raise ValueError(f"version component {x!r}")


def _bn3(b):
    """BuildNumData / tuple -> [M, m, build] ('?' -> QM); patch must equal build"""
    t = b if isinstance(b, tuple) else b.as_tuple()
    if t[2] != t[3]:
        raise ValueError(f"patch != build in {t}")
    return [_vc(t[0]), _vc(t[1]), _vc(t[3])]


def _run_order(case):
    from ak.ghist import ReposCollection
    log = []

    class Stub:
        def __init__(self, i, deps):
            self.i = i
            self.repo_id = rid(i)
            self._COMPONENTS_VERSIONS_LOCATIONS = {rid(d): "DEPENDS" for d in deps}

        def build_report_rgraph(self, text, comps):
            log.append(self.i)
            return ("rgraph", self.i, [(k, v) for k, v in comps.items()])

    repos = {rid(i): Stub(i, case["deps"].get(str(i), [])) for i in case["repos"]}
    try:
        rc = ReposCollection(repos)
    except BaseException as e:  # noqa
        if type(e).__name__ == "Hang":
            raise
        return {"r": ["err", SX.exc_name(e)]}
    try:
        data = rc.make_reports_data(SEARCH_TEXT)
    except BaseException as e:  # noqa
        if type(e).__name__ == "Hang":
            raise
        return {"r": ["ok", [int(x[1:]) for x in rc.sorted_repos]], "data": ["err", SX.exc_name(e)]}
    res = []
    vals_ok = True
    for repo_id, x in data:
        comps = []
        for k, v in x[2]:
            comps.append(int(k[1:]))
            vals_ok = vals_ok and v[0] == "rgraph" and rid(v[1]) == k
        res.append([int(repo_id[1:]), comps])
        vals_ok = vals_ok and rid(x[1]) == repo_id
    return {"r": ["ok", [int(x[1:]) for x in rc.sorted_repos]], "data": ["ok", res], "calls": log, "vals_ok": vals_ok}


def _run_bump(case):
    obs = _run_bump_timed(case)
    if obs.get("window") is False:
        # some commit of a repository lies more than the cut-off period before the oldest report-related build of a
        # component it pins (outside ASSUMPTIONS): the same histories with the flat times
        flat = json.loads(json.dumps(case))
        for r in (flat["repos"] if "repos" in flat else [flat["comp"], flat["par"]]):
            for c in r["commits"]:
                c.pop("d", None)
        obs = _run_bump_timed(flat)
        obs["flat"] = True
    return obs


def _run_bump_timed(case):
    if case.get("disk") is None:
        return _run_bump_in(case, None)
    import shutil
    import tempfile
    root = tempfile.mkdtemp(prefix="c07-")
    try:
        return _run_bump_in(case, root)
    finally:
        shutil.rmtree(root, ignore_errors=True)


def _run_bump_in(case, root):
    import logging
    from ak import ghist
    from ak.ghist import ProjectRepo, ReposCollection
    logging.disable(logging.CRITICAL)

    import re
    from ak.ghist import BuildNumData

    def read(self, path, blob):
        d = json.load(blob.data_stream)
        return {k: [int(x) for x in v.split(".")] for k, v in d.items()}

    def read_saved(self, blob, path):
        a, b, c = blob.data_stream.read().decode().strip().split(".")      # ValueError when it is not M.m.p
        return BuildNumData(int(a), int(b), int(c))

    def parse_buildtag(cls, tag_str):
        m = re.match(r"ok-(\d+)\.(\d+)-(\d+)$", tag_str)
        if m:
            return BuildNumData(int(m.group(1)), int(m.group(2)), None, build=int(m.group(3)))
        return cls._parse_default_buildtag(tag_str)
    common = {"read_components_from_file": read, "_SAVED_BUILD_NUM_SOURCES": [SAVED_FILE],
              "_read_saved_build_num_from_file": read_saved, "parse_buildtag": classmethod(parse_buildtag)}
    specs = as_multi(case)["repos"]
    names = [r["name"] for r in specs]
    disks = {r["name"]: disk_layout(case, r) for r in specs} if root is not None else {}
    refs_seen = [] if root is not None else None
    try:
        mocks, objs, gitrepos = {}, {}, {}
        for r in specs:
            cls = type("R_" + r["name"], (ProjectRepo,),
                       {"_COMPONENTS_VERSIONS_LOCATIONS": {c: dep_file(r, c) for c in declared(r)}, **common})
            mocks[r["name"]] = MockRepo(r["name"], r)
            gitrepos[r["name"]] = mocks[r["name"]]
            if disks.get(r["name"]) is not None:
                gitrepos[r["name"]] = disk_repo_class(ghist)(root, mocks[r["name"]], r["name"], disks[r["name"]])
            objs[r["name"]] = cls(r["name"], gitrepos[r["name"]], "origin")
            if root is not None:
                # what the library reads from the ref files (a ProjectRepo object of its own): the heads of the
                # remote branches, the commits of the tags
                if disks.get(r["name"]) is None:
                    refs_seen.append(None)
                    continue
                try:
                    g = gitrepos[r["name"]]
                    heads = sorted([k, v] for k, v in cls(r["name"], g, "origin").make_branch_refs_map().items())
                    tgs = sorted([n[len("refs/tags/"):], h if h is not None else g.get_ref_commit(n).hexsha]
                                 for n, h in g.iter_refs("refs/tags/"))
                    refs_seen.append(["ok", heads, tgs])
                except Exception as e:  # noqa
                    refs_seen.append(["err", SX.exc_name(e)])
        rc = ReposCollection(objs)
        data = dict(rc.make_reports_data(SEARCH_TEXT))

        # commit times: the oldest report-related build of every repository as the graph records it, and bounds for
        # it taken from the finished graph: it is not younger than the oldest build the finished bn_map still names
        # (a build number met again in a later branch replaces the entry) and not older than the oldest RBuild of any
        # branch.  Is every commit of a repository inside the cut-off window of the components it pins (younger than
        # the upper bound of the component's oldest report-related build minus the cut-off period)?
        period = getattr(ghist, "_CHECK_COMPONENTS_CUTOFF_PERIOD", DAY)
        oldest = {n: min([rb.rcommit.commit.committed_date for _, rb in data[n].bn_map.values()], default=None) for n in names}
        mints = [[data[n].min_rbuild_timestamp, oldest[n],
                  min([rb.rcommit.commit.committed_date for rbr in [x for x, _ in data[n].bn_map.values()] + list(data[n].branches) for rb in rbr.rbuilds.values()
                       if rb.rcommit is not None], default=None)] for n in names]
        window = all(oldest.get(comp) is None or c.committed_date > oldest[comp] - period
                     for r in specs for comp in (r.get("comps") or []) for c in mocks[r["name"]].commits.values())

        def snapshot(d):
            return [[n, [[rb.iid, str(rb.build_num), [[a[0], str(a[1]), str(a[2])] for a in rb.included_at]]
                         for _, rb in sorted(d[n].brcommits.items())]] for n in sorted(d)]
        # a second report of the same collection: it must say the same, and must leave the first one alone
        snap = snapshot(data)
        data2 = dict(rc.make_reports_data(SEARCH_TEXT))
        again = [snapshot(data) == snap, snapshot(data2) == snap]
        # what a fresh builds detector says about every commit (tag -> build number, ascending)
        vers = []
        for r in specs:
            det = objs[r["name"]].make_builds_detector()
            vers.append([[list(b.as_tuple()) for b in det.get_builds_numbers(mocks[r["name"]].commits[cid_])]
                         for cid_ in sorted(c["id"] for c in r["commits"])])
    except BaseException as e:  # noqa
        if type(e).__name__ == "Hang":
            raise
        return {"r": ["err", SX.exc_name(e)], **({"refs": refs_seen} if refs_seen is not None else {})}
    out = _observe_bump(specs, names, data, rc, vers, again)
    out["mints"] = mints
    out["window"] = window
    if refs_seen is not None:
        out["refs"] = refs_seen
    return out


def _observe_bump(specs, names, data, rc, vers, again):
    bnames = {r["name"]: [b[0] for b in sorted_branches(r)] for r in specs}
    FOREIGN = 1000000      # an RBuild object that does not belong to the component's graph (same iid or not)
    try:
        # ---- every repository's RGraph as a component sees it (input of the model), and the observed included_at
        graphs, ranks = {}, {}
        for r in specs:
            cg = data[r["name"]]
            cbranches = []
            for rbranch, _ in cg.bn_map.values():
                if not any(rbranch is b for b in cbranches):
                    cbranches.append(rbranch)
            for rbranch in cg.branches:
                if not any(rbranch is b for b in cbranches):
                    cbranches.append(rbranch)
            allrb = {}
            for rb in cg.brcommits.values():
                allrb[rb.iid] = rb
            for b in cbranches:
                for rb in b.rbuilds.values():
                    allrb[rb.iid] = rb
            rank = {iid: i for i, iid in enumerate(sorted(allrb))}
            byobj = {id(rb): rank[iid] for iid, rb in allrb.items()}
            ranks[r["name"]] = byobj
            crbs = []
            for iid in sorted(allrb):
                rb = allrb[iid]
                at = []
                for a in rb.included_at:
                    at.append([a[0], bnames[a[0]].index(a[1]), _bn3(a[2])])       # KeyError / ValueError: unknown repository / branch
                crbs.append({"i": rank[iid], "bn": _bn3(rb.build_num), "t": rb.build_type,
                             "p": sorted(rank[p] for p in rb.parent_rbuilds),
                             "c": rb.rcommit.commit.cid if rb.rcommit is not None else None,
                             "br": [k for k, b in enumerate(cbranches) if iid in b.rbuilds],
                             "at": at})
            bnmap = [[_bn3(k), [j for j, b in enumerate(cbranches) if b is v[0]][0], rank[v[1].iid]] for k, v in cg.bn_map.items()]
            graphs[r["name"]] = {"crbs": crbs, "bnmap": bnmap, "cbranches": [sorted(rank[i] for i in b.rbuilds) for b in cbranches],
                                 "cnames": [b.branch_name for b in cbranches]}
        # ---- the reports of the repositories that pin components
        for r in specs:
            if not r.get("comps"):
                continue
            pg = data[r["name"]]
            pbr = []
            for rbranch in pg.branches:
                rbs = []
                for rb in rbranch.get_rbuilds_list():
                    bvs = []
                    for comp in r["comps"]:
                        bump = rb.bumps.get(comp)
                        bv = None
                        if bump is not None:
                            rk = lambda x, comp=comp: ranks[comp].get(id(x), FOREIGN + x.iid)
                            bv = [_bn3(bump.to_buildnum), sorted(_bn3(x) for x in bump.from_build_nums),
                                  SX.opt(None if bump.to_rbuild is None else rk(bump.to_rbuild)),
                                  sorted(rk(x) if x.iid == i else FOREIGN + i for i, x in bump.from_rbuilds.items())]
                        bvs.append(bv)
                    rbs.append({"bn": _bn3(rb.build_num), "t": rb.build_type,
                                "c": rb.rcommit.commit.cid if rb.rcommit is not None else None,
                                "x": [x.commit.cid for x in rb.get_printable_rcommits()],
                                "bumps": bvs, "other_bumps": sorted(k for k in rb.bumps if k not in r["comps"])})
                pbr.append([bnames[r["name"]].index(rbranch.branch_name), rbs])
            graphs[r["name"]]["par"] = pbr
        vers = [[[_bn3(tuple(b)) for b in bs] for bs in one] for one in vers]
    except (ValueError, KeyError, AttributeError, TypeError, IndexError) as e:
        # the report holds something that is no build number / no RBuild / no branch of the collection
        return {"r": ["unmodelled", repr(e)]}
    return {"r": ["ok"], "vers": vers, "graphs": [graphs[n] for n in names], "sorted_repos": list(rc.sorted_repos),
            "again": again}


def impl_run(case):
    if case["k"] == "order":
        return _run_order(case)
    return _run_bump(case)


# ------------------------------------------------------------------ model side
def c_bn(b):
    return f"({SX.cZ(b[0])}, {SX.cZ(b[1])}, {SX.cZ(b[2])})%Z"


def c_nats(l):
    l = list(l)
    return "(@nil nat)" if not l else "[" + ";".join(str(int(x)) for x in l) + "]%nat"


def c_rawtag(t):
    if t[0] == "w":
        return f"(TagWord, {SX.cZ(t[2])})%Z"
    if t[0] == "f":
        return f"(TagFull {SX.cZ(t[1])} {SX.cZ(t[2])}, {SX.cZ(t[3])})%Z"
    return f"(TagRelease {SX.cZ(t[0])} {SX.cZ(t[1])}, {SX.cZ(t[2])})%Z"


def c_rawtags(c):
    return SX.clist(c_rawtag(t) for t in c.get("tags", []))


def c_saved(c):
    v = c.get("ver")
    return f"(Some ({SX.cZ(v[0])}, {SX.cZ(v[1])})%Z)" if isinstance(v, list) else "None"


def in_model(case, obs):
    if "__hang__" in obs:
        return False
    if case["k"] == "order":
        return True
    return obs["r"][0] == "ok"


def coq_case(case, obs):
    if case["k"] == "order":
        deps = SX.clist(f"({int(k)}%nat, {c_nats(v)})" for k, v in case["deps"].items())
        return f"Order {c_nats(case['repos'])} {deps}"
    specs = as_multi(case)["repos"]
    names = [r["name"] for r in specs]
    gr = dict(zip(names, obs["graphs"]))
    tags = SX.clist(SX.clist(f"({c_saved(c)}, {c_rawtags(c)})" for c in sorted(r["commits"], key=lambda c: c["id"])) for r in specs)
    parents = []
    for par in specs:
        if not par.get("comps"):
            continue
        cis = []
        for comp in par["comps"]:
            o = gr[comp]
            ci_rbs = SX.clist(f"({r['i']}%nat, ({c_bn(r['bn'])}, {c_nats(r['p'])}))" for r in o["crbs"])
            ci_bn = SX.clist(f"({c_bn(k)}, ({b}%nat, {i}%nat))" for k, b, i in o["bnmap"])
            ci_br = SX.clist(c_nats(b) for b in o["cbranches"])
            cis.append(f"(mkCI {ci_rbs} {ci_bn} {ci_br})")
        ids = sorted(c["id"] for c in par["commits"])
        pos = {c: i for i, c in enumerate(ids)}
        byid = {c["id"]: c for c in par["commits"]}
        commits = []
        for cid_ in ids:
            c = byid[cid_]
            pins = SX.clist("None" if pin_of(c, comp) is None else f"(Some {c_bn(pin_of(c, comp))})" for comp in par["comps"])
            commits.append(f"mkRawC {c_nats(pos[p] for p in c['p'])} {SX.cbool(c['m'])} {c_rawtags(c)} {c_saved(c)} {pins}")
        heads = SX.clist(f"({i}%nat, {pos[h]}%nat)" for i, (_, h) in enumerate(sorted_branches(par)))
        parents.append(f"(mkP {SX.clist(cis)} {SX.clist(commits)} {heads})")
    return f"Bump {tags} {SX.clist(parents)}"


def expected_sx(case, obs):
    if case["k"] == "order":
        r = obs["r"]
        if r[0] == "err":
            return SX.dumps(SX.err(r[1]))
        d = obs["data"]
        if d[0] == "err":
            return SX.dumps(SX.err(d[1]))
        return SX.dumps(SX.ok(d[1]))
    specs = as_multi(case)["repos"]
    names = [r["name"] for r in specs]
    gr = dict(zip(names, obs["graphs"]))
    reports = []
    for par in specs:
        if not par.get("comps"):
            continue
        ids = sorted(c["id"] for c in par["commits"])
        pos = {c: i for i, c in enumerate(ids)}
        brs = []
        for bi, rbs in gr[par["name"]]["par"]:
            brs.append([bi, [[rb["bn"], rb["t"], [pos[x] for x in rb["x"]], [SX.opt(b) for b in rb["bumps"]]] for rb in rbs]])
        # included_at of the components' builds: the entries this repository made, in their order
        inc = [[[r["i"], [[a[1], a[2]] for a in r["at"] if a[0] == par["name"]]] for r in gr[comp]["crbs"]] for comp in par["comps"]]
        reports.append([brs, inc])
    return SX.dumps(SX.ok([reports, obs["vers"]]))


# ------------------------------------------------------------------ oracle (the statement, from the raw histories)
def _has_cycle(nodes, edges):
    """cycle in the dependency graph restricted to supplied repositories (self loops count)"""
    color = {}

    def dfs(x):
        color[x] = 1
        for y in edges.get(x, []):
            if y not in nodes:
                continue
            if color.get(y) == 1:
                return True
            if y not in color and dfs(y):
                return True
        color[x] = 2
        return False
    return any(x not in color and dfs(x) for x in sorted(nodes))


def _oracle_order(case, obs):
    out = []
    nodes = set(case["repos"])
    edges = {int(k): v for k, v in case["deps"].items()}
    cyc = _has_cycle(nodes, edges)
    r = obs["r"]
    if cyc:
        if r != ["err", "ValueError"]:
            out.append(("cycle-not-valueerror", f"cyclic dependencies {case['deps']} over {case['repos']}: got {r}, the property demands ValueError"))
        return out
    if r[0] != "ok":
        return [("acyclic-rejected", f"acyclic dependencies {case['deps']} over {case['repos']} raised {r[1]}")]
    order = r[1]
    if sorted(order) != sorted(nodes):
        out.append(("order-not-permutation", f"sorted_repos {order} is not a permutation of {sorted(nodes)}"))
        return out
    at = {x: i for i, x in enumerate(order)}
    for x in nodes:
        for y in edges.get(x, []):
            if y in nodes and at[y] > at[x]:
                out.append(("owner-before-component", f"sorted_repos {order}: {x} precedes its component {y}"))
                return out
    d = obs.get("data")
    if d is None or d[0] != "ok":
        out.append(("reports-raise", f"make_reports_data raised {d}"))
        return out
    if obs["calls"] != order:
        out.append(("analysis-order", f"repositories analysed in order {obs['calls']}, sorted_repos is {order}"))
    if [x[0] for x in d[1]] != order[::-1]:
        out.append(("analysis-order", f"report lists {[x[0] for x in d[1]]}, expected reversed {order}"))
    for x, comps in d[1]:
        want = {y for y in edges.get(x, []) if y in nodes}
        if set(comps) != want or len(comps) != len(set(comps)) or not obs["vals_ok"]:
            out.append(("components-passed", f"repository {x} analysed with component graphs {comps}, its supplied components are {sorted(want)}"))
            break
    return out


def _ancestors(parents):
    """{id: set of ancestors-or-self}"""
    memo = {}
    for c in sorted(parents):           # parents have smaller ids in generated histories; be general anyway
        pass

    def anc(c):
        if c in memo:
            return memo[c]
        stack = [c]
        seen = {c}
        while stack:
            x = stack.pop()
            for p in parents[x]:
                if p not in seen:
                    seen.add(p)
                    stack.append(p)
        memo[c] = seen
        return seen
    return {c: anc(c) for c in parents}


def _own(spec, anc):
    """{commit: index of the first branch (processing order) that reaches it}, and the ordered branches"""
    brs = sorted_branches(spec)
    own = {}
    for i, (_, head) in enumerate(brs):
        for c in anc[head]:
            own.setdefault(c, i)
    return own, brs


def pairs(case, obs=None):
    """every (repository P, component C that P pins) of the collection as a two-repository view in the older
    form ({"comp": C's history, "par": P's history with "pin" = P's pin of C}), with the matching view of the
    observation: C's builds with the included_at entries that name P, P's reported builds with their bump of C"""
    specs = as_multi(case)["repos"]
    names = [r["name"] for r in specs]
    byname = dict(zip(names, specs))
    gr = dict(zip(names, obs["graphs"])) if obs is not None and obs.get("r") == ["ok"] else None
    out = []
    for par in specs:
        for k, cname in enumerate(par.get("comps", [])):
            comp = byname[cname]
            pview = {"commits": [dict({kk: v for kk, v in c.items() if kk != "pins"}, pin=pin_of(c, cname)) for c in par["commits"]],
                     "branches": par["branches"]}
            pc = {"k": "bump", "comp": {"commits": comp["commits"], "branches": comp["branches"]}, "par": pview,
                  "names": [par["name"], cname]}
            po = None
            if gr is not None:
                owners = {r["name"] for r in specs if cname in r.get("comps", [])}
                crbs = [dict(r, at=[[a[1], a[2]] for a in r["at"] if a[0] == par["name"]],
                             at_repo=sorted({a[0] for a in r["at"]} - owners)) for r in gr[cname]["crbs"]]
                pbr = [[bi, [dict(rb, bump=rb["bumps"][k]) for rb in rbs]] for bi, rbs in gr[par["name"]]["par"]]
                po = {"r": ["ok"], "vers": [obs["vers"][names.index(cname)], obs["vers"][names.index(par["name"])]],
                      "crbs": crbs, "par": pbr}
            out.append((pc, po))
    return out


def in_domain(case):
    """the property's quantifier, for one (parent, component) pair in the two-repository form"""
    comp, par = case["comp"], case["par"]
    cpar = {c["id"]: c["p"] for c in comp["commits"]}
    canc = _ancestors(cpar)
    tags = {c["id"]: versions(c) for c in comp["commits"]}
    allv = [t for ts in tags.values() for t in ts]
    if len(allv) != len(set(allv)):
        return False
    for c, ts in tags.items():
        for a in canc[c] - {c}:
            # build numbers increase along the component history (a build numbered '?'.'?'.n has no place in that
            # order relative to the numbered ones: only compared with its like)
            if any(ta >= tc for ta in tags[a] for tc in ts if has_qm(ta) == has_qm(tc)):
                return False
    for c in par["commits"]:
        vs_ = versions(c)
        if len(vs_) != len(set(vs_)):
            return False                          # two tags of one parent commit denote the same build
    ppar = {c["id"]: c["p"] for c in par["commits"]}
    panc = _ancestors(ppar)
    pin = {c["id"]: c["pin"] for c in par["commits"]}
    cown, _ = _own(comp, canc)
    # the builds of the component: tagged commits of its release branches (a tag on a commit that no branch head
    # reaches is not a build of any branch)
    vs = {v for c, ts in tags.items() if c in cown for v in ts}
    for c in ppar:
        if pin[c] is None or tuple(pin[c]) not in vs:
            return False                          # always names an existing component build
        for a in panc[c]:
            if tuple(pin[a]) > tuple(pin[c]) if pin[a] is not None else True:
                return False                      # never decreases along a path
    return True


def _oracle_bump(case, obs):
    """the statement is about every repository of the collection and every component it pins: each such pair is
    judged by itself (what another component of the same parent, or another parent of the same component, does
    must not matter), from the raw histories"""
    r = obs["r"]
    dom = [(pc, po) for pc, po in pairs(case, obs) if in_domain(pc)]
    if not dom:
        return []
    pre = _oracle_refs(case, obs)
    if r[0] == "err":
        return pre + [("report-raises", f"make_reports_data raised {r[1]}")]
    if r[0] != "ok":
        return [("report-unreadable", f"the report carries a build number that is no (major, minor, build) triple, or an "
                                      f"included_at entry that names no branch of a repository of the collection: {r[1]}")]
    multi = len(as_multi(case)["repos"]) > 2
    seen, res = {sig for sig, _ in pre}, list(pre)
    if obs.get("again", [True, True]) != [True, True]:
        seen.add("report-history-dependent")
        res.append(("report-history-dependent",
                    "a second make_reports_data on the same collection " +
                    ("changed the included_at lists of the first report's builds" if not obs["again"][0] else
                     "records other included_at lists than the first one")))
    names = [x["name"] for x in as_multi(case)["repos"]]
    wrong = [f"{n}: {a} recorded, the oldest build its bn_map names is of {b}, its oldest report-related build of {lo}"
             for n, (a, b, lo) in zip(names, obs.get("mints", []))
             if (a is None) != (b is None) or a is not None and not (lo is not None and lo <= a <= b)]
    if wrong:
        res.append(("oldest-build-time-wrong",
                    "RGraph.min_rbuild_timestamp (the time below which the repositories that pin this one stop looking at "
                    "it) is not the commit time of the oldest report-related build: " + "; ".join(wrong[:2])))
    for pc, po in dom:
        for sig, msg in _oracle_pair(pc, po):
            if sig not in seen:
                seen.add(sig)
                res.append((sig, f"[repository {pc['names'][0]}, its component {pc['names'][1]}] {msg}" if multi else msg))
    return res


def _oracle_refs(case, obs):
    """disk cases: the heads of the branches and the commits of the tags the library reads from the ref files are the
    ones the repository has (the generator's intention, confirmed by the reference reader c06.ref_semantics)"""
    if obs.get("refs") is None:
        return []
    out = []
    for spec, seen in zip(as_multi(case)["repos"], obs["refs"]):
        if seen is None:
            continue
        if seen[0] != "ok":
            out.append(("refs-raise", f"repository {spec['name']}: reading the ref files raised {seen[1]}"))
            continue
        branches, tags = intended_refs(spec)
        cid = {repo_sha(spec["name"], c["id"]): c["id"] for c in spec["commits"]}
        want = sorted([n[len("refs/remotes/"):], sha] for n, sha in branches)
        got = [x for x in seen[1] if x[0] in {w[0] for w in want}]
        if got != want:
            bad = [[n, cid.get(h, h)] for n, h in got if [n, h] not in want]
            out.append(("branch-head-wrong", f"repository {spec['name']}: make_branch_refs_map gives (branch, commit) {bad[:3]}, "
                        f"the ref files say {[[n, cid[h]] for n, h in want][:6]}"))
        wt = sorted([t, sha] for t, sha in tags)
        gt = [x for x in seen[2] if x[0] in {w[0] for w in wt}]
        if gt != wt:
            bad = [[n, cid.get(h, h)] for n, h in gt if [n, h] not in wt]
            out.append(("tag-commit-wrong", f"repository {spec['name']}: the build tags resolve to (tag, commit) {bad[:3]}, "
                        f"the ref files say {[[n, cid[h]] for n, h in wt][:6]}"))
    seen_sig, uniq = set(), []
    for sig, msg in out:
        if sig not in seen_sig:
            seen_sig.add(sig)
            uniq.append((sig, msg))
    return uniq


def _oracle_pair(case, obs):
    out = []
    comp, par = case["comp"], case["par"]
    cpar = {c["id"]: c["p"] for c in comp["commits"]}
    canc = _ancestors(cpar)
    cown, _ = _own(comp, canc)
    vcommit = {v: c["id"] for c in comp["commits"] for v in versions(c)}
    ppar = {c["id"]: c["p"] for c in par["commits"]}
    panc = _ancestors(ppar)
    pown, pbrs = _own(par, panc)
    pin = {c["id"]: tuple(c["pin"]) for c in par["commits"]}
    ptags = {c["id"]: sorted(versions(c), key=vkey) for c in par["commits"]}
    # every commit's build numbers as a fresh builds detector reports them: exactly what its tags stand for
    for which, spec, got in (("component", comp, obs["vers"][0]), ("parent", par, obs["vers"][1])):
        for c, bs in zip(sorted(spec["commits"], key=lambda c: c["id"]), got):
            want = sorted(versions(c), key=vkey)
            if [tuple(b) for b in bs] != want:
                out.append(("build-number-of-tag", f"{which} commit {c['id']} with tags {[tag_name(t) for t in c['tags']]}"
                            f"{' and saved version ' + repr(c['ver']) if c.get('ver') is not None else ''}: "
                            f"get_builds_numbers gives {bs}, the tags stand for {[list(v) for v in want]} ({QM} is '?')"))
                break
    # builds of each parent branch: tagged commits first reached by that branch, and its head when unbuilt
    builds = {}
    for bi, (_, head) in enumerate(pbrs):
        bs = [c for c in ppar if pown.get(c) == bi and ptags[c]]
        if pown.get(head) == bi and not ptags[head]:
            bs.append(head)
        builds[bi] = bs

    def label(c):
        return list(ptags[c][0]) if ptags[c] else [8888, 8888, 8888]

    crb_parents = {r_["i"]: r_["p"] for r_ in obs["crbs"]}
    reported = {}
    for bi, rbs in obs["par"]:
        for rb in rbs:
            if rb["c"] is not None:
                reported[(bi, rb["c"])] = rb
    for rb in obs["crbs"]:
        if rb["c"] is None or rb["t"] != 0:
            if rb["at"]:
                out.append(("included-at-extra", f"pseudo build {rb['bn']} of the component has included_at {rb['at']}"))
            continue
        b = rb["c"]
        if rb["at_repo"]:
            out.append(("included-at-extra", f"component build {rb['bn']} included_at names repository {rb['at_repo']}"))
        seen = set()
        for bi, bnp in rb["at"]:
            if (bi, tuple(bnp)) in seen:
                out.append(("included-at-duplicate", f"component build {rb['bn']} is included_at {pbrs[bi][0]} {bnp} more than once"))
            seen.add((bi, tuple(bnp)))
        for bi, (bname, head) in enumerate(pbrs):
            same, cross = [], []
            for p in builds[bi]:
                vc = vcommit[pin[p]]
                if b in canc[vc]:
                    (same if cown[vc] == cown[b] else cross).append(p)
            cont = same + cross
            # first builds: no proper ancestor build of the same branch ships it already
            first = [p for p in same if not any(q != p and q in panc[p] for q in cont)]
            got = [tuple(a[1]) for a in rb["at"] if a[0] == bi]
            for p in first:
                if tuple(label(p)) not in got:
                    out.append(("included-at-missing",
                                f"component build {rb['bn']} (commit {b}) is first shipped in {bname} by parent commit {p} "
                                f"{label(p)} pinning {list(pin[p])}, but included_at is {rb['at']}"))
                if (bi, p) not in reported or reported[(bi, p)]["bump"] is None or reported[(bi, p)]["bump"][0] != list(pin[p]):
                    out.append(("bump-build-not-reported",
                                f"parent commit {p} {label(p)} of {bname} moves the pin to {list(pin[p])} across component build "
                                f"{rb['bn']} but is not reported with that bump"))
            for g in set(got):
                ps = [p for p in builds[bi] if tuple(label(p)) == g]
                if not ps:
                    out.append(("included-at-extra", f"component build {rb['bn']} included_at {bname} {list(g)} which is not a build of that branch"))
                    continue
                p = ps[0]
                if p in first or p in cross:
                    continue
                if p not in same:
                    out.append(("included-at-extra", f"component build {rb['bn']} included_at {bname} {list(g)} whose pin {list(pin[p])} does not contain it"))
                    continue
                # shipped earlier by an ancestor build of the same branch.  Classify (only the signature depends on
                # the reported bump; that it IS a violation was decided above from the raw histories):
                earlier = [q for q in cont if q != p and q in panc[p]]
                if any(q in cross for q in earlier):
                    # an earlier build of the branch ships B only through a build of ANOTHER component release branch
                    # whose git history contains B.  The code links RBuilds of one component branch only (see notes:
                    # containment across component release branches), so for it that build does not ship B and this
                    # one is the first (or the pin left B and came back); whether the text counts the cross-branch
                    # build is the same ambiguity: no demand.
                    continue
                rep = reported.get((bi, p))
                fr = rep["bump"][3] if rep is not None and rep["bump"] is not None else []
                below = set()
                stack = [x for f in fr for x in crb_parents.get(f, [])]
                while stack:
                    x = stack.pop()
                    if x not in below:
                        below.add(x)
                        stack.extend(crb_parents.get(x, []))
                between = [q for q in builds[bi] if q != p and q in panc[p] and q not in cont
                           and any(e in panc[q] for e in earlier)]
                if rb["i"] in below:
                    out.append(("included-at-twice-parallel-path",
                                f"component build {rb['bn']} (commit {b}) is included_at {bname} {list(g)} (pin {list(pin[p])}) although the "
                                f"earlier parent build(s) {[label(q) for q in earlier]} of that branch already ship it: it is an ancestor of "
                                f"the previously pinned build and is reached from {list(pin[p])} on a parallel path that by-passes that build"))
                elif between:
                    out.append(("included-at-again-after-pin-left",
                                f"component build {rb['bn']} (commit {b}) is included_at {bname} {list(g)} (pin {list(pin[p])}) although the "
                                f"earlier parent build(s) {[label(q) for q in earlier]} of that branch already ship it; the build(s) "
                                f"{[label(q) for q in between]} in between pin a component version that does not contain it"))
                else:
                    out.append(("included-at-not-first",
                                f"component build {rb['bn']} (commit {b}) is included_at {bname} {list(g)} but parent build(s) "
                                f"{[label(q) for q in earlier]} of that branch ship it earlier"))
    # de-duplicate signatures, keep the first message of each
    seen, res = set(), []
    for sig, msg in out:
        if sig not in seen:
            seen.add(sig)
            res.append((sig, msg))
    return res


def oracle(case, obs):
    if "__hang__" in obs:
        return [("hang", "call did not return")]
    if case["k"] == "order":
        return _oracle_order(case, obs)
    return _oracle_bump(case, obs)


def nontrivial(case, obs):
    if "__hang__" in obs:
        return False
    if case["k"] == "order":
        nodes = set(case["repos"])
        return any(y in nodes for x in nodes for y in case["deps"].get(str(x), []))
    return obs["r"][0] == "ok" and any(r["at"] for g in obs["graphs"] for r in g["crbs"])


def outcome(case, obs):
    if "__hang__" in obs:
        return "hang"
    r = obs["r"]
    if case["k"] == "order":
        return "order:" + (r[0] if r[0] == "ok" else r[1])
    if r[0] != "ok":
        return "bump:" + r[0] + (":" + r[1] if r[0] == "err" else "")
    n = sum(len(x["at"]) for g in obs["graphs"] for x in g["crbs"])
    dom = [in_domain(pc) for pc, _ in pairs(case)]
    return "bump:" + ("domain" if all(dom) else "part-domain" if any(dom) else "wild") + (":registrations" if n else ":none")


def shrink_candidates(case):
    if case["k"] == "order":
        for i in range(len(case["repos"])):
            yield {"k": "order", "repos": case["repos"][:i] + case["repos"][i + 1:], "deps": case["deps"]}
        for k, v in case["deps"].items():
            for i in range(len(v)):
                d = dict(case["deps"])
                d[k] = v[:i] + v[i + 1:]
                yield {"k": "order", "repos": case["repos"], "deps": d}
        return
    # drop a repository nothing pins, a component from a pin list, a commit that nothing refers to (a head-less
    # tip), a branch, or a matching flag
    case = as_multi(case)
    if case.get("disk") is not None:
        yield {k: v for k, v in case.items() if k != "disk"}          # the same collection on the in-memory mock
        if case["disk"] != "gc" and not isinstance(case["disk"], dict):
            yield dict(case, disk="gc")
        for c in shrink_candidates({k: v for k, v in case.items() if k != "disk"}):
            if c.get("k") == "bump" and "repos" in c:
                c = dict(c, disk=case["disk"])
                if isinstance(case["disk"], dict):
                    continue                    # explicit layouts belong to the unshrunk refs
                yield c
        return
    repos = case["repos"]
    pinned = {c for r in repos for c in r.get("comps", [])}
    for i, r in enumerate(repos):
        if r["name"] not in pinned and len(repos) > 2:
            yield {"k": "bump", "repos": repos[:i] + repos[i + 1:]}
    for i, r in enumerate(repos):
        for cname in r.get("comps", []):
            if len(r["comps"]) > 1:
                r2 = dict(r, comps=[c for c in r["comps"] if c != cname])
                yield {"k": "bump", "repos": repos[:i] + [r2] + repos[i + 1:]}
    for ri, spec in enumerate(repos):
        def put(s2):
            return {"k": "bump", "repos": repos[:ri] + [s2] + repos[ri + 1:]}
        used = {p for c in spec["commits"] for p in c["p"]} | {h for _, h in spec["branches"]}
        for i, c in enumerate(spec["commits"]):
            if c["id"] not in used:
                yield put(dict(spec, commits=spec["commits"][:i] + spec["commits"][i + 1:]))
        if len(spec["branches"]) > 1:
            for i in range(len(spec["branches"])):
                yield put(dict(spec, branches=spec["branches"][:i] + spec["branches"][i + 1:]))
        for i, c in enumerate(spec["commits"]):
            if c.get("m"):
                yield put(dict(spec, commits=spec["commits"][:i] + [{**c, "m": 0}] + spec["commits"][i + 1:]))


TECHNIQUE = ("Coq proofs (invariants of the DFS stack machine, induction over graph paths / build chains) on a hand-written "
             "Gallina model + per-run correspondence check (vm_compute vs implementation on generated mock repositories) + "
             "clauses re-read from the source + independent reachability oracle")
LEVEL_TEXT = ("Partial. FULL (unbounded, Coq): repo_order, repo_order_supply, repo_analysis, repo_cycle, repo_order_terminates "
              "(the ordering loop is modelled as the same stack machine; invariant + potential function; for every dependency "
              "table and every duplicate-free supply list); bump_set_exact + bump_set_statement_holds (since the fix d037b67 "
              "get_rbuilds_in_bump returns, for every component build graph, every to-build and EVERY set of from-builds, within "
              "the model's fuel, a duplicate-free list of exactly anc*(to) minus anc*(from); the work-list loop that collects the "
              "excluded builds is modelled with its visited set and proved by invariant + potential: excluded_set), bump_set_none, "
              "included_never_missing (every history), bump_from, bump_reported, bumps_independent_per_component (several "
              "components of one parent: the bump of a component is computed from that component's version map, the commit's "
              "pin of it and the parent builds' bumps of it alone - whatever the other components are, pin or carry; the state "
              "of the per-component loop is created inside the loop body: consts_ok), included_per_component (a component's "
              "included_at lists are the registrations of its own loop), consts_ok + tag_routes_ok (clauses re-read from "
              "the source), tag_build_number / release_tag_pin (a release tag is build M.m.n for every M, m, n - 0 included - "
              "and is found by exactly the pin M.m.n), builds_numbers_complete, build_number_order (BuildNumData.cmp is "
              "lexicographic on numbers, numbers below '?', total). "
              "REFUTED for the current code (known, open finding included-at-again-after-pin-left): included_first_statement "
              "(included_first_refuted, included_first_witness: component 1.1.1 <- {1.1.5 || 1.1.6} <- 1.1.7, pins 1.1.5, 1.1.6, 1.1.7 run "
              "through the whole model; pins grow in build number but not in the ancestor order). The former refutation "
              "bump_set_refuted (finding included-at-twice-parallel-path) is gone: its witness now is the Example "
              "included_first_fixed_ex / bump_set_ex with the exact sets, and the finding is a strict violation if it reappears. "
              "PARTIAL: included_first_partial (registration loop) and included_first_guarded (report of the whole model) - for "
              "every component build graph (parallel sub-branches, merges) and every shape of a parent branch (forks / merges of "
              "reported builds, several branches with distinct names): if the builds of the branch are linked (from-builds of a "
              "bump = to-builds of the parent builds' bumps, every parent build carries a bump) and successive pins are "
              "ancestor-ordered in the component graph, a component build is recorded at a build iff that build's pin contains "
              "it and no ancestor build's pin in the branch does. That the RGraph construction yields linked branches when every "
              "commit pins the component is the local theorem bump_from + the correspondence (0 disagreements on ~2000 quick / "
              "~15500 thorough generated histories: two-repository ones incl. merges, several branches, unbuilt heads, matching "
              "parent commits, and collections of 3-4 repositories with several components per parent, several parents per "
              "component and three levels), not a global theorem; all theorems about bumps and included_at are stated per "
              "component (index cx) of a parent with any number of components; distinct keys / build numbers within a branch are guards. For pins that are not "
              "ancestor-ordered the clause 'first build of each parent branch' is false (open finding) resp. tested only "
              "(independent reachability oracle on the raw histories). ONLY TESTED as well: that the branch heads and the commits "
              "of the build tags the analysis starts from are the ones the repositories' ref files denote (a share of the "
              "collections is read through the library's GitRepo from packed-refs / loose ref files written by the harness; the "
              "reader itself is modelled and proved about in coq/C06/Refs.v, PropsRefs.v, not here).")
LEVEL_NOTE = ("Trusted: Coq kernel + vm_compute; fidelity of the hand model (checked by correspondence, not proved); the mock git "
              "objects; the component's RGraph taken from the implementation as model input.")
DESIGN_REF = "DESIGN.md section 8, C07"
