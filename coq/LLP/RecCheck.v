(* LLP/RecCheck.v -- model of LLParser._verify_grammar_structure_part2 (the
   left-recursion check: explicit stack, symbols visited in name order, a set
   of processed symbols).  No proofs in this file. *)
From Coq Require Import ZArith List Bool.
From AK Require Import Common.Err LLP.Base.
Import ListNotations.

(* stack entry: [symbol, prod_rules, cur_prod_id, cur_symbol_id] *)
Record rframe := mkRF { rf_sym : sym; rf_rules : list rule; rf_pid : nat; rf_sid : nat }.

Definition next_prod (f : rframe) : rframe := mkRF (rf_sym f) (rf_rules f) (S (rf_pid f)) 0.
Definition next_symbol (f : rframe) : rframe := mkRF (rf_sym f) (rf_rules f) (rf_pid f) (S (rf_sid f)).

Inductive rc_state :=
| RC_Run (stack : list rframe) (processed : list sym)      (* head = top *)
| RC_Done (processed : list sym)
| RC_Cycle
| RC_Stuck.

Definition rc_step (g : grammar) (nulls : list sym) (stack : list rframe) (processed : list sym) : rc_state :=
  match stack with
  | [] => RC_Done processed
  | top :: rest =>
      match nth_error (rf_rules top) (rf_pid top) with
      | None =>
          (* cur_prod_id >= len(prod_rules): pop, mark processed, advance the parent *)
          let processed' := add_set (rf_sym top) processed in
          match rest with
          | [] => RC_Run [] processed'
          | par :: rest' =>
              match nth_error (rf_rules par) (rf_pid par) with
              | None => RC_Stuck
              | Some cp =>
                  match nth_error (rprod cp) (rf_sid par) with
                  | None => RC_Stuck
                  | Some cs =>
                      if mem cs nulls then RC_Run (next_symbol par :: rest') processed'
                      else RC_Run (next_prod par :: rest') processed'
                  end
              end
          end
      | Some cur_prod =>
          match nth_error (rprod cur_prod) (rf_sid top) with
          | None => RC_Run (next_prod top :: rest) processed
          | Some cur_symbol =>
              if existsb (fun f => sym_eqb (rf_sym f) cur_symbol) stack then RC_Cycle
              else if mem cur_symbol processed then
                     if mem cur_symbol nulls then RC_Run (next_symbol top :: rest) processed
                     else RC_Run (next_prod top :: rest) processed
              else
                let prev_nullable :=
                  match rf_sid top with
                  | O => true
                  | S k => match nth_error (rprod cur_prod) k with Some p => mem p nulls | None => false end
                  end in
                if negb prev_nullable then RC_Run (next_prod top :: rest) processed
                else RC_Run (mkRF cur_symbol (grules g cur_symbol) 0 0 :: stack) processed
          end
      end
  end.

Fixpoint rc_run (fuel : nat) (g : grammar) (nulls : list sym) (stack : list rframe) (processed : list sym) : rc_state :=
  match fuel with
  | O => RC_Stuck
  | S f =>
      match rc_step g nulls stack processed with
      | RC_Run [] processed' => RC_Done processed'
      | RC_Run st processed' => rc_run f g nulls st processed'
      | other => other
      end
  end.

(* number of DFS steps is bounded by (symbol occurrences + productions + symbols) * 2 *)
Definition rc_fuel (g : grammar) : nat :=
  fold_left (fun (a : nat) (kv : sym * list rule) =>
               fold_left (fun (a : nat) (r : rule) => (a + 2 * length (rprod r) + 4)%nat) (snd kv) (a + 4)%nat) g 8%nat.

(* for symbol, prod_rules in sorted(self.prods_map.items()) *)
Fixpoint rc_outer (g : grammar) (nulls : list sym) (order : list sym) (processed : list sym) : res unit :=
  match order with
  | [] => Ok tt
  | s :: rest =>
      if mem s processed then rc_outer g nulls rest processed
      else match rc_run (rc_fuel g) g nulls [mkRF s (grules g s) 0 0] processed with
           | RC_Done processed' => rc_outer g nulls rest processed'
           | RC_Cycle => Err GrammarRec
           | _ => Err Hang
           end
  end.

Definition rec_check (g : grammar) (terminals_with_end nulls : list sym) : res unit :=
  rc_outer g nulls (sort_syms (gkeys g)) terminals_with_end.
