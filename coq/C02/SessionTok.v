(* C02/SessionTok.v -- the programs of C02/Session.v on parsers that are built WITH A
   TOKENIZER CONFIGURATION and used on TEXTS: the property's "token sequence" is then
   what the tokenizer delivers minus the tokens named in skip_tokens, and the skip set
   is part of what the constructor is given:

     LLParser(tokenizer_str, productions=D, synonyms=.., keywords=.., skip_tokens=SKIP,
              start_symbol_name=start, smart_factorization=w)

   SKIP = None : SPACE and COMMENT as far as they are token names of the configuration;
   SKIP = Some l : exactly l -- also when l is EMPTY ("skip nothing": white space and
   comments are ordinary terminals of the grammar then).

   The constructor with a configuration, the tokens of a text and parse(text) are the
   end-to-end model of C01 ([C01.RunTok.build_cfg], [text_tokens], [parse_text]; tokenizer
   = C04/Model.v); they are used here read-only, by qualified names.
   No proofs in this file. *)
From Coq Require Import ZArith List Bool.
From AK Require Export LLP.Build C02.Model C02.Session.
From AK Require gen.C04_Consts C04.Model C01.RunTok.
Import ListNotations.

Notation lexcfg := C04.Model.lexcfg.

(* short names for the generated cases *)
Definition tk_cfg := C04.Model.mkCfg.
Definition TLit := C04.Model.PLit.
Definition TRange := C04.Model.PRange.
Definition TSpace := C04.Model.PSpace.
Definition TEol := C04.Model.PEol.
Definition TQuoted := C04.Model.PQuoted.

(* self.skip_tokens of a parser built with skip_tokens=skip *)
Definition t_skipset (cfg : lexcfg) (skip : option (list sym)) : list sym :=
  C01.RunTok.skip_set (C04.Model.cfg_terminals cfg) skip.

(* the token sequence of a text: what the tokenizer delivers minus the skipped tokens, $END$ last *)
Definition t_tokens (cfg : lexcfg) (skip : option (list sym)) (text : list Z) : res (list token) :=
  C01.RunTok.text_tokens cfg (t_skipset cfg skip) text.

(* LLParser.parse(text, do_cleanup=False, start_symbol_name=s) of a parser built with (cfg, skip) *)
Definition t_parse (cfg : lexcfg) (skip : option (list sym)) (p : parser) (fuel : nat)
    (text : list Z) (s : option sym) : res tree :=
  C01.RunTok.parse_text cfg (t_skipset cfg skip) p fuel text s.

(* the method in state-passing style: the parser it was given, and the result *)
Definition mt_parse (cfg : lexcfg) (skip : option (list sym)) (p : parser) (fuel : nat)
    (text : list Z) (s : option sym) : parser * res tree :=
  (p, t_parse cfg skip p fuel text s).

Section SessionTok.
  Variable cfg : lexcfg.
  Variable skip : option (list sym).
  Variable ug : list (sym * list (list sym)).     (* the productions dict (shared by all constructor calls) *)
  Variable start : sym.
  Variable fuel : nat.
  Variable texts : list (list Z).

  Definition t_build (w : bool) : res parser := C01.RunTok.build_cfg cfg skip ug w start.

  Definition do_op_t (W : world) (o : op) : world * obs :=
    match o with
    | OBuild w =>
        match t_build w with
        | Ok p => (set_obj W w (Some p), BBuilt None)
        | Err e => (set_obj W w None, BBuilt (Some e))
        end
    | OAmb w =>
        match get_obj W w with
        | Some p => let '(p', b) := m_is_ambiguous p in (set_obj W w (Some p'), BAmb b)
        | None => (W, BNone)
        end
    | OParse w i =>
        match get_obj W w, nth_error texts i with
        | Some p, Some tx =>
            let '(p', r) := mt_parse cfg skip p fuel tx None in (set_obj W w (Some p'), BParse r)
        | _, _ => (W, BNone)
        end
    | OParseFrom w i s =>
        match get_obj W w, nth_error texts i with
        | Some p, Some tx =>
            let '(p', r) := mt_parse cfg skip p fuel tx (Some s) in (set_obj W w (Some p'), BParse r)
        | _, _ => (W, BNone)
        end
    end.

  Fixpoint session_t (W : world) (ops : list op) : list obs :=
    match ops with
    | [] => []
    | o :: r => let '(W', b) := do_op_t W o in b :: session_t W' r
    end.

  Fixpoint final_world_t (W : world) (ops : list op) : world :=
    match ops with
    | [] => W
    | o :: r => final_world_t (fst (do_op_t W o)) r
    end.

  (* both in one pass (what C02.Run evaluates; LemTok.session_t_w_eq) *)
  Fixpoint session_t_w (W : world) (ops : list op) : list obs * world :=
    match ops with
    | [] => ([], W)
    | o :: r => let '(W', b) := do_op_t W o in
                let '(bs, Wf) := session_t_w W' r in (b :: bs, Wf)
    end.

  (* the same call on objects that have just been constructed and never used *)
  Definition fresh_obj_t (w : bool) : option parser :=
    match t_build w with Ok p => Some p | Err _ => None end.
  Definition fresh_world_t : world := mkWorld (fresh_obj_t false) (fresh_obj_t true).
  Definition fresh_obs_t (o : op) : obs := snd (do_op_t fresh_world_t o).

  Definition slot_ok_t (W : world) (w : bool) : Prop :=
    get_obj W w = None \/ get_obj W w = fresh_obj_t w.
  Definition world_ok_t (W : world) : Prop := slot_ok_t W false /\ slot_ok_t W true.
End SessionTok.
