(* C17/Codec.v -- string helpers used by the model of ak/conn_http.py:
   str = list of code points, bytes = list of byte values (both [list Z]).
   utf-8 encoding, base64 (b64encode / b64decode), urllib.parse.urlencode for
   str->str mappings (quote_plus, safe=''), ASCII upper / capitalize.
   No proofs in this file (see Lemmas.v for the round-trip theorems). *)
From Coq Require Import ZArith List Bool.
Import ListNotations.
Open Scope Z_scope.

Notation str := (list Z).

Fixpoint str_eqb (a b : str) : bool :=
  match a, b with
  | [], [] => true
  | x :: a', y :: b' => (x =? y) && str_eqb a' b'
  | _, _ => false
  end.

(* ---- utf-8 (str.encode('utf-8')); surrogates are outside the domain ---- *)
Definition utf8_char (c : Z) : list Z :=
  if c <? 128 then [c]
  else if c <? 2048 then [192 + c / 64; 128 + c mod 64]
  else if c <? 65536 then [224 + c / 4096; 128 + (c / 64) mod 64; 128 + c mod 64]
  else [240 + c / 262144; 128 + (c / 4096) mod 64; 128 + (c / 64) mod 64; 128 + c mod 64].

Definition utf8 (s : str) : list Z := flat_map utf8_char s.

(* bytes.decode('utf-8') restricted to what utf8 produces (None = malformed) *)
Fixpoint utf8_dec (fuel : nat) (l : list Z) : option str :=
  match fuel with
  | O => match l with [] => Some [] | _ => None end
  | S f =>
    match l with
    | [] => Some []
    | a :: r =>
      if a <? 128 then option_map (cons a) (utf8_dec f r)
      else if a <? 224 then
        match r with
        | b :: r' => option_map (cons ((a - 192) * 64 + (b - 128))) (utf8_dec f r')
        | _ => None
        end
      else if a <? 240 then
        match r with
        | b :: c :: r' => option_map (cons ((a - 224) * 4096 + (b - 128) * 64 + (c - 128))) (utf8_dec f r')
        | _ => None
        end
      else
        match r with
        | b :: c :: d :: r' =>
            option_map (cons ((a - 240) * 262144 + (b - 128) * 4096 + (c - 128) * 64 + (d - 128))) (utf8_dec f r')
        | _ => None
        end
    end
  end.
Definition utf8_decode (l : list Z) : option str := utf8_dec (length l) l.

(* ---- base64 ---- *)
Definition b64_alphabet : list Z :=
  map Z.of_nat (seq 65 26 ++ seq 97 26 ++ seq 48 10) ++ [43; 47].
Definition b64c (i : Z) : Z := nth (Z.to_nat i) b64_alphabet 0.

Fixpoint b64 (l : list Z) : list Z :=
  match l with
  | a :: b :: c :: r =>
      let n := a * 65536 + b * 256 + c in
      b64c (n / 262144) :: b64c ((n / 4096) mod 64) :: b64c ((n / 64) mod 64) :: b64c (n mod 64) :: b64 r
  | [a; b] =>
      let n := a * 65536 + b * 256 in
      [b64c (n / 262144); b64c ((n / 4096) mod 64); b64c ((n / 64) mod 64); 61]
  | [a] =>
      let n := a * 65536 in
      [b64c (n / 262144); b64c ((n / 4096) mod 64); 61; 61]
  | [] => []
  end.

(* position in the alphabet (0 for foreign characters) *)
Fixpoint index_in (c : Z) (l : list Z) (pos : Z) : Z :=
  match l with
  | [] => 0
  | x :: r => if x =? c then pos else index_in c r (pos + 1)
  end.
Definition b64i (c : Z) : Z := index_in c b64_alphabet 0.

Fixpoint b64_dec (l : list Z) : list Z :=
  match l with
  | c1 :: c2 :: c3 :: c4 :: r =>
      if c3 =? 61 then
        let n := b64i c1 * 262144 + b64i c2 * 4096 in [n / 65536]
      else if c4 =? 61 then
        let n := b64i c1 * 262144 + b64i c2 * 4096 + b64i c3 * 64 in [n / 65536; (n / 256) mod 256]
      else
        let n := b64i c1 * 262144 + b64i c2 * 4096 + b64i c3 * 64 + b64i c4 in
        (n / 65536) :: ((n / 256) mod 256) :: (n mod 256) :: b64_dec r
  | _ => []
  end.

(* ---- urllib.parse.urlencode(mapping of str -> str) ---- *)
Definition hexd (d : Z) : Z := if d <? 10 then 48 + d else 55 + d.      (* upper case *)
Definition is_alnum (b : Z) : bool :=
  ((48 <=? b) && (b <=? 57)) || ((65 <=? b) && (b <=? 90)) || ((97 <=? b) && (b <=? 122)).
Definition quote_byte (b : Z) : list Z :=
  if is_alnum b || (b =? 95) || (b =? 46) || (b =? 45) || (b =? 126) then [b]
  else if b =? 32 then [43]
  else [37; hexd (b / 16); hexd (b mod 16)].
Definition quote_plus (s : str) : str := flat_map quote_byte (utf8 s).

Fixpoint urlencode (p : list (str * str)) : str :=
  match p with
  | [] => []
  | [(k, v)] => quote_plus k ++ [61] ++ quote_plus v
  | (k, v) :: r => quote_plus k ++ [61] ++ quote_plus v ++ [38] ++ urlencode r
  end.

(* ---- ASCII case mapping (header names and methods are ASCII here) ---- *)
Definition up (c : Z) : Z := if (97 <=? c) && (c <=? 122) then c - 32 else c.
Definition low (c : Z) : Z := if (65 <=? c) && (c <=? 90) then c + 32 else c.
Definition upper (s : str) : str := map up s.
Definition capitalize (s : str) : str :=
  match s with [] => [] | c :: r => up c :: map low r end.

Definition starts_with (c : Z) (s : str) : bool :=
  match s with x :: _ => x =? c | [] => false end.
Definition ends_with (c : Z) (s : str) : bool :=
  match rev s with x :: _ => x =? c | [] => false end.
Definition nonempty {A} (l : list A) : bool := match l with [] => false | _ => true end.
