(* C01/RunTok.v -- correspondence entry point of C01 (extends C01/Run.v):
   LLParser.parse on a TEXT, end to end: the tokenizer (C04/Model.v: pattern
   alternatives, span tokens, synonyms, keywords), the skip_tokens filter of
   parse() (llparser.py 1646-1649) and the main loop (LLP/Parse.v); the optional
   per-call start symbol (1646-1653); sessions: one parser object used for a
   sequence of parse() calls, a second parser made from the same productions;
   then the caller changes the objects it had passed to the constructor IN PLACE
   (skip_tokens container, productions dict and its lists, span_matchers,
   keep_symbols; synonyms / keywords dicts) and both parsers run further calls.
   The model is a pure function, so it has no state between calls and a parser
   value cannot change after it was built: whatever the implementation keeps
   between calls, and whatever the caller does to the argument objects later,
   must not be observable.  Up to /repo f245e65 the synonyms / keywords dicts were
   an exception: _Tokenizer.__init__ stored the caller's own dict (self.synonyms =
   synonyms or {}) and the tokenizer read it at every match (finding
   constructor-argument-objects, fixed).  gen/C01_Consts.v records, from the
   current source, whether each of the two is stored as it is or copied, and the
   model stays faithful to the source: the calls made after the change tokenise
   with the changed dict exactly when it is stored as it is (the terminals, the
   skip set and the parse table stay the constructor's).  That the changed dict
   is never used is the theorem later_dict_changes_do_not_reach_the_parser
   (C01/PropsTok.v), which checks only while both constants are false.
   No proofs in this file. *)
From Coq Require Import ZArith List Bool.
From AK Require Export Common.Sx Common.Err LLP.Build C01.Spec C01.Run gen.C04_Consts gen.C01_Consts C04.Model.
Import ListNotations.
Open Scope Z_scope.

(* LLParser.__init__: skip_tokens=None means SPACE and COMMENT when they are terminals *)
Definition skip_set (terminals : list sym) (skip : option (list sym)) : list sym :=
  match skip with
  | Some l => l
  | None => filter (fun s => mem s terminals) default_skip
  end.

(* the constructor with a tokenizer configuration: terminals = get_all_token_names();
   assertion on the terminals' names, then GrammarError for unknown skip tokens, then
   the pipeline of LLP/Build.v *)
Definition build_cfg (cfg : lexcfg) (skip : option (list sym))
    (ug : list (sym * list (list sym))) (smart : bool) (start : sym) : res parser :=
  let terminals := cfg_terminals cfg in
  if existsb has_dunder terminals then Err AssertErr else
  if negb (subset (skip_set terminals skip) terminals) then Err OtherErr else
  build ug terminals smart start.

(* parse(text, start_symbol_name=s): the two assertions in the order of the code (1646-1651, the second one
   since /repo 2909322):  s in self.prods_map , then  '__' not in s  (both AssertionError);
   None = the constructor's start symbol *)
Definition start_ok (p : parser) (s : sym) : bool :=
  if mem s (gkeys (p_grammar p)) then negb (has_dunder s) else false.

Definition parse_at (p : parser) (fuel : nat) (toks : list token) (s : option sym) : res tree :=
  match s with
  | None => p_parse p fuel toks
  | Some s =>
      if start_ok p s
      then parse (fun x => mem x (p_terminals p)) (table_get (p_tables p)) (p_sfxs p) toks fuel s
      else Err AssertErr
  end.

(* the non-skipped tokens of a text ($END$ last) *)
Definition text_tokens (cfg : lexcfg) (skip : list sym) (text : list Z) : res (list token) :=
  match cfg_tokenize cfg (tok_lines (IStr text)) with
  | LOk toks => Ok (drop_skipped skip toks)
  | LErr _ _ _ => Err LexicalErr
  | LHang => Err Hang
  end.

(* LLParser.parse(text, do_cleanup=False, start_symbol_name=s) *)
Definition parse_text (cfg : lexcfg) (skip : list sym) (p : parser) (fuel : nat) (text : list Z)
    (s : option sym) : res tree :=
  match s with
  | Some s' => if start_ok p s' then
                 bind (text_tokens cfg skip text) (fun toks => parse_at p fuel toks s)
               else Err AssertErr
  | None => bind (text_tokens cfg skip text) (fun toks => parse_at p fuel toks s)
  end.

(* ---------------------------------------------------------------- sessions *)
Inductive source :=
| SToks (l : list (sym * list Z))     (* plain tokenizer of the harness: the generator's token list *)
| SText (s : list Z).                 (* a text, tokenised by the modelled tokenizer *)

Notation call := (nat * option sym)%type.     (* index of the text, start_symbol_name *)

(* The caller extends (or shrinks) ITS skip_tokens container, possibly empties its span_matchers dict, and makes one
   more parser from the same argument objects, uses it, then changes the productions / synonyms / keywords objects:
   (configuration of the new parser; token names it skips in addition when the session has the plain tokenizer;
   smart; start; its calls before, and its calls after, the last changes) *)
Notation third_parser :=
  (option (lexcfg * option (list sym)) * list sym * bool * sym * list call * list call)%type.

Inductive case :=
| Old (c : Run.case)
| Session (tk : option (lexcfg * option (list sym)))
          (ug : list (sym * list (list sym))) (terminals : list sym)   (* terminals: used when tk = None *)
          (smart : bool) (start : sym) (fuel : nat)
          (texts : list source) (calls : list call)
          (second : option (bool * sym * list call))
          (cfg2 : option lexcfg)          (* synonyms / keywords after the caller changed these dicts in place (None: untouched) *)
          (after after2 : list call)      (* calls made on the first / second parser after the caller changed the argument objects *)
          (third : option third_parser)   (* a parser the caller makes from its skip_tokens / span_matchers objects after changing them *)
          (expected : sx).     (* the canonical observation of the implementation; compared here (see [run]) *)

Definition s_terminals (tk : option (lexcfg * option (list sym))) (terminals : list sym) : list sym :=
  match tk with Some (cfg, _) => cfg_terminals cfg | None => terminals end.

Definition s_build (tk : option (lexcfg * option (list sym))) ug terminals smart start : res parser :=
  match tk with
  | Some (cfg, skip) => build_cfg cfg skip ug smart start
  | None => build ug terminals smart start
  end.

Definition s_tokens (tk : option (lexcfg * option (list sym))) (src : source) : res (list token) :=
  match src, tk with
  | SToks l, _ => Ok (mk_toks l)
  | SText s, Some (cfg, skip) => text_tokens cfg (skip_set (cfg_terminals cfg) skip) s
  | SText _, None => Err OtherErr
  end.

Definition s_call_with (tokf : source -> res (list token)) (p : parser) (fuel : nat)
    (texts : list source) (c : call) : res tree :=
  match nth_error texts (fst c) with
  | None => Err OtherErr
  | Some src =>
      match snd c with
      | Some s' => if start_ok p s' then
                     bind (tokf src) (fun toks => parse_at p fuel toks (snd c))
                   else Err AssertErr
      | None => bind (tokf src) (fun toks => parse_at p fuel toks None)
      end
  end.

Definition s_call (tk : option (lexcfg * option (list sym))) := s_call_with (s_tokens tk).

(* the tokenizer configuration in force after the caller changed its synonyms / keywords dicts in place:
   the changed table where the tokenizer kept the caller's object ([syn_aliased] / [kw_aliased], read from the
   source), the constructor's where it made a copy; patterns and span matchers were compiled by the constructor *)
Definition cfg_after (cfg : lexcfg) (cfg2 : option lexcfg) : lexcfg :=
  match cfg2 with
  | None => cfg
  | Some c2 => mkCfg (c_lex cfg) (c_spans cfg)
                     (if syn_aliased then c_syn c2 else c_syn cfg)
                     (if kw_aliased then c_kw c2 else c_kw cfg)
  end.

(* the skip set is the one the constructor computed (from the terminals of the configuration it was given) *)
Definition s_tokens_after (tk : option (lexcfg * option (list sym))) (cfg2 : option lexcfg) (src : source)
    : res (list token) :=
  match src, tk with
  | SToks l, _ => Ok (mk_toks l)
  | SText s, Some (cfg, skip) => text_tokens (cfg_after cfg cfg2) (skip_set (cfg_terminals cfg) skip) s
  | SText _, None => Err OtherErr
  end.

(* the tokens the third parser gets; [cfg2] = None before the synonyms / keywords dicts were changed *)
Definition s_tokens3 (tk3 : option (lexcfg * option (list sym))) (xskip : list sym) (cfg2 : option lexcfg)
    (src : source) : res (list token) :=
  match src, tk3 with
  | SToks l, _ => Ok (mk_toks (filter (fun nv => negb (mem (fst nv) xskip)) l))
  | SText s, Some (cfg, skip) =>
      text_tokens (match cfg2 with None => cfg | Some _ => cfg_after cfg cfg2 end) (skip_set (cfg_terminals cfg) skip) s
  | SText _, None => Err OtherErr
  end.

(* what the tokenizer + filter deliver for a text: names and values, without $END$ *)
Definition sx_tokens (r : res (list token)) : sx :=
  sx_res (fun toks => SL (map (fun t => SL [sx_str (tname t); sx_str (tvalue t)]) (removelast toks))) r.

(* [expected] is what the implementation did on the same case.  The comparison is made here and only
   its outcome is printed: () when the model's observation is identical, otherwise
   (-1 path model-part implementation-part) for the first difference (printing the whole observations
   of a shard overflows coqc's stack). *)
Fixpoint sx_diff (a b : sx) : option (list Z * sx * sx) :=
  match a, b with
  | SZ x, SZ y => if x =? y then None else Some ([], a, b)
  | SL l, SL m =>
      (fix go (i : Z) (l m : list sx) : option (list Z * sx * sx) :=
         match l, m with
         | [], [] => None
         | x :: l', y :: m' =>
             match sx_diff x y with
             | Some (p, u, v) => Some (i :: p, u, v)
             | None => go (i + 1) l' m'
             end
         | _, _ => Some ([i], SL l, SL m)
         end) 0 l m
  | _, _ => Some ([], a, b)
  end.

Fixpoint sx_trunc (depth : nat) (s : sx) : sx :=
  match depth with
  | O => SL []
  | S d => match s with
           | SZ _ => s
           | SL l => SL (map (sx_trunc d) (firstn 12 l))
           end
  end.

Definition observe tk ug terminals smart start fuel texts calls
    (second : option (bool * sym * list call)) (cfg2 : option lexcfg) (after after2 : list call)
    (third : option third_parser) : sx :=
  match s_build tk ug terminals smart start with
  | Err e => SL [SZ 1; SZ (err_code e)]
  | Ok p =>
      let changed := match after, after2, third with [], [], None => false | _, _, _ => true end in
      (* the second parser: its observation before, and its calls after, the caller changed the argument objects *)
      let sec :=
        match second with
        | None => (SL [], SL [])
        | Some (smart2, start2, calls2) =>
            match s_build tk ug terminals smart2 start2 with
            | Err e => (SL [SZ 1; SZ (err_code e)], SL [])
            | Ok p2 =>
                (SL [SZ 0; sx_bool (is_ambiguous (p_tables p2));
                     SL (map (fun c => sx_res sx_tree (s_call tk p2 fuel texts c)) calls2);
                     sx_bool (is_ambiguous (p_tables p2))],
                 SL (map (fun c => sx_res sx_tree (s_call_with (s_tokens_after tk cfg2) p2 fuel texts c)) after2))
            end
        end in
      let thd :=
        match third with
        | None => SL []
        | Some (tk3, xskip, smart3, start3, calls3, after3) =>
            match s_build tk3 ug terminals smart3 start3 with
            | Err e => SL [SZ 1; SZ (err_code e)]
            | Ok p3 =>
                SL [SZ 0; sx_bool (is_ambiguous (p_tables p3));
                    SL (map (fun c => sx_res sx_tree (s_call_with (s_tokens3 tk3 xskip None) p3 fuel texts c)) calls3);
                    SL (map (fun c => sx_res sx_tree
                               (s_call_with (s_tokens3 tk3 xskip (match cfg2 with None => None | Some _ => cfg2 end)) p3 fuel texts c))
                            after3)]
            end
        end in
      SL [SZ 0; sx_bool (is_ambiguous (p_tables p));
          sx_bool (hyps_ok ug start p);
          SL (map (fun src => sx_tokens (s_tokens tk src)) texts);
          SL (map (fun c => sx_res sx_tree (s_call tk p fuel texts c)) calls);
          sx_bool (is_ambiguous (p_tables p));       (* is_ambiguous() asked again after the calls: no history *)
          fst sec;
          sx_bool true;      (* the constructor and parse() left every argument object as the caller made it *)
          (* after the caller changed the argument objects in place: the tokens of every text, the further calls *)
          (if changed then SL (map (fun src => sx_tokens (s_tokens_after tk cfg2 src)) texts) else SL []);
          SL (map (fun c => sx_res sx_tree (s_call_with (s_tokens_after tk cfg2) p fuel texts c)) after);
          snd sec;
          thd]
  end.

Definition run (c : case) : sx :=
  match c with
  | Old c => Run.run c
  | Session tk ug terminals smart start fuel texts calls second cfg2 after after2 third expected =>
      match sx_diff (observe tk ug terminals smart start fuel texts calls second cfg2 after after2 third) expected with
      | None => SL []
      | Some (p, u, v) => SL [SZ (-1); SL (map SZ p); sx_trunc 5 u; sx_trunc 5 v]
      end
  end.
