(* C18/LemmasText.v -- the character-level meaning of the text converters (round 4).
   CellList._make_value:  [item.strip() for item in v.replace('\n', ',').split(',')], empty items dropped.
   [Model.split_commas] walks the code points; here: what it computes, without the accumulator:
   the pieces are the MAXIMAL runs of code points that are neither ',' (44) nor '\n' (10) -- no other
   code point (VT, FF, FS, GS, RS, NEL, LS, PS, CR: the further boundaries of str.splitlines()) ends a piece. *)
From Coq Require Import ZArith List Bool Lia.
From AK Require Import Common.Err C18.Base gen.C18_Consts C18.Model.
Import ListNotations.
Open Scope Z_scope.

(* the two separators of a list cell *)
Definition is_sep (c : Z) : bool := (c =? 44) || (c =? 10).

(* pieces joined again, each separator put back where it was *)
Fixpoint join_with (pieces : list str) (seps : list Z) : str :=
  match pieces, seps with
  | [], _ => []
  | p :: ps, [] => p ++ concat ps
  | p :: ps, c :: cs => p ++ c :: join_with ps cs
  end.

Lemma split_commas_acc : forall s cur,
  split_commas s cur =
  match split_commas s [] with
  | h :: t => (rev cur ++ h) :: t
  | [] => []
  end.
Proof.
  induction s as [|c r IH]; intros cur; simpl.
  - now rewrite app_nil_r.
  - destruct ((c =? 44) || (c =? 10)).
    + now rewrite app_nil_r.
    + rewrite (IH (c :: cur)), (IH [c]). destruct (split_commas r []) as [|h t]; [reflexivity|].
      simpl. now rewrite <- app_assoc.
Qed.

Lemma split_commas_nonempty : forall s cur, split_commas s cur <> [].
Proof.
  induction s as [|c r IH]; intros cur; simpl; [discriminate|].
  destruct ((c =? 44) || (c =? 10)); [discriminate|apply IH].
Qed.

(* the recursive reading: a separator closes the (empty so far) piece, any other code point joins the first piece *)
Lemma split_commas_cons : forall c r,
  split_commas (c :: r) [] =
  if is_sep c then [] :: split_commas r []
  else match split_commas r [] with h :: t => (c :: h) :: t | [] => [] end.
Proof.
  intros c r. unfold is_sep. simpl. destruct ((c =? 44) || (c =? 10)); [reflexivity|].
  now rewrite split_commas_acc.
Qed.

Lemma list_cell_split_runs : forall s,
  let pieces := split_commas s [] in
  Forall (fun p => forallb (fun c => negb (is_sep c)) p = true) pieces /\
  length pieces = S (length (filter is_sep s)) /\
  join_with pieces (filter is_sep s) = s.
Proof.
  induction s as [|c r IH]; cbv zeta.
  - simpl. repeat split. constructor; [reflexivity|constructor].
  - cbv zeta in IH. destruct IH as (Hf & Hl & Hj).
    rewrite split_commas_cons. simpl filter. destruct (is_sep c) eqn:Hc.
    + repeat split.
      * constructor; [reflexivity|exact Hf].
      * simpl. now rewrite Hl.
      * simpl. now rewrite Hj.
    + destruct (split_commas r []) as [|h t] eqn:Hs; [now apply split_commas_nonempty in Hs|].
      repeat split.
      * inversion Hf; subst. constructor; [|assumption]. simpl. now rewrite Hc.
      * exact Hl.
      * destruct (filter is_sep r) as [|x xs]; simpl in *; now rewrite Hj.
Qed.

(* uniqueness: pieces without separators + one more piece than separators + joining gives s back => these ARE the pieces *)
Lemma join_with_unique : forall s pieces,
  Forall (fun p => forallb (fun c => negb (is_sep c)) p = true) pieces ->
  length pieces = S (length (filter is_sep s)) ->
  join_with pieces (filter is_sep s) = s ->
  pieces = split_commas s [].
Proof.
  induction s as [|c r IH]; intros pieces Hf Hl Hj.
  - simpl in *. destruct pieces as [|p [|q ps]]; try discriminate.
    simpl in Hj. rewrite app_nil_r in Hj. now subst.
  - rewrite split_commas_cons. simpl filter in *. destruct (is_sep c) eqn:Hc.
    + destruct pieces as [|p ps]; [discriminate|]. simpl in Hl, Hj.
      inversion Hf as [|? ? Hp Hps]; subst.
      destruct p as [|x p'].
      * simpl in Hj. injection Hj as Hj. f_equal. apply IH; [assumption|lia|assumption].
      * simpl in Hj. injection Hj as Hx _. subst x. simpl in Hp. now rewrite Hc in Hp.
    + destruct pieces as [|p ps]; [discriminate|].
      inversion Hf as [|? ? Hp Hps]; subst.
      destruct p as [|x p'].
      * (* the first piece is empty: then s starts with a separator or is the concat of empty ... *)
        exfalso. simpl in Hl. destruct (filter is_sep r) as [|y ys] eqn:Hfr.
        -- simpl in Hl. destruct ps; [|discriminate]. simpl in Hj. discriminate.
        -- simpl in Hj. injection Hj as Hy _. subst y.
           assert (In c (filter is_sep r)) as Hin by (rewrite Hfr; now left).
           apply filter_In in Hin. destruct Hin as [_ Hin]. congruence.
      * assert (x = c /\ join_with (p' :: ps) (filter is_sep r) = r) as [Hx Hr].
        { destruct (filter is_sep r); simpl in Hj |- *; injection Hj as Hx Hr; now split. }
        subst x. simpl in Hp. rewrite Hc in Hp. simpl in Hp.
        rewrite <- (IH (p' :: ps)); [reflexivity| |exact Hl|exact Hr].
        constructor; assumption.
Qed.

(* list_cell_split_spec: the value of a list cell with text s is exactly: the pieces of s between the ','/'\n'
   code points (maximal runs free of both: they contain neither, there is one more piece than separators, and with the
   separators put back they are s), each stripped of str.isspace code points at both ends, the empty ones dropped --
   and this determines the pieces uniquely. *)
Lemma list_cell_split_spec : forall s,
  list_items s = filter (fun x => negb (is_nil x)) (map strip (split_commas s [])) /\
  (forall pieces,
     pieces = split_commas s [] <->
     (Forall (fun p => forallb (fun c => negb (is_sep c)) p = true) pieces /\
      length pieces = S (length (filter is_sep s)) /\
      join_with pieces (filter is_sep s) = s)).
Proof.
  intros s. split; [reflexivity|]. intros pieces. split.
  - intros ->. apply list_cell_split_runs.
  - intros (Hf & Hl & Hj). now apply join_with_unique.
Qed.

(* a code point that is not a separator never splits: the text a ++ [c] ++ b without separators is ONE piece *)
Lemma no_sep_one_piece : forall s,
  forallb (fun c => negb (is_sep c)) s = true -> split_commas s [] = [s].
Proof.
  induction s as [|c r IH]; intros H; [reflexivity|].
  simpl in H. apply andb_true_iff in H. destruct H as [Hc Hr].
  rewrite split_commas_cons. apply negb_true_iff in Hc. rewrite Hc, (IH Hr). reflexivity.
Qed.

(* strip removes exactly the leading and trailing str.isspace code points *)
Lemma lstrip_spec : forall s, exists pre,
  s = pre ++ lstrip s /\ forallb is_space pre = true /\
  match lstrip s with [] => True | c :: _ => is_space c = false end.
Proof.
  induction s as [|c r IH]; [exists []; now simpl|].
  simpl. destruct (is_space c) eqn:Hc.
  - destruct IH as (pre & He & Hp & Hh). exists (c :: pre). simpl. rewrite Hc, Hp. repeat split; [now f_equal|assumption].
  - exists []. simpl. now rewrite Hc.
Qed.

Lemma strip_spec : forall s, exists pre post,
  s = pre ++ strip s ++ post /\ forallb is_space pre = true /\ forallb is_space post = true /\
  match strip s with [] => True | c :: _ => is_space c = false end /\
  match rev (strip s) with [] => True | c :: _ => is_space c = false end.
Proof.
  intros s. unfold strip.
  destruct (lstrip_spec s) as (pre & He & Hp & Hh).
  destruct (lstrip_spec (rev (lstrip s))) as (rpost & He2 & Hp2 & Hh2).
  exists pre, (rev rpost). rewrite rev_involutive.
  assert (lstrip s = rev (lstrip (rev (lstrip s))) ++ rev rpost) as Hm.
  { rewrite <- rev_app_distr, <- He2. now rewrite rev_involutive. }
  repeat split.
  - now rewrite <- Hm.
  - exact Hp.
  - rewrite forallb_forall in *. intros x Hx. apply Hp2. now apply in_rev.
  - destruct (rev (lstrip (rev (lstrip s)))) as [|c t] eqn:Hr; [exact I|].
    rewrite Hm in Hh. simpl in Hh. exact Hh.
  - exact Hh2.
Qed.
