(* C01/FactSmart4.v -- the invariant of the 'smart' undo pass and factorize_ok. *)
From Coq Require Import ZArith List Bool Lia Permutation Sorted.
From AK Require Import Common.Err LLP.Base LLP.Factor C01.Basics C01.Spec C01.FactExp C01.FactProps C01.FactAll
  C01.FactSmart1 C01.FactSmart2 C01.FactSmart3.
Import ListNotations.
Local Open Scope nat_scope.

Lemma NoDup_app_l : forall A (a b : list A), NoDup (a ++ b) -> NoDup a.
Proof.
  intros A. induction a as [|x a IH]; intros b H; [constructor|].
  cbn in H. inversion H as [|? ? Hn Hnd]; subst. constructor.
  - intro Hx. apply Hn. apply in_or_app. now left.
  - eapply IH; eassumption.
Qed.

Lemma NoDup_app_r : forall A (a b : list A), NoDup (a ++ b) -> NoDup b.
Proof.
  intros A. induction a as [|x a IH]; intros b H; [assumption|].
  cbn in H. inversion H; subst. now apply IH.
Qed.

Lemma NoDup_app_disj : forall A (a b : list A) x, NoDup (a ++ b) -> In x a -> In x b -> False.
Proof.
  intros A. induction a as [|y a IH]; intros b x H Ha Hb; [contradiction|].
  cbn in H. inversion H as [|? ? Hn Hnd]; subst. destruct Ha as [->|Ha].
  - apply Hn. apply in_or_app. now right.
  - eapply IH; eassumption.
Qed.

Lemma tail1_cons_front : forall SS a p, mem a SS = false ->
  tail1 SS (mkRule [] (a :: p) 0) = tail1 SS (mkRule [] p 0).
Proof.
  intros SS a p Ha. unfold tail1. cbn [rprod]. destruct p as [|s0 p0].
  - cbn [last]. now rewrite Ha.
  - reflexivity.
Qed.

Lemma only_last_cons : forall SS a p, mem a SS = false -> only_last_sfx SS p = true -> only_last_sfx SS (a :: p) = true.
Proof.
  intros SS a p Ha Hp. unfold only_last_sfx in *. destruct p as [|s0 p0]; [reflexivity|].
  change (removelast (a :: s0 :: p0)) with (a :: removelast (s0 :: p0)).
  cbn [forallb]. now rewrite Ha, Hp.
Qed.

Lemma only_last_pair : forall SS a b, only_last_sfx SS [a; b] = true -> mem a SS = false.
Proof. intros SS a b H. unfold only_last_sfx in H. cbn in H. rewrite andb_true_r in H. now apply negb_true_iff. Qed.

Section Pass.
  Variables (ug : ugrammar) (terminals SS : list sym) (G1 : grammar).
  Hypothesis HSSnd : NoDup SS.

  Record sinv (g : grammar) (rem : list sym) : Prop := {
    si_nodup : NoDup (gkeys g);
    si_keys : gkeys g = gkeys G1;
    si_last : forall k v r, In (k, v) g -> In r v -> only_last_sfx SS (rprod r) = true;
    si_rank : forall k v r, In (k, v) g -> In r v -> ref_longer SS k r;
    si_tails : Permutation (gtails SS (gremove g rem)) (filter (fun x => negb (mem x rem)) SS);
    si_rem : forall x, In x rem -> mem x SS = true;
    si_count : forall k v, In (k, v) g -> mem k SS = true -> 2 <= length v;
    si_sskeys : forall x, In x SS -> In x (gkeys g);
    si_exp : forall k, In k (gkeys g) -> mem k rem = false ->
             forall es, Exp G1 SS (grules G1 k) es -> Exp g SS (grules g k) es }.

  (* ---------- what is inlined in one step ---------- *)
  Lemma rem_of_In : forall g rr b, In b (flat_map (rem_of terminals SS g) rr) ->
    exists r a, In r rr /\ inl_of terminals SS g r = Some (a, b).
  Proof.
    intros g rr b H. apply in_flat_map in H as [r [Hr Hb]]. unfold rem_of in Hb.
    destruct (inl_of terminals SS g r) as [[a b']|] eqn:E; [|contradiction].
    destruct Hb as [<-|[]]. now exists r, a.
  Qed.

  Lemma newprods_In : forall g rr p, In p (flat_map (newprods_of terminals SS g) rr) ->
    exists r, In r rr /\
      ((inl_of terminals SS g r = None /\ p = rprod r) \/
       (exists a b sr, inl_of terminals SS g r = Some (a, b) /\ In sr (grules g b) /\ p = a :: rprod sr)).
  Proof.
    intros g rr p H. apply in_flat_map in H as [r [Hr Hp]]. exists r. split; [assumption|].
    unfold newprods_of in Hp. destruct (inl_of terminals SS g r) as [[a b]|] eqn:E.
    - right. apply in_map_iff in Hp as [sr [<- Hsr]]. now exists a, b, sr.
    - left. destruct Hp as [<-|[]]. now split.
  Qed.

  Lemma new_length : forall g rr,
    (forall r a b, In r rr -> inl_of terminals SS g r = Some (a, b) -> 2 <= length (grules g b)) ->
    length rr + length (flat_map (rem_of terminals SS g) rr) <= length (flat_map (new_of terminals SS g) rr).
  Proof.
    intros g. induction rr as [|r rr IH]; intros H; [cbn; lia|].
    cbn [flat_map]. rewrite !app_length. specialize (IH (fun r0 a b Hr0 => H r0 a b (or_intror Hr0))).
    unfold rem_of at 1, new_of at 1. destruct (inl_of terminals SS g r) as [[a b]|] eqn:E.
    - specialize (H r a b (or_introl eq_refl) E). rewrite map_length. cbn [length]. lia.
    - cbn [length]. lia.
  Qed.

  (* the inlined symbols are among the references of the entry *)
  Lemma rem_of_tails : forall g rr,
    exists kept, Permutation (tails SS rr) (flat_map (rem_of terminals SS g) rr ++ kept).
  Proof.
    intros g. induction rr as [|r rr [kept IH]]; [exists []; constructor|].
    unfold tails. cbn [flat_map]. fold (tails SS rr). unfold rem_of at 1.
    destruct (inl_of terminals SS g r) as [[a b]|] eqn:E.
    - destruct (inl_of_Some _ _ _ _ _ _ E) as [Hp [Hb _]]. rewrite (tail1_pair SS r a b Hp Hb).
      exists kept. cbn [app]. now apply perm_skip.
    - exists (tail1 SS r ++ kept). cbn [app]. rewrite IH. apply Permutation_app_swap_app.
  Qed.

  (* ---------- one step of the outer loop ---------- *)
  Lemma sstep_ok : forall g rem s g' rem',
    sinv g rem -> mem s rem = false -> sstep terminals SS (g, rem) s = (g', rem') ->
    sinv g' rem' /\ forall x, In x rem' -> In x rem \/ length s < length x.
  Proof.
    intros g rem s g' rem' Hinv Hsrem Hstep.
    unfold sstep in Hstep. rewrite smart_rules_closed in Hstep.
    set (rr := grules g s) in *.
    set (B := flat_map (rem_of terminals SS g) rr) in *.
    set (nr := flat_map (new_of terminals SS g) rr) in *.
    destruct (in_dec sym_eq_dec s (gkeys g)) as [Hskey|Hskey].
    2:{ assert (Hrr : rr = []) by (apply grules_not_key; assumption).
        unfold B, nr in Hstep. rewrite Hrr in Hstep. cbn in Hstep. injection Hstep as <- <-.
        rewrite app_nil_r. split; [assumption|]. intros x Hx. now left. }
    assert (Hs : In (s, rr) g) by (apply grules_key_In; assumption).
    pose proof (si_nodup _ _ Hinv) as Hnd.
    (* facts about an inlined rule *)
    assert (Hinl : forall r a b, In r rr -> inl_of terminals SS g r = Some (a, b) ->
              rprod r = [a; b] /\ mem b SS = true /\ mem a SS = false /\ In (b, grules g b) g /\
              2 <= length (grules g b) /\ length s < length b).
    { intros r a b Hr Hi. destruct (inl_of_Some _ _ _ _ _ _ Hi) as [Hp [Hb _]].
      assert (Hbk : In (b, grules g b) g).
      { apply grules_key_In. apply (si_sskeys _ _ Hinv). now apply mem_In. }
      repeat split; try assumption.
      - apply (only_last_pair SS a b). rewrite <- Hp. apply (si_last _ _ Hinv s rr r Hs Hr).
      - apply (si_count _ _ Hinv b (grules g b) Hbk Hb).
      - apply (si_rank _ _ Hinv s rr r Hs Hr). rewrite (tail1_pair SS r a b Hp Hb). now left. }
    assert (Hlen : length rr + length B <= length nr).
    { apply new_length. intros r a b Hr Hi. now destruct (Hinl r a b Hr Hi) as [_ [_ [_ [_ [H _]]]]]. }
    destruct (Nat.eqb (length rr) (length nr)) eqn:Eq.
    { apply Nat.eqb_eq in Eq. injection Hstep as <- <-.
      assert (HB : B = []) by (destruct B; [reflexivity|cbn in Hlen; lia]).
      rewrite HB, app_nil_r. split; [assumption|]. intros x Hx. now left. }
    injection Hstep as <- <-.
    set (v' := renumber s nr 0) in *.
    set (g' := gupdate g s v') in *.
    assert (Hv' : map rprod v' = flat_map (newprods_of terminals SS g) rr).
    { unfold v'. rewrite renumber_prods. apply flat_new_prods. }
    (* the symbols removed in this step *)
    assert (Hlive : forall x, In x (tails SS rr) -> mem x rem = false /\ mem x SS = true).
    { intros x Hx.
      assert (HL : In (s, rr) (gremove g rem)) by (apply gremove_In; now split).
      pose proof (gtails_remove1 SS _ s rr (gremove_NoDup g rem Hnd) HL) as P.
      rewrite (si_tails _ _ Hinv) in P.
      assert (Hin : In x (filter (fun x => negb (mem x rem)) SS)).
      { eapply Permutation_in; [symmetry; exact P|]. apply in_or_app. now left. }
      apply filter_In in Hin as [H1 H2]. apply negb_true_iff in H2. split; [assumption|now apply mem_In]. }
    assert (HBfacts : forall b, In b B -> In b (gkeys g) /\ mem b rem = false /\ b <> s).
    { intros b Hb. destruct (rem_of_In _ _ _ Hb) as [r [a [Hr Hi]]].
      destruct (Hinl r a b Hr Hi) as [Hp [Hbs [Ha [Hbk [Hc Hl]]]]].
      split; [change b with (fst (b, grules g b)); now apply in_map|]. split.
      - apply Hlive. unfold tails. apply in_flat_map. exists r. split; [assumption|].
        rewrite (tail1_pair SS r a b Hp Hbs). now left.
      - intros ->. lia. }
    assert (HBnd : NoDup B).
    { destruct (rem_of_tails g rr) as [kept Pk]. fold B in Pk.
      assert (Hndt : NoDup (tails SS rr)).
      { assert (HL : In (s, rr) (gremove g rem)) by (apply gremove_In; now split).
        pose proof (gtails_remove1 SS _ s rr (gremove_NoDup g rem Hnd) HL) as P.
        rewrite (si_tails _ _ Hinv) in P.
        assert (Hn : NoDup (tails SS rr ++ gtails SS (gremove (gremove g rem) [s]))).
        { eapply Permutation_NoDup; [exact P|]. now apply NoDup_filter. }
        now apply NoDup_app_l in Hn. }
      eapply Permutation_NoDup in Hndt; [|exact Pk]. now apply NoDup_app_l in Hndt. }
    assert (Ha : forall r a b, In r rr -> inl_of terminals SS g r = Some (a, b) -> mem a SS = false).
    { intros r a b Hr Hi. now destruct (Hinl r a b Hr Hi) as [_ [_ [H _]]]. }
    (* entries of the new grammar *)
    assert (Hent : forall k v, In (k, v) g' <-> (k <> s /\ In (k, v) g) \/ (k = s /\ v = v')).
    { intros k v. unfold g'. rewrite (gupdate_In g s v' k v Hnd). intuition. }
    (* the new rules of s *)
    assert (Hnew : forall r', In r' v' ->
              (exists r, In r rr /\ rprod r' = rprod r) \/
              (exists r a b sr, In r rr /\ inl_of terminals SS g r = Some (a, b) /\ In sr (grules g b) /\ rprod r' = a :: rprod sr)).
    { intros r' Hr'. assert (Hp : In (rprod r') (map rprod v')) by now apply in_map.
      rewrite Hv' in Hp. destruct (newprods_In _ _ _ Hp) as [r [Hr [[_ E]|[a [b [sr [Hi [Hsr E]]]]]]]].
      - left. now exists r.
      - right. now exists r, a, b, sr. }
    assert (Hnewrank : forall r' x, In r' v' -> In x (tail1 SS r') -> length s < length x).
    { intros r' x Hr' Hx. destruct (Hnew r' Hr') as [[r [Hr E]]|[r [a [b [sr [Hr [Hi [Hsr E]]]]]]]].
      - apply (si_rank _ _ Hinv s rr r Hs Hr). rewrite tail1_prod, <- E, <- tail1_prod. exact Hx.
      - destruct (Hinl r a b Hr Hi) as [Hp [Hbs [Hasf [Hbk [Hc Hl]]]]].
        rewrite tail1_prod, E, (tail1_cons_front SS a _ Hasf), <- tail1_prod in Hx.
        pose proof (si_rank _ _ Hinv b (grules g b) sr Hbk Hsr x Hx). lia. }
    (* the entry of s keeps its expansion *)
    assert (Hsexp : forall es, Exp g SS (grules g s) es -> Exp g' SS (grules g' s) es).
    { intros es [F HF]. fold rr in HF.
      assert (E1 : grules g' s = v') by (unfold g'; now apply gupdate_grules_same).
      rewrite E1. apply Exp_ExpP. rewrite Hv'. exists F.
      rewrite (transfer_above_prods g g' SS s).
      - apply inline_rules; assumption.
      - intros x Hx. unfold g'. now apply gupdate_grules_other.
      - apply (si_rank _ _ Hinv).
      - intros p x Hp Hx. rewrite <- Hv' in Hp. apply in_map_iff in Hp as [r' [<- Hr']].
        rewrite <- tail1_prod in Hx. eapply Hnewrank; eassumption. }
    split.
    2:{ intros x Hx. apply in_app_or in Hx as [Hx|Hx]; [now left|right].
        destruct (rem_of_In _ _ _ Hx) as [r [a [Hr Hi]]]. now destruct (Hinl r a x Hr Hi) as [_ [_ [_ [_ [_ H]]]]]. }
    constructor.
    - unfold g'. now rewrite gupdate_keys.
    - unfold g'. rewrite gupdate_keys. apply (si_keys _ _ Hinv).
    - intros k v r Hin Hr. apply Hent in Hin as [[Hk Hin]|[-> ->]]; [eapply (si_last _ _ Hinv); eassumption|].
      destruct (Hnew r Hr) as [[r0 [Hr0 E]]|[r0 [a [b [sr [Hr0 [Hi [Hsr E]]]]]]]]; rewrite E.
      + eapply (si_last _ _ Hinv); eassumption.
      + destruct (Hinl r0 a b Hr0 Hi) as [Hp [Hbs [Hasf [Hbk _]]]].
        apply only_last_cons; [assumption|]. eapply (si_last _ _ Hinv); eassumption.
    - intros k v r Hin Hr. apply Hent in Hin as [[Hk Hin]|[-> ->]]; [eapply (si_rank _ _ Hinv); eassumption|].
      intros x Hx. eapply Hnewrank; eassumption.
    - (* references *)
      pose proof (step_tails terminals SS g rem s rr v' Hnd Hs Hsrem HBfacts HBnd Hv' Ha) as P.
      fold B in P. fold g' in P. rewrite (si_tails _ _ Hinv) in P.
      assert (Hn : NoDup (B ++ gtails SS (gremove g' (rem ++ B)))).
      { eapply Permutation_NoDup; [exact P|]. now apply NoDup_filter. }
      apply NoDup_Permutation.
      + now apply NoDup_app_r in Hn.
      + now apply NoDup_filter.
      + intros x. split.
        * intros Hx.
          assert (Hin : In x (filter (fun x => negb (mem x rem)) SS)).
          { eapply Permutation_in; [symmetry; exact P|]. apply in_or_app. now right. }
          apply filter_In in Hin as [H1 H2]. apply filter_In. split; [assumption|].
          rewrite mem_app. apply negb_true_iff in H2. rewrite H2. cbn. apply negb_true_iff. apply mem_not_In.
          intros HxB. exact (NoDup_app_disj _ _ _ x Hn HxB Hx).
        * intros Hx. apply filter_In in Hx as [H1 H2]. rewrite mem_app in H2. apply negb_true_iff in H2.
          apply orb_false_iff in H2 as [H2 H3].
          assert (Hin : In x (B ++ gtails SS (gremove g' (rem ++ B)))).
          { eapply Permutation_in; [exact P|]. apply filter_In. split; [assumption|]. now rewrite H2. }
          apply in_app_or in Hin as [Hin|Hin]; [|assumption]. apply mem_not_In in H3. contradiction.
    - intros x Hx. apply in_app_or in Hx as [Hx|Hx]; [now apply (si_rem _ _ Hinv)|].
      destruct (rem_of_In _ _ _ Hx) as [r [a [Hr Hi]]]. now destruct (Hinl r a x Hr Hi) as [_ [H _]].
    - intros k v Hin Hm. apply Hent in Hin as [[Hk Hin]|[-> ->]]; [eapply (si_count _ _ Hinv); eassumption|].
      unfold v'. rewrite <- (map_length rprod), renumber_prods, map_length. fold nr.
      pose proof (si_count _ _ Hinv s rr Hs Hm). lia.
    - intros x Hx. unfold g'. rewrite gupdate_keys. now apply (si_sskeys _ _ Hinv).
    - intros k Hk Hm es He. unfold g' in Hk. rewrite gupdate_keys in Hk.
      rewrite mem_app in Hm. apply orb_false_iff in Hm as [Hm _].
      pose proof (si_exp _ _ Hinv k Hk Hm es He) as Hold.
      destruct (sym_eq_dec k s) as [->|Hks].
      + now apply Hsexp.
      + assert (E : grules g' k = grules g k) by (unfold g'; now apply gupdate_grules_other).
        rewrite E. apply (transfer_through_rules g g' SS s); try assumption.
        intros x Hx. unfold g'. now apply gupdate_grules_other.
  Qed.
End Pass.

(* ---------------- the whole pass ---------------- *)
Lemma mem_filter : forall (x : sym) (P : sym -> bool) l, mem x (filter P l) = mem x l && P x.
Proof.
  intros x P l. destruct (mem x (filter P l)) eqn:E.
  - apply mem_In in E. apply filter_In in E as [E1 E2]. apply mem_In in E1. now rewrite E1, E2.
  - destruct (mem x l) eqn:E1; [|reflexivity]. destruct (P x) eqn:E2; [|reflexivity].
    apply mem_not_In in E. exfalso. apply E. apply filter_In. split; [now apply mem_In|assumption].
Qed.

Lemma filter_filter_ext : forall A (P Q R : A -> bool) l,
  (forall x, In x l -> Q x && P x = R x) -> filter P (filter Q l) = filter R l.
Proof.
  intros A P Q R. induction l as [|x l IH]; intros H; [reflexivity|].
  cbn [filter]. pose proof (H x (or_introl eq_refl)) as Hx.
  assert (IH' := IH (fun y Hy => H y (or_intror Hy))).
  destruct (Q x); cbn [andb] in Hx.
  - cbn [filter]. rewrite Hx. destruct (R x); now rewrite IH'.
  - rewrite <- Hx. exact IH'.
Qed.

Lemma only_last_sub : forall SS SS' p, (forall x, mem x SS' = true -> mem x SS = true) ->
  only_last_sfx SS p = true -> only_last_sfx SS' p = true.
Proof.
  intros SS SS' p H Hp. unfold only_last_sfx in *. rewrite forallb_forall in *. intros x Hx.
  specialize (Hp x Hx). apply negb_true_iff in Hp. apply negb_true_iff.
  destruct (mem x SS') eqn:E; [|reflexivity]. apply H in E. congruence.
Qed.

Lemma tail1_sub : forall SS SS' r x, (forall y, mem y SS' = true -> mem y SS = true) ->
  In x (tail1 SS' r) -> In x (tail1 SS r).
Proof.
  intros SS SS' r x H Hx. apply tail1_In in Hx as [Hne [-> Hm]]. apply H in Hm.
  rewrite (tail1_intro SS r Hne Hm). now left.
Qed.

Section Final.
  Variables (ug : ugrammar) (terminals SS : list sym) (G1 : grammar).
  Hypothesis Hspec : g1spec ug G1 SS.

  Lemma sinv_init : sinv SS G1 G1 [].
  Proof.
    destruct Hspec as [[L1 L2 L3 L4 L5 L6] T C K D N]. constructor; try assumption; try reflexivity.
    - unfold gremove. rewrite filter_all by (intros; reflexivity).
      rewrite filter_all by (intros; reflexivity). assumption.
    - intros x [].
    - intros k _ _ es H. exact H.
  Qed.

  Lemma fold_ok : forall todo g rem,
    StronglySorted len_ge todo -> sinv SS G1 g rem ->
    (forall x t, In x rem -> In t todo -> length t < length x) ->
    forall g' rem', fold_left (sstep terminals SS) todo (g, rem) = (g', rem') -> sinv SS G1 g' rem'.
  Proof.
    induction todo as [|s todo IH]; intros g rem Hsort Hinv Hlen g' rem' H.
    - cbn in H. now injection H as <- <-.
    - cbn [fold_left] in H. destruct (sstep terminals SS (g, rem) s) as [g1 rem1] eqn:Es.
      inversion Hsort as [|? ? Hsort' Hall]; subst.
      assert (Hsrem : mem s rem = false).
      { apply mem_not_In. intros Hin. specialize (Hlen s s Hin (or_introl eq_refl)). lia. }
      destruct (sstep_ok terminals SS G1 (g1_ssnodup _ _ _ Hspec) g rem s g1 rem1 Hinv Hsrem Es) as [Hinv1 Hrem1].
      apply (IH g1 rem1 Hsort' Hinv1); [|assumption].
      intros x t Hx Ht. destruct (Hrem1 x Hx) as [Hx'|Hx'].
      + apply Hlen; [assumption|now right].
      + rewrite Forall_forall in Hall. specialize (Hall t Ht). unfold len_ge in Hall. lia.
  Qed.

  (* expansions of the live entries do not see the removed symbols *)
  Lemma live_expand : forall g rem, sinv SS G1 g rem ->
    let G' := gremove g rem in
    let SS' := filter (fun x => negb (mem x rem)) SS in
    forall F k v r, In (k, v) G' -> In r v -> expand G' SS' F (rprod r) = expand g SS F (rprod r).
  Proof.
    intros g rem Hinv G' SS'. induction F as [|F IH]; intros k v r Hin Hr; [reflexivity|].
    cbn [expand]. destruct (rprod r) as [|s0 p0] eqn:Ep; [reflexivity|].
    set (b := last (s0 :: p0) []) in *.
    assert (Hsub : mem b SS' = mem b SS && negb (mem b rem)) by apply mem_filter.
    destruct (mem b SS) eqn:Em.
    - assert (Hb' : In b SS').
      { eapply Permutation_in; [apply (si_tails _ _ _ _ Hinv)|]. unfold gtails. apply in_flat_map.
        exists (k, v). split; [exact Hin|]. cbn [snd]. unfold tails. apply in_flat_map. exists r. split; [assumption|].
        rewrite tail1_intro; [left; now rewrite Ep|rewrite Ep; discriminate|rewrite Ep; exact Em]. }
      apply mem_In in Hb'. rewrite Hb'. cbn [andb] in Hsub. rewrite Hb' in Hsub.
      symmetry in Hsub. apply negb_true_iff in Hsub.
      unfold G' at 2. rewrite (gremove_grules g rem b Hsub). f_equal. f_equal. apply map_ext_in. intros r2 Hr2.
      assert (Hbk : In (b, grules g b) g).
      { apply grules_key_In. apply (si_sskeys _ _ _ _ Hinv). now apply mem_In. }
      apply (IH b (grules g b) r2); [|assumption]. apply gremove_In. now split.
    - cbn [andb] in Hsub. now rewrite Hsub.
  Qed.

  Theorem smart_pass_fspec : forall g sfxs, smart_pass G1 terminals SS = (g, sfxs) -> fspec ug g sfxs.
  Proof.
    intros g sfxs H. rewrite smart_pass_eq in H.
    destruct (fold_left (sstep terminals SS) (sort_by_len_desc (gkeys G1)) (G1, [])) as [g' rem] eqn:Ef.
    injection H as <- <-.
    assert (Hinv : sinv SS G1 g' rem).
    { apply (fold_ok (sort_by_len_desc (gkeys G1)) G1 [] (sort_by_len_desc_sorted _) sinv_init); [|exact Ef]. intros x t []. }
    pose proof (g1_fspec _ _ _ Hspec) as Hf.
    assert (Hsub : forall y, mem y (filter (fun x => negb (mem x rem)) SS) = true -> mem y SS = true).
    { intros y Hy. rewrite mem_filter in Hy. now apply andb_true_iff in Hy as [Hy _]. }
    assert (Hremss : forall k, mem k SS = false -> mem k rem = false).
    { intros k Hk. destruct (mem k rem) eqn:E; [|reflexivity]. apply mem_In in E. apply (si_rem _ _ _ _ Hinv) in E. congruence. }
    constructor.
    - intros k v r Hin Hr. apply gremove_In in Hin as [Hin _]. eapply only_last_sub; [exact Hsub|].
      eapply (si_last _ _ _ _ Hinv); eassumption.
    - intros k v r Hin Hr x Hx. apply gremove_In in Hin as [Hin _].
      apply (si_rank _ _ _ _ Hinv k v r Hin Hr). eapply tail1_sub; [exact Hsub|exact Hx].
    - intros k Hk. rewrite mem_filter. now rewrite (fs_fresh _ _ _ Hf k Hk).
    - apply gremove_NoDup. apply (si_nodup _ _ _ _ Hinv).
    - rewrite gremove_keys, (si_keys _ _ _ _ Hinv), <- (fs_keys _ _ _ Hf).
      apply filter_filter_ext. intros x _. rewrite mem_filter.
      destruct (mem x SS) eqn:E1; cbn [andb negb].
      + destruct (mem x rem); reflexivity.
      + rewrite (Hremss x E1). reflexivity.
    - intros k v Hin Hm. pose proof Hin as Hin'. apply gremove_In in Hin' as [Hing Hkrem].
      rewrite mem_filter, Hkrem in Hm. cbn [negb] in Hm. rewrite andb_true_r in Hm.
      assert (Hk1 : In k (gkeys G1)).
      { rewrite <- (si_keys _ _ _ _ Hinv). change k with (fst (k, v)). now apply in_map. }
      pose proof (fs_exp _ _ _ Hf k (grules G1 k) (grules_key_In _ _ Hk1) Hm) as He.
      assert (Hkg : In k (gkeys g')) by (rewrite (si_keys _ _ _ _ Hinv); exact Hk1).
      pose proof (si_exp _ _ _ _ Hinv k Hkg Hkrem _ He) as [F HF].
      rewrite (NoDup_grules g' k v (si_nodup _ _ _ _ Hinv) Hing) in HF.
      exists F. unfold expand_rules in *. rewrite <- HF. f_equal. apply map_ext_in. intros r Hr.
      apply (live_expand g' rem Hinv F k v r Hin Hr).
  Qed.
End Final.

Theorem factorize_ok_l : forall ug terminals smart g sfxs,
  factorize ug terminals smart = Ok (g, sfxs) -> fact_ok ug g sfxs = true.
Proof.
  intros ug terminals smart g sfxs H.
  destruct (factorize_inv _ _ _ _ _ H) as [Hd [g1 [ss [Hf [Hnd Heq]]]]].
  pose proof (factorize_all_g1spec ug g1 ss Hd Hf Hnd) as Hspec.
  apply fspec_fact_ok. destruct smart.
  - eapply smart_pass_fspec; [exact Hspec|]. symmetry. exact Heq.
  - injection Heq as -> ->. apply (g1_fspec _ _ _ Hspec).
Qed.
