(* C09/TransInst.v -- how the values of the hand model (Model.color, fmtargs) and the Python values of the
   translated functions (Common/PyLib.pyval) correspond, and the translated functions of
   gen/C09_Translated.v (= _ColorSequences._make_seq_element / .make of the current ak/color.py, translated
   by harness/lib/pytranslate.py) applied to the arguments of a hand-model case.  Used by Run.v
   (correspondence) and TransEq.v (proofs).  No proofs here. *)
From Coq Require Import ZArith List Bool.
From AK Require Import Common.Sx Common.Err Common.PyLib gen.C09_Consts C09.Model gen.C09_Translated.
Import ListNotations.
Open Scope Z_scope.

(* abstraction: what the hand model keeps of a Python value passed as a colour *)
Definition elem_of (v : pyval) : elem :=
  match v with
  | VInt z => EInt z
  | VBool b => EInt (py_int_of_bool b)
  | VFloat (Some (n, d)) => EFloat ((comp_lo * Zpos d <=? n) && (n <=? comp_hi * Zpos d))
  | VFloat None => EFloat false
  | _ => EBad
  end.

Definition color_of (v : pyval) : color :=
  match v with
  | VNone => CNone
  | VBool b => CBool b
  | VInt z => CInt z
  | VFloat _ => COther
  | VStr s => CStr s
  | VTuple l => CSeq false (map elem_of l)
  | VList l => CSeq true (map elem_of l)
  | VOther h => if h then COther else CUnhash
  end.

(* a representative Python value for each hand-model value (color_of (val_of c) = c, TransEq.v) *)
Definition val_of_elem (e : elem) : pyval :=
  match e with
  | EInt z => VInt z
  | EFloat true => VFloat (Some (comp_lo, 1%positive))
  | EFloat false => VFloat (Some (comp_hi + 1, 1%positive))
  | EBad => VNone
  end.

Definition val_of (c : color) : pyval :=
  match c with
  | CNone => VNone
  | CStr s => VStr s
  | CInt z => VInt z
  | CBool b => VBool b
  | CSeq true l => VList (map val_of_elem l)
  | CSeq false l => VTuple (map val_of_elem l)
  | COther => VOther true
  | CUnhash => VOther false
  end.

(* the translated code has no while loop: any fuel will do *)
Definition run_fuel : nat := 0.

Definition T_mse := T__ColorSequences__make_seq_element.
Definition T_make := T__ColorSequences_make.

(* _ColorSequences.make(color, bg_color, bold, faint, underline, blink, crossed, no_color, make_bytes) *)
Definition T_make_args (fuel : nat) (vc vb : pyval) (a : fmtargs) (mk_bytes : bool) : res (list Z * list Z) :=
  T_make fuel vc vb (VBool (a_bold a)) (VBool (a_faint a)) (VBool (a_underline a)) (VBool (a_blink a))
         (VBool (a_crossed a)) (VBool (a_nocolor a)) (VBool mk_bytes).

Definition tr_mse (c : color) (is_bg : bool) : res (list Z) := T_mse run_fuel (val_of c) is_bg.
Definition tr_make (a : fmtargs) (mk_bytes : bool) : res (list Z * list Z) :=
  T_make_args run_fuel (val_of (a_color a)) (val_of (a_bg a)) a mk_bytes.
