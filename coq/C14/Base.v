(* C14/Base.v -- data types shared by the generated constants (gen/C14_Consts.v)
   and the model, and the string helpers (Python str methods on code-point lists).
   No proofs in this file. *)
From Coq Require Import ZArith List Bool.
Import ListNotations.
Open Scope Z_scope.

Notation str := (list Z).

(* a value of a (possibly nested) configuration dictionary *)
Inductive cval :=
| VStr (s : list Z)
| VDict (items : list (list Z * cval))
| VOther.

(* statements of _ColorConfColorDescr.resolve, as read from the source *)
Inductive fld := FFg | FBg.
Inductive ract :=
| AInheritIfIn (f : fld) (vs : list (list Z))   (* if self.f == v / in vs: self.f = parent.f *)
| ANoneIfIn (f : fld) (vs : list (list Z))      (* if self.f == v / in vs: self.f = None *)
| AMergeMods.                                   (* self.modifiers = {**parent.modifiers, **self.modifiers} *)

(* ---------------- strings ---------------- *)
Fixpoint str_eqb (a b : str) : bool :=
  match a, b with
  | [], [] => true
  | x :: a', y :: b' => (x =? y) && str_eqb a' b'
  | _, _ => false
  end.

Definition mem_str (s : str) (l : list str) : bool := existsb (str_eqb s) l.

(* Python's str < / <= : lexicographic on code points *)
Fixpoint str_leb (a b : str) : bool :=
  match a, b with
  | [], _ => true
  | _ :: _, [] => false
  | x :: a', y :: b' => if x <? y then true else if y <? x then false else str_leb a' b'
  end.

(* s.split(sep) for a one-character separator: always at least one chunk *)
Fixpoint split_on (sep : Z) (s : str) : list str :=
  match s with
  | [] => [[]]
  | c :: r =>
      if c =? sep then [] :: split_on sep r
      else match split_on sep r with
           | [] => [[c]]
           | h :: t => (c :: h) :: t
           end
  end.

(* str.isspace() code points (all of them; the generators stay within ASCII) *)
Definition is_ws (c : Z) : bool :=
  ((9 <=? c) && (c <=? 13)) || ((28 <=? c) && (c <=? 32)) || (c =? 133) || (c =? 160)
  || (c =? 5760) || ((8192 <=? c) && (c <=? 8202)) || (c =? 8232) || (c =? 8233)
  || (c =? 8239) || (c =? 8287) || (c =? 12288).

Fixpoint lstrip (s : str) : str :=
  match s with
  | c :: r => if is_ws c then lstrip r else s
  | [] => []
  end.
Definition strip (s : str) : str := rev (lstrip (rev (lstrip s))).

Definition starts_with (c : Z) (s : str) : bool :=
  match s with x :: _ => x =? c | [] => false end.
Definition ends_with (c : Z) (s : str) : bool := starts_with c (rev s).

Definition is_digit (c : Z) : bool := (48 <=? c) && (c <=? 57).

(* int(s) for ASCII input: optional sign, digits, single underscores between digits.
   None = ValueError. *)
Fixpoint int_body (s : str) (acc : Z) (prev_digit : bool) : option Z :=
  match s with
  | [] => if prev_digit then Some acc else None
  | c :: r =>
      if is_digit c then int_body r (acc * 10 + (c - 48)) true
      else if (c =? 95) && prev_digit then int_body r acc false
      else None
  end.
Definition py_int (s : str) : option Z :=
  match strip s with
  | [] => None
  | c :: r =>
      if c =? 45 then option_map Z.opp (int_body r 0 false)
      else if c =? 43 then int_body r 0 false
      else int_body (c :: r) 0 false
  end.

(* str(n) for n >= 0 *)
Fixpoint dec_aux (fuel : nat) (n : Z) (acc : str) : str :=
  match fuel with
  | O => acc
  | S f => let acc' := (48 + n mod 10) :: acc in
           if n / 10 =? 0 then acc' else dec_aux f (n / 10) acc'
  end.
Definition dec (n : Z) : str := dec_aux 30 n [].

(* sep.join(l) *)
Fixpoint join (sep : str) (l : list str) : str :=
  match l with
  | [] => []
  | [x] => x
  | x :: r => x ++ sep ++ join sep r
  end.

(* sorted(): insertion sort by str_leb (keys are unique where it is used) *)
Fixpoint insert_sorted (x : str) (l : list str) : list str :=
  match l with
  | [] => [x]
  | y :: r => if str_leb x y then x :: l else y :: insert_sorted x r
  end.
Fixpoint sort_strs (l : list str) : list str :=
  match l with
  | [] => []
  | x :: r => insert_sorted x (sort_strs r)
  end.

(* association lists with Python dict semantics (insertion ordered, unique keys) *)
Section Assoc.
  Context {V : Type}.
  Fixpoint lookup (k : str) (m : list (str * V)) : option V :=
    match m with
    | [] => None
    | (k', v) :: r => if str_eqb k k' then Some v else lookup k r
    end.
  Definition has_key (k : str) (m : list (str * V)) : bool :=
    match lookup k m with Some _ => true | None => false end.
  (* m[k] = v for an existing key (position kept) *)
  Fixpoint update (k : str) (v : V) (m : list (str * V)) : list (str * V) :=
    match m with
    | [] => []
    | (k', v') :: r => if str_eqb k k' then (k', v) :: r else (k', v') :: update k v r
    end.
  (* m[k] = v *)
  Definition dict_set (k : str) (v : V) (m : list (str * V)) : list (str * V) :=
    if has_key k m then update k v m else m ++ [(k, v)].
End Assoc.
