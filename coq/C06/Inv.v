(* C06/Inv.v -- invariants of the two nested traversals, part 1:
   every RCommit's is_explicit flag is the search predicate of its commit,
   hence every listed commit matches. *)
From Coq Require Import ZArith List Bool Lia Arith Sorting.Permutation.
From AK Require Import Common.Sx Common.Err gen.C06_Consts C06.Model C06.Lemmas.
Import ListNotations.
Open Scope Z_scope.

(* ------------------------------------------------------------------ *)
(* generic: a predicate on states preserved by every step is preserved  *)
(* by the outer DFS, by a branch and by the whole run                   *)

Section Preserved.
  Variable h : history.
  Variable P : state -> Prop.
  Hypothesis P_hang : forall s, P s -> P (set_hang s).
  Hypothesis P_finish : forall head s c rcps, P s -> P (finish h head s c rcps).

  Lemma visit_preserves head fuel : forall s c, P s -> P (visit h head fuel s c).
  Proof.
    induction fuel as [|f IH]; intros s c Hs; cbn [visit]; [apply P_hang, Hs|].
    destruct (cached s c); [exact Hs|].
    match goal with |- context [fold_left ?F ?l ?a] =>
      assert (P (fst (fold_left F l a))) as HP end.
    { generalize (rev (c_parents (get_commit h c))). intros l.
      assert (P (fst (s, @nil nat))) as H0 by exact Hs. revert H0.
      generalize (s, @nil nat). induction l as [|p l IHl]; intros a Ha; cbn [fold_left]; [exact Ha|].
      apply IHl. cbn [fst]. apply IH. exact Ha. }
    destruct (fold_left _ _ _) as [s1 rcps]. cbn [fst] in HP. apply P_finish. exact HP.
  Qed.
End Preserved.

(* ------------------------------------------------------------------ *)
(* is_explicit = search predicate                                       *)

Definition flags_ok (h : history) (s : state) : Prop :=
  Forall (fun rc => rc_explicit rc = matches h (rc_cid rc)) (s_rcommits s).

Lemma flags_add h s rc : flags_ok h s -> rc_explicit rc = matches h (rc_cid rc) -> flags_ok h (add_rcommit s rc).
Proof.
  unfold flags_ok. cbn [add_rcommit s_rcommits]. intros H E. apply Forall_app. split; [exact H|]. constructor; [exact E|constructor].
Qed.

Lemma flags_finish h head s c rcps : flags_ok h s -> flags_ok h (finish h head s c rcps).
Proof.
  intros H. unfold finish.
  destruct (negb (matches h c || nonempty rcps)); [exact H|].
  destruct (nonempty (c_tags (get_commit h c)) || (c =? head)%nat).
  - destruct (find_new s rcps) as [[[bp new] hrb] hg].
    match goal with |- context [if ?b then _ else _] => destruct b end.
    + unfold flags_ok. cbn [set_bnmap add_rbuild s_rcommits]. apply flags_add; [exact H|reflexivity].
    + unfold flags_ok. cbn [set_bnmap s_rcommits]. destruct rcps; exact H.
  - destruct (matches h c) eqn:E.
    + apply flags_add; [exact H|cbn; congruence].
    + destruct rcps; exact H.
Qed.

Lemma flags_visit h head fuel s c : flags_ok h s -> flags_ok h (visit h head fuel s c).
Proof. apply visit_preserves; [intros s0 H; exact H|intros; apply flags_finish; assumption]. Qed.

Lemma flags_read_branch h s head prev fake :
  flags_ok h s -> flags_ok h (fst (fst (read_branch h s head prev fake))).
Proof.
  intros H. unfold read_branch.
  match goal with |- context [visit h head ?f ?s0 head] => pose proof (flags_visit h head f s0 head H) as Hv end.
  destruct (match prev with Some p => _ | None => _ end); cbn [fst]; exact Hv.
Qed.

Lemma flags_step h g b : flags_ok h (g_state g) -> flags_ok h (g_state (step_branch h g b)).
Proof.
  intros H. unfold step_branch.
  destruct (match g_min_ts g with Some m => _ | None => false end); [exact H|].
  pose proof (flags_read_branch h (g_state g) (b_head b)
      (match rev (g_branches g) with [] => None | p :: _ => Some (br_rbuilds p) end) (g_fake g) H) as Hr.
  destruct (read_branch _ _ _ _ _) as [[s rbs] fake]. cbn [fst] in Hr. cbn [g_state]. exact Hr.
Qed.

Lemma flags_run h : flags_ok h (g_state (run_graph h)).
Proof.
  unfold run_graph.
  assert (flags_ok h (g_state (mkG init_state [] None fake_iid_base))) as H0 by constructor.
  revert H0. generalize (mkG init_state [] None fake_iid_base).
  induction (sorted_branches (h_remote h) (h_refs h)) as [|b l IH]; intros g Hg; cbn [fold_left]; [exact Hg|].
  apply IH, flags_step, Hg.
Qed.

(* a listed commit is the commit of an explicit RCommit *)
Lemma listed_explicit s rb c :
  In c (ob_listed (out_build s rb)) -> exists rc, In rc (s_rcommits s) /\ rc_explicit rc = true /\ rc_cid rc = c.
Proof.
  unfold out_build. cbn [ob_listed]. rewrite in_map_iff. intros (i & Hc & Hi).
  apply filter_In in Hi as [_ He]. exists (rc_get s i). split; [|split; assumption].
  unfold rc_get in *. destruct (nth_in_or_default i (s_rcommits s) dummy_rc) as [Hin|Hd]; [exact Hin|].
  rewrite Hd in He. discriminate.
Qed.

Lemma only_matching_l h br b c :
  In br (all_branches h) -> In b (obr_builds br) -> In c (ob_listed b) -> matches h c = true.
Proof.
  unfold all_branches. rewrite in_map_iff. intros (rbr & <- & _). cbn [obr_builds].
  rewrite in_map_iff. intros (rb & <- & _) Hc.
  destruct (listed_explicit _ _ _ Hc) as (rc & Hin & He & <-).
  pose proof (flags_run h) as F. unfold flags_ok in F. rewrite Forall_forall in F.
  rewrite <- (F rc Hin). exact He.
Qed.

Lemma report_in_all h l br : report h = Ok l -> In br l -> In br (all_branches h).
Proof.
  unfold report. destruct (s_hang _); [discriminate|]. intros [= <-] H.
  apply filter_In in H as [H _]. apply in_rev. exact H.
Qed.
