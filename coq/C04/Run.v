(* C04/Run.v -- correspondence entry point: tokenize a text under a tokenizer
   configuration, report every token (skipped ones included) with its span and
   get_orig_text, or the LexicalError; then parse the non-skipped tokens with a
   grammar and report every tree node with its span and get_orig_text. *)
From Coq Require Import ZArith List Bool.
From AK Require Export Common.Sx Common.Err LLP.Build gen.C04_Consts C04.Model.
Import ListNotations.
Open Scope Z_scope.

(* [expected] is the canonical observation of the implementation on the same case.  The
   comparison is made here and only its outcome is printed: () when the model's observation
   is identical, otherwise (-1 path model-part implementation-part) for the first difference.
   (Printing whole observations of a shard overflows coqc's stack above ~30k characters.) *)
Inductive case :=
| Case (cfg : lexcfg) (skip : option (list sym))
       (ug : list (sym * list (list sym))) (smart : bool) (start : sym) (fuel : nat)
       (inp : input) (expected : sx).

Fixpoint sx_diff (a b : sx) : option (list Z * sx * sx) :=
  match a, b with
  | SZ x, SZ y => if x =? y then None else Some ([], a, b)
  | SL l, SL m =>
      (fix go (i : Z) (l m : list sx) : option (list Z * sx * sx) :=
         match l, m with
         | [], [] => None
         | x :: l', y :: m' =>
             match sx_diff x y with
             | Some (p, u, v) => Some (i :: p, u, v)
             | None => go (i + 1) l' m'
             end
         | _, _ => Some ([i], SL l, SL m)
         end) 0 l m
  | _, _ => Some ([], a, b)
  end.

Fixpoint sx_trunc (depth : nat) (s : sx) : sx :=
  match depth with
  | O => SL []
  | S d => match s with
           | SZ _ => s
           | SL l => SL (map (sx_trunc d) (firstn 10 l))
           end
  end.

Definition sx_text (r : res (list Z)) : sx := sx_res sx_str r.

Definition sx_tok (olines : list line) (t : token) : sx :=
  SL [sx_str (tname t); sx_str (tvalue t); sx_span (tstart t, tend t);
      sx_text (get_orig_text olines (tstart t, tend t))].

Fixpoint sx_tree_txt (olines : list line) (t : tree) : sx :=
  match t with
  | Leaf n v sp => SL [SZ 0; sx_str n; sx_str v; sx_span sp; sx_text (get_orig_text olines sp)]
  | Node n ch sp => SL [SZ 1; sx_str n; SL (map (sx_tree_txt olines) ch); sx_span sp;
                        sx_text (get_orig_text olines sp)]
  end.

(* LLParser.__init__: skip_tokens=None means SPACE and COMMENT when they are terminals *)
Definition effective_skip (terminals : list sym) (skip : option (list sym)) : list sym :=
  match skip with
  | Some l => l
  | None => filter (fun s => mem s terminals) default_skip
  end.

Definition observe (c : case) : sx :=
  match c with
  | Case cfg skip ug smart start fuel inp _ =>
      let terminals := cfg_terminals cfg in
      match build ug terminals smart start with
      | Err e => SL [SZ 3; SZ (err_code e)]
      | Ok p =>
          let olines := orig_lines inp in
          match cfg_tokenize cfg (tok_lines inp) with
          | LHang => SL [SZ 2]
          | LErr pos text unclosed => SL [SZ 1; sx_pos pos; sx_str text]
          | LOk toks =>
              SL [SZ 0; SL (map (sx_tok olines) toks);
                  sx_res (sx_tree_txt olines)
                         (p_parse p fuel (drop_skipped (effective_skip terminals skip) toks))]
          end
      end
  end.

Definition run (c : case) : sx :=
  match c with
  | Case _ _ _ _ _ _ _ expected =>
      match sx_diff (observe c) expected with
      | None => SL []
      | Some (p, u, v) => SL [SZ (-1); SL (map SZ p); sx_trunc 4 u; sx_trunc 4 v]
      end
  end.
