(* C01/FactList.v -- the shape of what _factorize_prods_list / _factorize_productions
   (LLP/Factor.v factorize_list, factorize_all) produce, as an inductive relation;
   longest common prefixes; chunks. *)
From Coq Require Import ZArith List Bool Lia.
From AK Require Import Common.Err LLP.Base LLP.Factor C01.Basics C01.Spec.
Import ListNotations.
Local Open Scope nat_scope.

(* ---------------- prefixes ---------------- *)
Definition prefix (q p : list sym) : Prop := exists t, p = q ++ t.

Lemma prefix_refl : forall p, prefix p p.
Proof. intros p. exists []. now rewrite app_nil_r. Qed.

Lemma prefix_nil : forall p, prefix [] p.
Proof. intros p. now exists p. Qed.

Lemma prefix_trans : forall a b c, prefix a b -> prefix b c -> prefix a c.
Proof. intros a b c [t ->] [u ->]. exists (t ++ u). now rewrite app_assoc. Qed.

Lemma prefix_cons : forall x q p, prefix q p -> prefix (x :: q) (x :: p).
Proof. intros x q p [t ->]. now exists t. Qed.

Lemma prefix_cons_inv : forall x y q p, prefix (x :: q) (y :: p) -> x = y /\ prefix q p.
Proof. intros x y q p [t H]. cbn in H. injection H as -> ->. split; [reflexivity|now exists t]. Qed.

Lemma prefix_skipn : forall q p, prefix q p -> q ++ skipn (length q) p = p.
Proof. intros q p [t ->]. rewrite skipn_app, skipn_all, Nat.sub_diag. reflexivity. Qed.

Lemma prefix_length : forall q p, prefix q p -> length q <= length p.
Proof. intros q p [t ->]. rewrite app_length. lia. Qed.

Lemma prefix_antisym_len : forall q p, prefix q p -> length p <= length q -> q = p.
Proof.
  intros q p [t ->] H. rewrite app_length in H. destruct t; [now rewrite app_nil_r|cbn in H; lia].
Qed.

Lemma lcp2_prefix_l : forall a b, prefix (lcp2 a b) a.
Proof.
  induction a as [|x a IH]; intros b; [apply prefix_nil|].
  destruct b as [|y b]; cbn; [apply prefix_nil|].
  destruct (sym_eqb x y); [apply prefix_cons, IH|apply prefix_nil].
Qed.

Lemma lcp2_prefix_r : forall a b, prefix (lcp2 a b) b.
Proof.
  induction a as [|x a IH]; intros b; [apply prefix_nil|].
  destruct b as [|y b]; cbn; [apply prefix_nil|].
  destruct (sym_eqb x y) eqn:E; [|apply prefix_nil].
  apply sym_eqb_eq in E. subst. apply prefix_cons, IH.
Qed.

Lemma lcp2_max : forall q a b, prefix q a -> prefix q b -> prefix q (lcp2 a b).
Proof.
  induction q as [|x q IH]; intros a b Ha Hb; [apply prefix_nil|].
  destruct a as [|y a]; [destruct Ha as [t Ha]; discriminate|].
  destruct b as [|z b]; [destruct Hb as [t Hb]; discriminate|].
  apply prefix_cons_inv in Ha as [<- Ha]. apply prefix_cons_inv in Hb as [<- Hb].
  cbn. rewrite sym_eqb_refl. apply prefix_cons. now apply IH.
Qed.

Lemma fold_lcp2_prefix : forall r p,
  prefix (fold_left lcp2 r p) p /\ forall x, In x r -> prefix (fold_left lcp2 r p) x.
Proof.
  induction r as [|y r IH]; intros p; cbn [fold_left].
  - split; [apply prefix_refl|intros x []].
  - destruct (IH (lcp2 p y)) as [H1 H2]. split.
    + eapply prefix_trans; [exact H1|apply lcp2_prefix_l].
    + intros x [<-|Hx]; [|now apply H2]. eapply prefix_trans; [exact H1|apply lcp2_prefix_r].
Qed.

Lemma lcp_prefix : forall ps p, In p ps -> prefix (lcp ps) p.
Proof.
  intros [|p0 r] p H; [contradiction|]. unfold lcp. destruct (fold_lcp2_prefix r p0) as [H1 H2].
  destruct H as [<-|H]; [exact H1|now apply H2].
Qed.

Lemma fold_lcp2_max : forall q r p, prefix q p -> (forall x, In x r -> prefix q x) ->
  prefix q (fold_left lcp2 r p).
Proof.
  intros q. induction r as [|y r IH]; intros p Hp Hr; cbn [fold_left]; [assumption|].
  apply IH.
  - apply lcp2_max; [assumption|apply Hr; now left].
  - intros x Hx. apply Hr. now right.
Qed.

Lemma lcp_max : forall q ps, ps <> [] -> (forall p, In p ps -> prefix q p) -> prefix q (lcp ps).
Proof.
  intros q [|p0 r] Hne H; [contradiction|]. unfold lcp. apply fold_lcp2_max.
  - apply H. now left.
  - intros x Hx. apply H. now right.
Qed.

(* after removing the longest common prefix nothing common is left *)
Lemma lcp_skipn_nil : forall ps, ps <> [] -> lcp (map (skipn (length (lcp ps))) ps) = [].
Proof.
  intros ps Hne. set (q := lcp ps). set (q' := lcp (map (skipn (length q)) ps)).
  assert (H : prefix (q ++ q') q).
  { apply lcp_max; [assumption|]. intros p Hp.
    assert (Hq : prefix q p) by now apply lcp_prefix.
    assert (Hq' : prefix q' (skipn (length q) p)) by (apply lcp_prefix; now apply in_map).
    destruct Hq' as [t Ht]. exists t. rewrite <- app_assoc, <- Ht. symmetry. now apply prefix_skipn. }
  apply prefix_length in H. rewrite app_length in H. destruct q'; [reflexivity|cbn in H; lia].
Qed.

(* ---------------- chunks ---------------- *)
Lemma split_chunks_aux_concat : forall rules cur cs,
  concat (split_chunks_aux rules cur cs) = cur ++ rules.
Proof.
  induction rules as [|r rest IH]; intros cur cs; cbn [split_chunks_aux].
  - destruct cur; cbn; [reflexivity|now rewrite app_nil_r].
  - destruct (osym_eqb (start_of r) cs).
    + rewrite IH, <- app_assoc. reflexivity.
    + destruct cur as [|c0 cur'].
      * rewrite IH. reflexivity.
      * cbn [concat]. rewrite IH. reflexivity.
Qed.

Lemma split_chunks_concat : forall rules, concat (split_chunks rules) = rules.
Proof. intros. unfold split_chunks. now rewrite split_chunks_aux_concat. Qed.

Lemma number_rules_prods : forall s ps n, map rprod (number_rules s ps n) = ps.
Proof. intros s. induction ps as [|p ps IH]; intros n; cbn; [reflexivity|]. now rewrite IH. Qed.

Lemma number_rules_length : forall s ps n, length (number_rules s ps n) = length ps.
Proof. intros s ps n. rewrite <- (map_length rprod), number_rules_prods. reflexivity. Qed.

(* ---------------- the nested loop of factorize_list, as a top-level function ---------------- *)
Section Go.
  Variable rec : sym -> list rule -> res (list rule * grammar * list sym).
  Variable s : sym.
  Fixpoint fact_go (chunks : list (list rule)) (gid : Z) : res (list rule * grammar * list sym) :=
        match chunks with
        | [] => Ok ([], [], [])
        | [r] :: rest =>
            bind (fact_go rest gid) (fun '(rs, sfxp, sfxs) => Ok (r :: rs, sfxp, sfxs))
        | chunk :: rest =>
            let prefix := lcp (map rprod chunk) in
            match prefix, chunk with
            | [], _ => Err AssertErr
            | _, [] => Err AssertErr
            | _, first :: _ =>
                let g := suffix_name s gid in
                let grp_rule := mkRule s (prefix ++ [g]) (rsort first) in
                let sfx_rules := number_rules g (map (fun r => skipn (length prefix) (rprod r)) chunk) 0 in
                bind (rec g sfx_rules) (fun '(grules', sub_p, sub_s) =>
                bind (fact_go rest (gid + 1)) (fun '(rs, sfxp, sfxs) =>
                  Ok (grp_rule :: rs, ((g, grules') :: sub_p) ++ sfxp, (g :: sub_s) ++ sfxs)))
            end
        end.
End Go.

Lemma factorize_list_S : forall f s rules,
  factorize_list (S f) s rules = fact_go (factorize_list f) s (split_chunks rules) 0%Z.
Proof. reflexivity. Qed.

(* ---------------- the result, as a relation ---------------- *)
(* FG s gid chunks rs sfxp: from the chunks of the productions of s (group numbers from
   gid on) the loop makes the rules rs of s and the suffix entries sfxp *)
Inductive FG : sym -> Z -> list (list rule) -> list rule -> grammar -> Prop :=
| FG_nil : forall s gid, FG s gid [] [] []
| FG_single : forall s gid r rest rs sfxp,
    FG s gid rest rs sfxp -> FG s gid ([r] :: rest) (r :: rs) sfxp
| FG_group : forall s gid chunk rest first pre g chunks' grules' sub_p rs sfxp,
    2 <= length chunk -> pre = lcp (map rprod chunk) -> pre <> [] -> g = suffix_name s gid ->
    concat chunks' = number_rules g (map (fun r => skipn (length pre) (rprod r)) chunk) 0 ->
    FG g 0%Z chunks' grules' sub_p ->
    FG s (gid + 1)%Z rest rs sfxp ->
    FG s gid (chunk :: rest) (mkRule s (pre ++ [g]) (rsort first) :: rs) (((g, grules') :: sub_p) ++ sfxp).

Lemma fact_go_FG : forall rec s,
  (forall g rules rs sfxp ss, rec g rules = Ok (rs, sfxp, ss) ->
     ss = map fst sfxp /\ exists chunks, concat chunks = rules /\ FG g 0%Z chunks rs sfxp) ->
  forall chunks gid rs sfxp ss, fact_go rec s chunks gid = Ok (rs, sfxp, ss) ->
     ss = map fst sfxp /\ FG s gid chunks rs sfxp.
Proof.
  intros rec s Hrec. induction chunks as [|chunk rest IH]; intros gid rs sfxp ss H.
  - cbn in H. injection H as <- <- <-. split; [reflexivity|constructor].
  - destruct chunk as [|r1 [|r2 l]].
    + cbn in H. discriminate.
    + cbn [fact_go] in H. destruct (fact_go rec s rest gid) as [[[rs0 sfxp0] ss0]|] eqn:E; [|discriminate].
      cbn [bind] in H. injection H as <- <- <-. destruct (IH _ _ _ _ E) as [-> HF].
      split; [reflexivity|now constructor].
    + cbn [fact_go] in H.
      destruct (lcp (map rprod (r1 :: r2 :: l))) as [|x pre'] eqn:Ep; [discriminate|].
      destruct (rec (suffix_name s gid) (number_rules (suffix_name s gid)
                  (map (fun r => skipn (length (x :: pre')) (rprod r)) (r1 :: r2 :: l)) 0))
        as [[[gr sub_p] sub_s]|] eqn:Er; [|discriminate].
      cbn [bind] in H.
      destruct (fact_go rec s rest (gid + 1)) as [[[rs0 sfxp0] ss0]|] eqn:E; [|discriminate].
      cbn [bind] in H. injection H as <- <- <-.
      destruct (Hrec _ _ _ _ _ Er) as [-> [chunks' [Hc HF']]].
      destruct (IH _ _ _ _ E) as [-> HF].
      split.
      * cbn. rewrite map_app. reflexivity.
      * apply (FG_group s gid (r1 :: r2 :: l) rest r1 (x :: pre') (suffix_name s gid) chunks' gr sub_p rs0 sfxp0);
          try assumption; try reflexivity.
        -- cbn. lia.
        -- now rewrite Ep.
        -- discriminate.
Qed.

Lemma factorize_list_FG : forall fuel s rules rs sfxp ss,
  factorize_list fuel s rules = Ok (rs, sfxp, ss) ->
  ss = map fst sfxp /\ exists chunks, concat chunks = rules /\ FG s 0%Z chunks rs sfxp.
Proof.
  induction fuel as [|f IH]; intros s rules rs sfxp ss H; [discriminate|].
  rewrite factorize_list_S in H.
  destruct (fact_go_FG (factorize_list f) s IH _ _ _ _ _ H) as [-> HF].
  split; [reflexivity|]. exists (split_chunks rules). split; [apply split_chunks_concat|assumption].
Qed.
