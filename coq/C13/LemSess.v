(* C13/LemSess.v -- sessions of Run.v (several tables alive at once, tables made
   with fmt_obj= from a shared PPTableFormat or from another table's format
   object): every table of every session state is [reachable] with respect to
   ITS OWN records, so the round-trip theorems hold for each of them at any
   moment; operations on one table leave the others as they were *)
From Coq Require Import ZArith List Bool Lia.
From AK Require Import Common.Sx Common.Err C13.Model C13.Run
  C13.LemStr C13.LemFmt C13.LemState C13.LemView C13.LemReach C13.LemEx.
Import ListNotations.
Open Scope Z_scope.

Lemma step_reachable fs rows t o : fields_okb fs = true -> reachable fs rows t ->
  reachable fs rows (fst (step rows t o)).
Proof.
  intros Hfs Hr. destruct o as [|s| |names|lim| |]; cbn [step].
  - unfold obs_print. destruct (print rows t) as [t' r] eqn:E. cbn [fst].
    replace t' with (fst (print rows t)) by (rewrite E; reflexivity). apply R_print, Hr.
  - destruct (set_fmt t s) as [t'|e] eqn:E; cbn [fst]; [apply (R_set fs rows t s t' Hr E)|exact Hr].
  - destruct (set_fmt t (fmt_to_str t)) as [t'|e] eqn:E; cbn [fst];
      [apply (R_set fs rows t _ t' Hr E)|exact Hr].
  - cbn [fst]. apply R_remove, Hr.
  - cbn [fst]. apply R_limits, Hr.
  - destruct (reachable_inv fs rows t Hfs Hr) as [[Ef _] _].
    unfold rebuild. rewrite Ef.
    destruct (ctor fs (Some (fmt_to_str t)) None None) as [t'|e] eqn:E; cbn [fst];
      [apply (R_ctor fs rows _ None None t' E)|exact Hr].
  - cbn [fst]. exact Hr.
Qed.

(* ------------------------------------------------------------------ *)
Definition tab_ok (fs : list field) (rowsets : list (list row)) (o : option table) : Prop :=
  match o with Some tb => reachable fs (nth (tb_k tb) rowsets []) (tb_st tb) | None => True end.
Definition shared_ok (fs : list field) (o : option tstate) : Prop :=
  match o with Some x => reachable fs [] x | None => True end.
Definition sess_ok (fs : list field) (rowsets : list (list row)) (ss : sess) : Prop :=
  Forall (shared_ok fs) (ss_shared ss) /\ Forall (tab_ok fs rowsets) (ss_tabs ss).

Lemma Forall_nth_d {A} (P : A -> Prop) l j d : Forall P l -> P d -> P (nth j l d).
Proof.
  intros H Hd. revert j. induction H as [|x r Hx _ IH]; intros [|j]; cbn [nth]; auto.
Qed.

Lemma Forall_set_nth {A} (P : A -> Prop) l j x : Forall P l -> P x -> Forall P (set_nth l j x).
Proof.
  intros H Hx. revert j. induction H as [|y r Hy Hr IH]; intros [|j]; cbn [set_nth]; constructor; auto.
Qed.

Lemma nth_set_nth_other {A} (l : list A) j j' x d : j' <> j -> nth j' (set_nth l j x) d = nth j' l d.
Proof.
  revert j j'. induction l as [|y r IH]; intros [|j] [|j'] H; cbn [set_nth nth]; try reflexivity; try congruence.
  apply IH. congruence.
Qed.

Lemma src_state_reachable fs rowsets ss s x : sess_ok fs rowsets ss -> src_state ss s = Some x ->
  exists rows', reachable fs rows' x.
Proof.
  intros [Hs Ht]. destruct s as [i|j]; cbn [src_state].
  - intros E. pose proof (Forall_nth_d (shared_ok fs) (ss_shared ss) i None Hs I) as H.
    rewrite E in H. exists []. exact H.
  - pose proof (Forall_nth_d (tab_ok fs rowsets) (ss_tabs ss) j None Ht I) as H.
    destruct (nth j (ss_tabs ss) None) as [tb|]; [|discriminate].
    intros E; inversion E; subst. eexists. exact H.
Qed.

Theorem mstep_ok fs rowsets ss m : fields_okb fs = true -> sess_ok fs rowsets ss ->
  sess_ok fs rowsets (fst (mstep fs rowsets ss m)).
Proof.
  intros Hfs Hss. pose proof Hss as [Hs Ht]. destruct m as [k fmt lim skip|k s lim skip|j o]; cbn [mstep].
  - destruct (ctor fs fmt lim skip) as [t|e] eqn:E; cbn [fst]; split; cbn [add_tab ss_shared ss_tabs]; try exact Hs;
      apply Forall_app; split; try exact Ht; constructor; try constructor.
    cbn [tab_ok tb_k tb_st]. apply (R_ctor fs _ fmt lim skip t E).
  - destruct (src_state ss s) as [x|] eqn:E; cbn [fst]; split; cbn [add_tab ss_shared ss_tabs]; try exact Hs;
      apply Forall_app; split; try exact Ht; constructor; try constructor.
    cbn [tab_ok tb_k tb_st]. destruct (src_state_reachable fs rowsets ss s x Hss E) as [rows' Hr].
    apply (R_obj fs _ rows' x lim skip Hr).
  - pose proof (Forall_nth_d (tab_ok fs rowsets) (ss_tabs ss) j None Ht I) as Hj.
    destruct (nth j (ss_tabs ss) None) as [tb|]; [|exact Hss].
    cbn [tab_ok] in Hj.
    pose proof (step_reachable fs _ (tb_st tb) o Hfs Hj) as Hr.
    destruct (step (nth (tb_k tb) rowsets []) (tb_st tb) o) as [t' x]. cbn [fst] in *.
    split; cbn [set_tab ss_shared ss_tabs]; [exact Hs|].
    apply Forall_set_nth; [exact Ht|]. cbn [tab_ok tb_k tb_st]. exact Hr.
Qed.

Lemma init_sess_ok fs rowsets shared : sess_ok fs rowsets (init_sess fs shared).
Proof.
  split; cbn [init_sess ss_shared ss_tabs]; [|constructor].
  apply Forall_forall. intros o Ho. apply in_map_iff in Ho as (f & <- & _).
  unfold make_shared. destruct (ctor fs f None None) as [t|e] eqn:E; cbn [shared_ok]; [|exact I].
  apply (R_ctor fs [] f None None t E).
Qed.

(* the state-changing part of Run.msteps *)
Fixpoint mrun (fs : list field) (rowsets : list (list row)) (ss : sess) (ops : list mop) : sess :=
  match ops with
  | [] => ss
  | m :: r => mrun fs rowsets (fst (mstep fs rowsets ss m)) r
  end.

Theorem mrun_ok fs rowsets ops : forall ss, fields_okb fs = true -> sess_ok fs rowsets ss ->
  sess_ok fs rowsets (mrun fs rowsets ss ops).
Proof.
  induction ops as [|m r IH]; intros ss Hfs Hss; cbn [mrun]; [exact Hss|].
  apply IH; [exact Hfs|apply mstep_ok; assumption].
Qed.

(* every table of every session: reachable with respect to its own records *)
Theorem session_tables fs rowsets shared ops j tb :
  fields_okb fs = true ->
  nth j (ss_tabs (mrun fs rowsets (init_sess fs shared) ops)) None = Some tb ->
  reachable fs (nth (tb_k tb) rowsets []) (tb_st tb).
Proof.
  intros Hfs E.
  destruct (mrun_ok fs rowsets ops _ Hfs (init_sess_ok fs rowsets shared)) as [_ Ht].
  pose proof (Forall_nth_d (tab_ok fs rowsets) _ j None Ht I) as H. rewrite E in H. exact H.
Qed.

(* the msteps of Run.v really pass through the states of mrun *)
Lemma msteps_length fs rowsets ops : forall ss, length (msteps fs rowsets ss ops) = length ops.
Proof.
  induction ops as [|m r IH]; intros ss; cbn [msteps]; [reflexivity|].
  destruct (mstep fs rowsets ss m) as [ss' x]. cbn [length]. rewrite IH. reflexivity.
Qed.

Lemma msteps_app fs rowsets a : forall b ss,
  msteps fs rowsets ss (a ++ b) = msteps fs rowsets ss a ++ msteps fs rowsets (mrun fs rowsets ss a) b.
Proof.
  induction a as [|m r IH]; intros b ss; [reflexivity|].
  cbn [app msteps mrun]. destruct (mstep fs rowsets ss m) as [ss' x] eqn:E. cbn [fst app].
  rewrite IH. reflexivity.
Qed.

(* ------------------------------------------------------------------ *)
(* no operation touches another table or a shared format object *)
Theorem siblings_untouched fs rowsets ss m j' :
  match m with MOp j _ => j' <> j | _ => (j' < length (ss_tabs ss))%nat end ->
  nth j' (ss_tabs (fst (mstep fs rowsets ss m))) None = nth j' (ss_tabs ss) None /\
  ss_shared (fst (mstep fs rowsets ss m)) = ss_shared ss.
Proof.
  intros H. destruct m as [k fmt lim skip|k s lim skip|j o]; cbn [mstep].
  - destruct (ctor fs fmt lim skip); cbn [fst add_tab ss_tabs ss_shared]; split; try reflexivity;
      apply app_nth1; exact H.
  - destruct (src_state ss s); cbn [fst add_tab ss_tabs ss_shared]; split; try reflexivity;
      apply app_nth1; exact H.
  - destruct (nth j (ss_tabs ss) None) as [tb|]; [|split; reflexivity].
    destruct (step (nth (tb_k tb) rowsets []) (tb_st tb) o) as [t' x]. cbn [fst set_tab ss_tabs ss_shared].
    split; [apply nth_set_nth_other; exact H|reflexivity].
Qed.

(* a table made with fmt_obj=t.fmt from the records of t shows what t shows *)
Theorem view_fmt_obj rows t : t_cols t <> [] -> coherent rows t ->
  snd (print rows (ctor_obj t None None)) = snd (print rows t).
Proof. exact (view_cleared rows t). Qed.

(* ... and made from ANY reachable format object it shows the widths negotiated
   from ITS OWN records, whatever the other table negotiated *)
Theorem view_fmt_obj_own fs rows rows' x lim skip :
  fields_okb fs = true -> reachable fs rows' x -> t_cols (ctor_obj x lim skip) <> [] ->
  snd (print rows (ctor_obj x lim skip)) = expected_view rows (ctor_obj x lim skip).
Proof.
  intros Hfs Hr Hne. apply print_view; [exact Hne|].
  destruct (reachable_inv fs rows' x Hfs Hr) as [Hi _].
  left. apply (ctor_obj_inv fs x lim skip Hi).
Qed.

(* ------------------------------------------------------------------ *)
(* non-vacuity: one PPTableFormat "id:2-8,name:1-20;1:1" shared by a table with short
   and a table with long values; a third table made from the printed first table's
   format object over the long records *)
Definition sw_fields : list field := [mkField [105;100] [] 1 999 2; mkField [110;97;109;101] [] 1 999 4].
Definition sw_short : list row :=
  [[mkCell 0 [1]; mkCell 0 [2]]; [mkCell 1 [1]; mkCell 1 [2]]; [mkCell 2 [1]; mkCell 2 [3]]].
Definition sw_long : list row :=
  [[mkCell 0 [4]; mkCell 0 [10]]; [mkCell 1 [4]; mkCell 1 [11]]; [mkCell 2 [4]; mkCell 2 [9]];
   [mkCell 3 [5]; mkCell 3 [30]]].
Definition sw_fmt : str := [105;100;58;50;45;56;44;110;97;109;101;58;49;45;50;48;59;49;58;49].
Definition sw_ops : list mop :=
  [MNewObj 0 (SShared 0) None None; MNewObj 1 (SShared 0) None None; MOp 0 OPrint; MOp 1 OPrint;
   MNewObj 1 (STable 0) None (Some [[122;122]]); MOp 2 (OSet [59;42]); MOp 2 OPrint; MOp 0 (ORemove [[105;100]]);
   MOp 1 (OLimits (Some (Some 0, Some 2)))].
Definition sw_final : sess := mrun sw_fields [sw_short; sw_long] (init_sess sw_fields [Some sw_fmt]) sw_ops.

Lemma sw_witness :
  fields_okb sw_fields = true /\
  map (fun o => match o with Some tb => fmt_to_str (tb_st tb) | None => [] end) (ss_tabs sw_final) =
    [[110;97;109;101;58;49;45;50;48;59;49;58;49]; [105;100;58;50;45;56;44;110;97;109;101;58;49;45;50;48;59;48;58;50]; [105;100;58;50;45;56;40;53;41;44;110;97;109;101;58;49;45;50;48;40;50;48;41]] /\
  map (fun o => match o with Some t => fmt_to_str t | None => [] end) (ss_shared sw_final) =
    [[105;100;58;50;45;56;44;110;97;109;101;58;49;45;50;48;59;49;58;49]].
Proof. split; [vm_compute; reflexivity|]. split; vm_compute; reflexivity. Qed.

(* ------------------------------------------------------------------ *)
(* Field names are resolved EXACTLY (round 4; seeded change C13-m8 resolved them through a
   lower-cased key in the setter only).  [get_field] compares code point by code point
   ([str_eqb_eq]): whatever two distinct names have in common - letter case, Unicode
   normalisation / case folding, blanks, one a prefix of the other, the same numeric value,
   the spelling of a modifier - each resolves to its own field, and a spelling that is no
   field name resolves to nothing. *)
Lemma get_field_exact fs n f : get_field fs n = Some f -> In f fs /\ f_name f = n.
Proof. intros H. split; [exact (get_field_in _ _ _ H)|exact (get_field_name _ _ _ H)]. Qed.

Lemma get_field_none fs n : get_field fs n = None <-> ~ In n (map f_name fs).
Proof.
  induction fs as [|g r IH]; cbn [get_field map In]; [split; [intros _ []|reflexivity]|].
  destruct (str_eqb (f_name g) n) eqn:E.
  - apply str_eqb_eq in E. split; [discriminate|]. intros H. exfalso. apply H. left. exact E.
  - split.
    + intros H [Hn|Hn]; [|apply IH in H; exact (H Hn)].
      subst n. rewrite str_eqb_refl in E. discriminate.
    + intros H. apply IH. intros Hn. apply H. right. exact Hn.
Qed.

Lemma existsb_str_in x l : existsb (str_eqb x) l = true <-> In x l.
Proof.
  rewrite existsb_exists. split.
  - intros (y & Hy & E). apply str_eqb_eq in E. subst y. exact Hy.
  - intros H. exists x. split; [exact H|apply str_eqb_refl].
Qed.

Lemma get_field_own fs f : has_dup (map f_name fs) = false -> In f fs -> get_field fs (f_name f) = Some f.
Proof.
  induction fs as [|g r IH]; [intros _ []|]. cbn [map has_dup get_field]. intros Hd Hin.
  apply orb_false_iff in Hd as [Hg Hr].
  destruct Hin as [->|Hin]; [rewrite str_eqb_refl; reflexivity|].
  destruct (str_eqb (f_name g) (f_name f)) eqn:E; [|exact (IH Hr Hin)].
  apply str_eqb_eq in E. exfalso.
  assert (existsb (str_eqb (f_name g)) (map f_name r) = true) as Hx; [|rewrite Hx in Hg; discriminate].
  apply existsb_str_in. rewrite E. apply in_map. exact Hin.
Qed.

Definition shown_by_setter (p : pcol) : bool := negb (is_neg (p_min p) && is_neg (p_max p)).
Definition shown_by_ctor (p : pcol) : bool := negb (is_neg (p_max p)).

Lemma mk_column_name f m b mn mx c : mk_column f m b mn mx = Ok c -> c_name c = f_name f.
Proof. unfold mk_column. destruct (mod_ok f m); [|discriminate]. intros H; inversion H; reflexivity. Qed.

(* the columns the setter / the constructor build carry literally the names written in the
   fmt string, each of them literally the name of a field *)
Lemma setter_cols_names fs l : forall cs, setter_cols fs l = Ok cs ->
  map c_name cs = map p_name (filter shown_by_setter l) /\ incl (map p_name l) (map f_name fs).
Proof.
  induction l as [|p r IH]; intros cs; cbn [setter_cols filter map].
  - intros H; inversion H. split; [reflexivity|intros x []].
  - destruct (get_field fs (p_name p)) as [f|] eqn:Eg; [|discriminate].
    destruct (get_field_exact _ _ _ Eg) as [Hin Hnm].
    assert (forall cs', setter_cols fs r = Ok cs' -> incl (map p_name (p :: r)) (map f_name fs)) as Hincl.
    { intros cs' H x [<-|Hx]; [rewrite <- Hnm; apply in_map; exact Hin|exact (proj2 (IH _ H) x Hx)]. }
    assert (shown_by_setter p = negb (is_neg (p_min p) && is_neg (p_max p))) as -> by reflexivity.
    destruct (is_neg (p_min p) && is_neg (p_max p)); cbn [negb].
    + intros H. split; [exact (proj1 (IH _ H))|exact (Hincl _ H)].
    + destruct (mk_column f (p_mod p) (p_break p) (p_min p) (p_max p)) as [c|] eqn:Ec; [|discriminate].
      destruct (setter_cols fs r) as [cs'|] eqn:Er; [|discriminate].
      intros H; inversion H; subst cs. cbn [map]. split; [|exact (Hincl _ eq_refl)].
      rewrite (mk_column_name _ _ _ _ _ _ Ec), Hnm. f_equal. exact (proj1 (IH _ eq_refl)).
Qed.

Lemma ctor_cols_names fs l : forall cs, ctor_cols fs l = Ok cs ->
  map c_name cs = map p_name (filter shown_by_ctor l) /\
  incl (map p_name (filter shown_by_ctor l)) (map f_name fs).
Proof.
  induction l as [|p r IH]; intros cs; cbn [ctor_cols filter map].
  - intros H; inversion H. split; [reflexivity|intros x []].
  - assert (shown_by_ctor p = negb (is_neg (p_max p))) as -> by reflexivity.
    destruct (is_neg (p_max p)); cbn [negb]; [exact (IH cs)|].
    destruct (get_field fs (p_name p)) as [f|] eqn:Eg; [|discriminate].
    destruct (get_field_exact _ _ _ Eg) as [Hin Hnm].
    destruct (mk_column f (p_mod p) (p_break p) (p_min p) (p_max p)) as [c|] eqn:Ec; [|discriminate].
    destruct (ctor_cols fs r) as [cs'|] eqn:Er; [|discriminate].
    intros H; inversion H; subst cs. cbn [map]. destruct (IH _ eq_refl) as [H1 H2]. split.
    + rewrite (mk_column_name _ _ _ _ _ _ Ec), Hnm. f_equal. exact H1.
    + intros x [<-|Hx]; [rewrite <- Hnm; apply in_map; exact Hin|exact (H2 x Hx)].
Qed.

Lemma clone_names cs : map c_name (map clone_col cs) = map c_name cs.
Proof. rewrite map_map. apply map_ext. intros c. reflexivity. Qed.

(* the round trip keeps the columns on their fields: same names in the same order *)
Lemma roundtrip_names t : wf t = true ->
  (exists t', set_fmt t (fmt_to_str t) = Ok t' /\ t_fields t' = t_fields t /\
              map c_name (t_cols t') = map c_name (t_cols t)) /\
  (t_cols t <> [] ->
   exists t', ctor (t_fields t) (Some (fmt_to_str t)) None None = Ok t' /\ t_fields t' = t_fields t /\
              map c_name (t_cols t') = map c_name (t_cols t)).
Proof.
  intros H. split.
  - exists (reformatted t). split; [exact (set_fmt_roundtrip t H)|]. split; [reflexivity|apply clone_names].
  - intros Hne. exists (rebuilt t). split; [exact (ctor_roundtrip t H Hne)|]. split; [reflexivity|apply clone_names].
Qed.

(* non-vacuity: eight fields whose names nearly collide - n / N, the NFC / NFD spellings of
   e-acute, 'a b' / 'a  b' / 'ab' / 'a' - every field with values of its own length, so that a
   column bound to a neighbour of its field would be handed another width *)
Definition nn_fields : list field :=
  [mkField [110] [] 1 999 1; mkField [78] [] 1 999 1; mkField [233] [] 1 999 1; mkField [101;769] [] 1 999 2;
   mkField [97;32;98] [] 1 999 3; mkField [97;32;32;98] [] 1 999 4; mkField [97;98] [] 1 999 2; mkField [97] [] 1 999 1].
Definition nn_rows : list row :=
  [[mkCell 0 [5]; mkCell 0 [6]; mkCell 0 [7]; mkCell 0 [8]; mkCell 0 [9]; mkCell 0 [10]; mkCell 0 [11]; mkCell 0 [12]];
   [mkCell 1 [5]; mkCell 1 [6]; mkCell 1 [7]; mkCell 1 [8]; mkCell 1 [9]; mkCell 1 [10]; mkCell 1 [11]; mkCell 1 [13]]].
(* "N:3-12,a  b!,n:1-9,é,ab,a,é,a b" *)
Definition nn_fmt : str :=
  [78;58;51;45;49;50;44;97;32;32;98;33;44;110;58;49;45;57;44;101;769;44;97;98;44;97;44;233;44;97;32;98].
Definition nn_names : list str := [[78]; [97;32;32;98]; [110]; [101;769]; [97;98]; [97]; [233]; [97;32;98]].
Definition nn_fresh : tstate :=
  match ctor nn_fields (Some nn_fmt) None None with Ok t => t | Err _ => mkT [] [] None None None end.
Definition nn_printed : tstate := fst (print nn_rows nn_fresh).

Lemma nn_witness :
  fields_okb nn_fields = true /\ wf nn_printed = true /\
  map c_name (t_cols nn_printed) = nn_names /\
  snd (print nn_rows nn_printed) = Ok (mkView [6; 10; 5; 8; 11; 13; 7; 9] [LRec 0; LBreak; LRec 1] 0) /\
  set_fmt nn_printed (fmt_to_str nn_printed) = Ok (reformatted nn_printed) /\
  map c_name (t_cols (reformatted nn_printed)) = nn_names /\
  snd (print nn_rows (reformatted nn_printed)) = snd (print nn_rows nn_printed) /\
  snd (print nn_rows (rebuilt nn_printed)) = snd (print nn_rows nn_printed) /\
  (* near-miss spellings are no fields: refused by the setter and by the constructor, ignored by remove_columns *)
  set_fmt nn_printed [65;32;66] = Err ValueErr /\ set_fmt nn_printed [69;769] = Err ValueErr /\
  set_fmt nn_printed [97;98;99] = Err ValueErr /\ ctor nn_fields (Some [65]) None None = Err AttrErr /\
  remove_columns nn_printed [[65]; [97;9;98]; [201]] = nn_printed /\
  map c_name (t_cols (remove_columns nn_printed [[110]; [97]])) = [[78]; [97;32;32;98]; [101;769]; [97;98]; [233]; [97;32;98]].
Proof. vm_compute. repeat split; reflexivity. Qed.
