(* C18/Props.v -- the property theorems, nothing else.
   "Objects read from a sheet match their source cells."
   A worksheet is a list of rows of cell values; the cell in row r, column c (0-based) has the
   coordinate [coord_text r c].
   [read_table_m mc sh] = XlsTableReader(rules_1, ..., rules_n).iter_table: (tuples yielded, exception
   that ended the iteration if any); a tuple has one item per rule set (object class), an item is
   [Some object] or [None] (row without id values for that class).  The column names claimed by name
   are those of ALL rule sets: [known_all (mc_objs mc)].
   [read_table cf sh] = the module-level iter_table / read_table / TableReader: one object class, the
   items themselves; it IS the reader with one rule set, unpacked (single_is_multi), and
   [read_table_k known cf sh] is the reading of one rule set when [known] are the claimed names
   (read_table cf = read_table_k (known_names (cf_rules cf)) cf by definition; objects_independent:
   the i-th components of a multi reading are read_table_k (known_all ...) of the i-th rule set). *)
From Coq Require Import ZArith List Bool.
From AK Require Import Common.Err C18.Base gen.C18_Consts C18.Model C18.Lemmas C18.LemmasLadder C18.LemmasCoord C18.LemmasRange C18.Session C18.LemmasSession C18.LemmasMulti.
Import ListNotations.

(* the origin markers read from the source can never be mistaken for a coordinate *)
Theorem markers_are_not_coordinates :
  forallb not_coord_start [marker_na; marker_skipped; marker_range_empty; marker_key_na] = true.
Proof. exact markers_not_coords. Qed.
Print Assumptions markers_are_not_coordinates.

(* ---------------------------------------------------------------------------------------- *)
(* single_is_multi.  The module-level iter_table builds XlsTableReader(rules) and unpacks the
   1-tuples ([iter_table_fn], what Run.v evaluates for single readings): that is [read_table];
   and the reader with one rule set yields the items of [read_table] as 1-tuples.  So every theorem
   about [read_table_m] below has the theorem about [read_table] as its one-element special case
   (origin_consistent_single, rows_in_order_single are derived that way). *)
Theorem single_is_multi : forall cf sh,
  iter_table_fn cf sh = read_table cf sh /\
  read_table_m (mc_one cf) sh = (map (fun x => [x]) (fst (read_table cf sh)), snd (read_table cf sh)).
Proof. intros cf sh. split; [apply read_table_one|apply read_table_m_one]. Qed.
Print Assumptions single_is_multi.

(* ---------------------------------------------------------------------------------------- *)
(* origin_consistent (full).  For every object produced from a worksheet -- the i-th object of the
   j-th tuple of a reader with any number of rule sets -- and every attribute (rule ru of the i-th
   rule set, value v, recorded origin og), [attr_sheet_ok sh known] holds with known = the column
   names claimed by ALL rule sets:
   - ru = RPlain col cv _, og = OCell r c: the sheet cell (r, c) exists, column c is titled col in
     the title row, and v is the conversion of that cell (val_from_val cv);
   - ru = RPlain col _ (Some d), og = OSkipped: no column is titled col and v is the default d;
   - ru = RExt d, og = ONa: v is the default d;
   - ru = RRange isdict cv _, og = ORange dict: there are sheet cells, one per column name of the
     detected range group [range_scan known titles] and each standing in a column with that title,
     such that v is the range conversion of these cells and dict maps each title to its cell's
     coordinate;
   no other combination occurs.  This holds for objects yielded before an exception, too. *)
Theorem origin_consistent : forall mc sh items e j tup i ob o,
  read_table_m mc sh = (items, e) -> nth_error items j = Some tup ->
  nth_error (mc_objs mc) i = Some ob -> nth_error tup i = Some (Some o) ->
  Forall2 (attr_sheet_ok sh (known_all (mc_objs mc))) (fst ob) (o_attrs o).
Proof. exact origin_consistent_m_l. Qed.
Print Assumptions origin_consistent.

(* one rule set (iter_table / read_table / TableReader): the special case *)
Theorem origin_consistent_single : forall cf sh items e j o,
  read_table cf sh = (items, e) -> nth_error items j = Some (Some o) ->
  Forall2 (attr_sheet_ok sh (known_names (cf_rules cf))) (cf_rules cf) (o_attrs o).
Proof. exact origin_consistent_one. Qed.
Print Assumptions origin_consistent_single.

(* ---------------------------------------------------------------------------------------- *)
(* objects_independent (full).  The objects of one table row do not influence each other beyond the
   set of claimed column names: with [single_of mc sh ob] = what the rules of ob alone read from the
   sheet when the names claimed by all rule sets of the reader count as known
   (read_table_k (known_all (mc_objs mc)) (mc_cf mc ob) sh),
   - the i-th item of the j-th tuple is the j-th item of the reading of the i-th rule set;
   - the reader yields tuples as long as every rule set can be read: no reading is shorter than the
     tuple list; without exception all of them end there too, without exception; with exception x
     some rule set's own reading ends exactly there with x (bind_titles_row / construct of that
     object raised), or the reader has no rule set at all. *)
Theorem objects_independent : forall mc sh items e,
  read_table_m mc sh = (items, e) ->
  (forall j tup, nth_error items j = Some tup ->
     Forall2 (fun ob it => nth_error (fst (single_of mc sh ob)) j = Some it) (mc_objs mc) tup) /\
  (forall ob, In ob (mc_objs mc) -> (length items <= length (fst (single_of mc sh ob)))%nat) /\
  match e with
  | None => forall ob, In ob (mc_objs mc) ->
                       snd (single_of mc sh ob) = None /\ length (fst (single_of mc sh ob)) = length items
  | Some x => mc_objs mc = [] \/
              exists ob, In ob (mc_objs mc) /\ snd (single_of mc sh ob) = Some x /\
                         length (fst (single_of mc sh ob)) = length items
  end.
Proof. exact objects_independent_l. Qed.
Print Assumptions objects_independent.

(* non-vacuity, and the point of the union: titles Id Name math art Room Desk, a student
   (Id, Name, ranged grades) and a seat (Room, Desk) per row.  The range group of the student is
   math, art -- Room and Desk are claimed by the other object; with the student's own names only
   the group would be math, art, Room, Desk. *)
Example ex_two_objects :
  map (map (option_map (fun o => map (fun a => origin_text (snd a)) (o_attrs o)))) (fst (read_table_m ex2_mc ex2_sheet)) =
  [ [ Some [coord_text 1 0; coord_text 1 1; coord_text 1 2 ++ [58%Z] ++ coord_text 1 3];
      Some [coord_text 1 4; coord_text 1 5] ];
    [ Some [coord_text 2 0; coord_text 2 1; coord_text 2 2 ++ [58%Z] ++ coord_text 2 3];
      Some [coord_text 2 4; coord_text 2 5] ] ] /\
  snd (read_table_m ex2_mc ex2_sheet) = None /\
  range_scan (known_all (mc_objs ex2_mc)) (sheet_titles ex2_sheet) false = [[109%Z]; [97%Z]] /\
  range_scan (known_names [RPlain [73;100] ex2_int None; RPlain [78] (mkConv KStr None None None) None;
                           RRange true ex2_int false]) (sheet_titles ex2_sheet) false =
  [[109%Z]; [97%Z]; [82%Z]; [68%Z]].
Proof. exact ex_two_objects_l. Qed.
Print Assumptions ex_two_objects.

(* ... and get_attr_origin reports exactly the recorded origin: the coordinate text of the cell,
   the marker, the range text; with a key, the coordinate of that key's cell of a ranged attribute
   (ValueError / "n/a" for an unknown key, ValueError for a key on a single-cell attribute) *)
Theorem origin_reported : forall o i v og,
  nth_error (o_attrs o) i = Some (v, og) ->
  get_attr_origin o (Some i) None true = Ok (origin_text og) /\
  forall k strict,
    get_attr_origin o (Some i) (Some k) strict =
    match og with
    | ORange d => match assoc_get k d with
                  | Some (r, c) => Ok (coord_text r c)
                  | None => if strict then Err ValueErr else Ok marker_key_na
                  end
    | _ => Err ValueErr
    end.
Proof. exact origin_text_l. Qed.
Print Assumptions origin_reported.

(* incl_ws=True puts the sheet name (quoted when it contains a space) and one space in front of
   exactly what is reported without it; the exceptions are the same *)
Theorem origin_reported_ws : forall o title attr key strict,
  get_attr_origin_ws o title attr key false strict = get_attr_origin o attr key strict /\
  get_attr_origin_ws o title attr key true strict =
  match get_attr_origin o attr key strict with
  | Ok s => Ok (ws_name title ++ [32%Z] ++ s)
  | Err e => Err e
  end.
Proof. intros. unfold get_attr_origin_ws. destruct (get_attr_origin o attr key strict); split; reflexivity. Qed.
Print Assumptions origin_reported_ws.

(* for a CellRangeDict attribute: the cell reported for key k is the cell whose conversion is the
   value stored under k *)
Theorem range_key_consistent : forall cv rn cells dv k r c,
  length rn = length cells ->
  range_value true cv rn cells = Ok (VDict dv) ->
  assoc_get k (dict_of (combine rn (map cpos cells))) = Some (r, c) ->
  exists x sv, In x cells /\ cpos x = (r, c) /\ val_from_cell cv x = Ok sv /\
               assoc_get k dv = Some sv.
Proof. exact range_key_dict. Qed.
Print Assumptions range_key_consistent.

(* ---------------------------------------------------------------------------------------- *)
(* rows_in_order (full).  With t the index of the title row (first non-blank row): tuple j belongs
   to sheet row t+1+j, which exists and is not an end row under the chosen rule ([vis_end]: first
   cell blank for "blank first", all cells blank otherwise; [mc_loop mc] = the stop_on /
   ladder_format part of the configuration); it has one item per rule set; every origin of every
   object of the tuple lies in that row (ladder: in rows t+1 .. t+1+j); and a reading that ends
   without exception ends at the end of the sheet or at an end row.  Without a title row nothing is
   produced.  (Any number of rule sets, zero included.) *)
Theorem rows_in_order : forall mc sh items e,
  read_table_m mc sh = (items, e) ->
  match title_row sh with
  | None => items = [] /\ e = None
  | Some (t, tvs) =>
      (forall j tup, nth_error items j = Some tup ->
         exists vs, nth_error sh (S t + j) = Some vs /\ vis_end (mc_loop mc) vs = Ok false /\
           length tup = length (mc_objs mc) /\
           forall i o, nth_error tup i = Some (Some o) ->
             Forall (fun a => origin_rows (if mc_ladder mc then S t else (S t + j)%nat) (S t + j) (snd a))
                    (o_attrs o)) /\
      (e = None ->
       match nth_error sh (S t + length items) with
       | None => True
       | Some vs => vis_end (mc_loop mc) vs = Ok true
       end)
  end.
Proof. exact rows_in_order_m_l. Qed.
Print Assumptions rows_in_order.

(* one rule set: the special case *)
Theorem rows_in_order_single : forall cf sh items e,
  read_table cf sh = (items, e) ->
  match title_row sh with
  | None => items = [] /\ e = None
  | Some (t, tvs) =>
      (forall j item, nth_error items j = Some item ->
         exists vs, nth_error sh (S t + j) = Some vs /\ vis_end cf vs = Ok false /\
           forall o, item = Some o ->
             Forall (fun a => origin_rows (if cf_ladder cf then S t else (S t + j)%nat) (S t + j) (snd a))
                    (o_attrs o)) /\
      (e = None ->
       match nth_error sh (S t + length items) with
       | None => True
       | Some vs => vis_end cf vs = Ok true
       end)
  end.
Proof. exact rows_in_order_one. Qed.
Print Assumptions rows_in_order_single.

(* ---------------------------------------------------------------------------------------- *)
(* The ladder theorems are stated for [read_table_k known cf]: the reading of ONE rule set with any
   set [known] of claimed column names -- known = known_names (cf_rules cf) is [read_table cf]
   (iter_table / read_table / TableReader), known = known_all (mc_objs mc) is the component
   [single_of mc sh ob] of a reader with several rule sets (objects_independent); the ladder
   substitution does not depend on the rules at all. *)
(* ladder_equiv (full for the default end rule).  [fill_sheet sh] = the table with the "same as
   above" cells filled in (LemmasLadder.v: below the title row and down to the first wholly blank
   row, a run of blank cells starting at the first titled column takes the cells of the filled row
   above).  Reading the ladder sheet in ladder mode and the filled-in sheet in plain mode gives the
   same item values row by row and the same exception, if any ([out_sim]). *)
Theorem ladder_equiv : forall known cf sh w,
  Forall (fun vs => length vs = w) sh -> cf_ladder cf = true -> stop_first cf = false ->
  out_sim (read_table_k known cf sh) (read_table_k known (plain_of cf) (fill_sheet sh)).
Proof. exact ladder_equiv_l. Qed.
Print Assumptions ladder_equiv.

(* the statement for both end rules ... *)
Definition ladder_equiv_statement : Prop := forall known cf sh w,
  Forall (fun vs => length vs = w) sh -> cf_ladder cf = true ->
  out_sim (read_table_k known cf sh) (read_table_k known (plain_of cf) (fill_sheet sh)).

(* ... is violated by the faithful model for stop_on="blank first": the table ends at the first
   "same as above" row (1 item against 3) -- finding ladder-blank-first (witness: one rule set,
   read_table) *)
Theorem ladder_blank_first_refuted :
  exists cf sh w,
    Forall (fun vs => length vs = w) sh /\ cf_ladder cf = true /\ stop_first cf = true /\
    length (fst (read_table cf sh)) = 1%nat /\
    length (fst (read_table (plain_of cf) (fill_sheet sh))) = 3%nat /\
    snd (read_table cf sh) = None /\ snd (read_table (plain_of cf) (fill_sheet sh)) = None.
Proof. exact ladder_blank_first_refuted_l. Qed.
Print Assumptions ladder_blank_first_refuted.

(* guarded: it does hold for "blank first" when the first sheet column is not part of the ladder
   (its title is blank) *)
Theorem ladder_equiv_guarded : forall known cf sh w,
  Forall (fun vs => length vs = w) sh -> cf_ladder cf = true ->
  (stop_first cf = false \/ first_some_pos (sheet_titles sh) 0 <> Some 0%nat) ->
  out_sim (read_table_k known cf sh) (read_table_k known (plain_of cf) (fill_sheet sh)).
Proof. exact ladder_equiv_gen. Qed.
Print Assumptions ladder_equiv_guarded.

(* ... and in the remaining situation -- finding ladder-blank-first -- the ladder reading is a
   PREFIX of the reading of the filled-in table: for every ladder reading (both end rules) the item
   values are those of the filled-in table, row by row, as far as the ladder reading goes; either
   the two readings agree to the end (same exception, if any), or stop_on = "blank first", the
   ladder starts in the first sheet column and the ladder reading ended without an exception --
   by rows_in_order at a row whose first cell is blank, i.e. at a "same as above" row (witness:
   ladder_blank_first_refuted, where 2 items are missing). *)
Theorem ladder_prefix : forall known cf sh w,
  Forall (fun vs => length vs = w) sh -> cf_ladder cf = true ->
  exists rest,
    map item_vals (fst (read_table_k known (plain_of cf) (fill_sheet sh))) =
    map item_vals (fst (read_table_k known cf sh)) ++ rest /\
    ((rest = [] /\ snd (read_table_k known cf sh) = snd (read_table_k known (plain_of cf) (fill_sheet sh))) \/
     (stop_first cf = true /\ first_some_pos (sheet_titles sh) 0 = Some 0%nat /\
      snd (read_table_k known cf sh) = None)).
Proof. exact ladder_prefix_l. Qed.
Print Assumptions ladder_prefix.

(* ladder_origins (full: single-cell attributes and every key of a ranged attribute).  In a
   ladder reading every origin (r, c) of the object of sheet row R = t+1+j -- the origin of a
   single-cell attribute, or the origin recorded under a key k of a ranged attribute (what
   get_attr_origin(attr, k) reports, origin_reported) -- lies in rows t+1 .. R, holds exactly what
   the filled-in table has at (R, c), and is the object's own cell whenever that is not blank. *)
Theorem ladder_origins :
  forall known cf sh w items e t tvs j o i v og r c,
  Forall (fun vs => length vs = w) sh -> cf_ladder cf = true ->
  read_table_k known cf sh = (items, e) -> title_row sh = Some (t, tvs) ->
  nth_error items j = Some (Some o) -> nth_error (o_attrs o) i = Some (v, og) ->
  (og = OCell r c \/ exists d k, og = ORange d /\ assoc_get k d = Some (r, c)) ->
  (S t <= r <= S t + j)%nat /\
  (exists x, cell_at sh r c = Some x /\ cell_at (fill_sheet sh) (S t + j) c = Some x) /\
  (forall y, cell_at sh (S t + j) c = Some y -> val_empty y = false -> r = (S t + j)%nat).
Proof. exact ladder_origins_l. Qed.
Print Assumptions ladder_origins.

(* ---------------------------------------------------------------------------------------- *)
(* The ladder theorems for a reader with several rule sets, directly on the tuples:
   [out_sim_m a b]: the same values, tuple by tuple and item by item, and the same exception;
   [plain_m mc]: the same rule sets read with ladder_format = False. *)
Theorem ladder_equiv_multi : forall mc sh w,
  Forall (fun vs => length vs = w) sh -> mc_ladder mc = true ->
  (stop_first (mc_loop mc) = false \/ first_some_pos (sheet_titles sh) 0 <> Some 0%nat) ->
  out_sim_m (read_table_m mc sh) (read_table_m (plain_m mc) (fill_sheet sh)).
Proof. exact ladder_equiv_m_gen. Qed.
Print Assumptions ladder_equiv_multi.

Theorem ladder_prefix_multi : forall mc sh w,
  Forall (fun vs => length vs = w) sh -> mc_ladder mc = true ->
  exists rest,
    map tuple_vals (fst (read_table_m (plain_m mc) (fill_sheet sh))) =
    map tuple_vals (fst (read_table_m mc sh)) ++ rest /\
    ((rest = [] /\ snd (read_table_m mc sh) = snd (read_table_m (plain_m mc) (fill_sheet sh))) \/
     (stop_first (mc_loop mc) = true /\ first_some_pos (sheet_titles sh) 0 = Some 0%nat /\
      snd (read_table_m mc sh) = None)).
Proof. exact ladder_prefix_m_l. Qed.
Print Assumptions ladder_prefix_multi.

Theorem ladder_origins_multi :
  forall mc sh w items e t tvs j tup k ob o i v og r c,
  Forall (fun vs => length vs = w) sh -> mc_ladder mc = true ->
  read_table_m mc sh = (items, e) -> title_row sh = Some (t, tvs) ->
  nth_error items j = Some tup ->
  nth_error (mc_objs mc) k = Some ob -> nth_error tup k = Some (Some o) ->
  nth_error (o_attrs o) i = Some (v, og) ->
  (og = OCell r c \/ exists d key, og = ORange d /\ assoc_get key d = Some (r, c)) ->
  (S t <= r <= S t + j)%nat /\
  (exists x, cell_at sh r c = Some x /\ cell_at (fill_sheet sh) (S t + j) c = Some x) /\
  (forall y, cell_at sh (S t + j) c = Some y -> val_empty y = false -> r = (S t + j)%nat).
Proof. exact ladder_origins_m_l. Qed.
Print Assumptions ladder_origins_multi.

(* non-vacuity: a ladder table with three object classes per row *)
Definition ex3_sheet : list (list cval) :=
  [ [CStr [89]; CStr [77]; CStr [68]; CStr [117]; CStr [87]];            (* Y M D u W *)
    [CInt 2019; CInt 11; CInt 1; CInt 5; CStr [97]];
    [CNone; CInt 12; CInt 2; CInt 6; CNone];
    [CNone; CNone; CInt 3; CInt 7; CStr [98]] ].
Definition ex3_mc : mconfig :=
  mkMConfig [ ([RPlain [89] ex2_int None; RPlain [77] ex2_int None], 2%nat);
              ([RPlain [68] ex2_int None; RRange true ex2_int false], 1%nat);
              ([RPlain [87] (mkConv KStr None None None) None; RPlain [77] ex2_int None], 1%nat) ] [] true.
Example ex_three_objects_ladder :
  map (map (option_map (fun o => map (fun a => origin_text (snd a)) (o_attrs o)))) (fst (read_table_m ex3_mc ex3_sheet)) =
  [ [ Some [coord_text 1 0; coord_text 1 1]; Some [coord_text 1 2; coord_text 1 3]; Some [coord_text 1 4; coord_text 1 1] ];
    [ Some [coord_text 1 0; coord_text 2 1]; Some [coord_text 2 2; coord_text 2 3]; None ];
    [ Some [coord_text 1 0; coord_text 2 1]; Some [coord_text 3 2; coord_text 3 3]; Some [coord_text 3 4; coord_text 2 1] ] ] /\
  snd (read_table_m ex3_mc ex3_sheet) = None /\
  map tuple_vals (fst (read_table_m ex3_mc ex3_sheet)) =
  map tuple_vals (fst (read_table_m (plain_m ex3_mc) (fill_sheet ex3_sheet))) /\
  Forall (fun vs => length vs = 5%nat) ex3_sheet /\ mc_ladder ex3_mc = true /\ stop_first (mc_loop ex3_mc) = false.
Proof. vm_compute. repeat split; repeat constructor. Qed.
Print Assumptions ex_three_objects_ladder.

(* ---------------------------------------------------------------------------------------- *)
(* range_detect (full).  The column names of a ranged attribute ([range_scan known names false],
   which origin_consistent ties to every produced object, with known = known_all (mc_objs mc): the
   names claimed by ALL rule sets of the reader) are the first maximal run of titled
   columns that no rule names: everything before it is blank-titled or known, and it ends at the
   end of the title row or at a blank-titled / known column ... *)
Theorem range_detect : forall known names,
  exists pre post,
    names = pre ++ range_scan known names false ++ post /\
    Forall (fun n => not_range known n = true) pre /\
    Forall (fun n => not_range known n = false) (range_scan known names false) /\
    (post = [] \/ exists n post', post = n :: post' /\ not_range known n = true).
Proof. exact range_scan_spec. Qed.
Print Assumptions range_detect.

(* ... where a column counts as known exactly when its title is blank or some rule set of the reader
   names it (for one rule set: known_all [(rules, nid)] = known_names rules) ... *)
Theorem range_known_union : forall objs n,
  not_range (known_all objs) n = true <->
  n = [] \/ exists ob, In ob objs /\ In n (known_names (fst ob)).
Proof. exact not_range_known_all. Qed.
Print Assumptions range_known_union.

(* ... and, when the titles are distinct, the cells read for it are exactly the cells of these
   consecutive columns, in order (with duplicate titles the later column wins: col_names_ids) *)
Theorem range_columns : forall (post run : list str) (cells : list cell) (pre : list str),
  NoDup (pre ++ run ++ post) ->
  Forall2 (fun n (x : cell) => nth_error (pre ++ run ++ post) (c_col x) = Some n) run cells ->
  map c_col cells = seq (length pre) (length run).
Proof. exact range_cols_nodup. Qed.
Print Assumptions range_columns.

(* ---------------------------------------------------------------------------------------- *)
(* range_text (full).  The text get_attr_origin(attr) gives for a whole ranged attribute
   (model of sorted(origins.values(), key=_coord_sort_key), Model.range_text).
   [pos_le p q]: cell p = (row, column) stands in a column left of q's, or in the same column and
   not below it.  For ANY recorded origins d -- any number of columns (A..Z, AA, AB, ... the
   column letters are the bijective base-26 numeral, LemmasCoord.v), any insertion order, source
   cells of different rows -- the text is the marker (no cells), the coordinate (one cell), or
   "<p>:<q>" where p and q are source cells, no source cell is left of p and none is right of q.
   Ladder mode: the source cells of one ranged attribute can come from different rows (leading
   blank cells are taken from rows above, ladder_origins); the text then names the leftmost and
   the rightmost source cell, each with its own row (e.g. "B2:C3", range_text_ladder_example): it
   is not the bounding rectangle, and the individual cells are reported by
   get_attr_origin(attr, key). *)
Theorem range_text_extremes : forall d : list (str * (nat * nat)),
  match map snd d with
  | [] => range_text d = marker_range_empty
  | [p] => range_text d = pos_text p
  | _ => exists p q, In p (map snd d) /\ In q (map snd d) /\
                     (forall x, In x (map snd d) -> pos_le p x /\ pos_le x q) /\
                     range_text d = pos_text p ++ [58%Z] ++ pos_text q
  end.
Proof. exact range_text_extremes_l. Qed.
Print Assumptions range_text_extremes.

(* object level: with distinct titles the cells read for the range group stand in strictly
   increasing columns (range_columns), in any rows; then the text is
   "<first source cell>:<last source cell>" ([range_text_spec]) -- for all column counts *)
Theorem range_text : forall names cells,
  NoDup names -> length names = length cells ->
  (forall i j x y, (i < j)%nat -> nth_error cells i = Some x -> nth_error cells j = Some y ->
                   (c_col x < c_col y)%nat) ->
  range_text (dict_of (combine names (map cpos cells))) = range_text_spec (map cpos cells).
Proof. exact range_text_l. Qed.
Print Assumptions range_text.

(* the former witness of finding origin-range-string-sort (coordinates were sorted as strings and
   the text was "AA2:Z2"): source cells Y2 Z2 AA2 AB2 now give "Y2:AB2" *)
Example range_text_wide_example :
  exists o,
    read_table wide_cf wide_sheet = ([Some o], None) /\
    (exists v, nth_error (o_attrs o) 1 = Some (v, ORange wide_origins)) /\
    get_attr_origin o (Some 1%nat) None true = Ok wide_text.
Proof. exact range_text_wide_l. Qed.
Print Assumptions range_text_wide_example.

(* ladder sheet  Y p q / 2019 5 6 / - - 7 : the ranged attribute of the second object has the
   source cells B2 (taken from the row above) and C3; the text is "B2:C3" *)
Example range_text_ladder_example :
  exists o1 o2,
    read_table lad_cf lad_sheet = ([Some o1; Some o2], None) /\
    (exists v, nth_error (o_attrs o2) 1 =
               Some (v, ORange [([112%Z], (1%nat, 1%nat)); ([113%Z], (2%nat, 2%nat))])) /\
    get_attr_origin o2 (Some 1%nat) None true = Ok [66%Z; 50%Z; 58%Z; 67%Z; 51%Z].
Proof. exact range_text_ladder_l. Qed.
Print Assumptions range_text_ladder_example.

(* ---------------------------------------------------------------------------------------- *)
(* non-vacuity: a ladder sheet with leading blank row, unknown and blank-titled columns, a ranged
   attribute, an optional missing column and an external attribute is read into 3 objects with
   the expected origins; the hypotheses of the theorems above are met by it *)
Definition ex_sheet : list (list cval) :=
  [ [CNone; CNone; CNone; CNone; CNone];
    [CStr [89]; CStr [77]; CStr [112]; CStr [113]; CNone];          (* Y M p q "" *)
    [CInt 2019; CInt 11; CInt 1; CNone; CStr [120]];
    [CNone; CInt 12; CNone; CStr [118]; CNone];
    [CNone; CNone; CInt 1; CInt 1; CNone];
    [CNone; CNone; CNone; CNone; CNone];
    [CInt 7; CInt 7; CInt 7; CInt 7; CInt 7] ].
Definition ex_cf : config :=
  mkConfig [RPlain [89] (mkConv KInt None None None) None;
            RPlain [77] (mkConv KInt None None None) None;
            RRange false (mkConv KBool None None None) false;
            RPlain [90] (mkConv KStr None None None) (Some (VInt 5));
            RExt VNone] 1 [] true.

Example ex_read :
  map (option_map (fun o => map (fun a => origin_text (snd a)) (o_attrs o))) (fst (read_table ex_cf ex_sheet)) =
  [ Some [coord_text 2 0; coord_text 2 1; coord_text 2 2 ++ [58%Z] ++ coord_text 2 3; marker_skipped; marker_na];
    Some [coord_text 2 0; coord_text 3 1; coord_text 3 2 ++ [58%Z] ++ coord_text 3 3; marker_skipped; marker_na];
    Some [coord_text 2 0; coord_text 3 1; coord_text 4 2 ++ [58%Z] ++ coord_text 4 3; marker_skipped; marker_na] ] /\
  snd (read_table ex_cf ex_sheet) = None /\
  title_row ex_sheet = Some (1%nat, [CStr [89]; CStr [77]; CStr [112]; CStr [113]; CNone]) /\
  Forall (fun vs => length vs = 5%nat) ex_sheet /\ cf_ladder ex_cf = true /\ stop_first ex_cf = false.
Proof. vm_compute. repeat split; repeat constructor. Qed.
Print Assumptions ex_read.

(* ---------------------------------------------------------------------------------------- *)
(* Sessions (Session.v): several readings in one process -- any sheets, any rule sets, any entry
   point -- with in-place edits, by the caller, of values of produced objects in between.
   [reads_of ops] are the (rules, sheet, keys, entry point kind) of the readings of the session in
   order (SOne: one rule set; SMany: XlsTableReader with several rule sets, the objects of all tuples
   row by row), [read_spec s] is reading s on its own, [targeted ops r j a] says that some edit of the
   session is applied to attribute a of object j of reading r.

   session_local: at the END of the session the r-th reading still is what reading its sheet with
   its rules on its own gives: the same exception, the same number of items, no object for the same
   rows, every origin, and every attribute value that the caller did not edit itself -- whatever was
   read before or after (same or other sheet / rules / class) and whatever the caller did to OTHER
   values.  With origin_consistent this is the property's first sentence for every object of every
   reading of a process, not only for the first reading of a fresh one. *)
Theorem session_local : forall ops r s,
  nth_error (reads_of ops) r = Some s ->
  exists rd, nth_error (run_session ops) r = Some rd /\
    rd_err rd = rd_err (read_spec s) /\ rd_qkeys rd = rd_qkeys (read_spec s) /\
    length (rd_items rd) = length (rd_items (read_spec s)) /\
    forall j x x0, nth_error (rd_items rd) j = Some x -> nth_error (rd_items (read_spec s)) j = Some x0 ->
      match x, x0 with
      | None, None => True
      | Some o, Some o0 =>
          length (o_attrs o) = length (o_attrs o0) /\
          forall a, nth_error (map snd (o_attrs o)) a = nth_error (map snd (o_attrs o0)) a /\
                    (targeted ops r j a = false -> nth_error (o_attrs o) a = nth_error (o_attrs o0) a)
      | _, _ => False
      end.
Proof. exact session_local_lemma. Qed.
Print Assumptions session_local.

(* a reading of several object classes followed by the caller's edits (cases ReadM of Run.v, which
   read the table once) is the session [OReadM; OMut ...] *)
Theorem multi_reading_session : forall mc rows qkeys muts,
  multi_final mc rows qkeys muts =
  (length (fst (read_table_m mc rows)), run_session (multi_ops mc rows qkeys muts)).
Proof. exact multi_final_spec. Qed.
Print Assumptions multi_reading_session.

(* without edits a session is the list of its readings, each on its own *)
Theorem session_no_edits : forall ops,
  (forall o, In o ops -> match o with OMut _ _ _ _ _ => False | _ => True end) ->
  run_session ops = map read_spec (reads_of ops).
Proof. exact session_no_edits_lemma. Qed.
Print Assumptions session_no_edits.

(* an edit is applied to the value it names (the model does not lose the caller's edits) *)
Theorem session_edit_applied : forall ops r j a inner m rd o p,
  nth_error (run_session ops) r = Some rd ->
  nth_error (rd_items rd) j = Some (Some o) ->
  nth_error (o_attrs o) a = Some p ->
  exists rd' o',
    nth_error (run_session (ops ++ [OMut r j a inner m])) r = Some rd' /\
    nth_error (rd_items rd') j = Some (Some o') /\
    nth_error (o_attrs o') a = Some (mut_value inner m (fst p), snd p).
Proof. exact session_edit_applied_lemma. Qed.
Print Assumptions session_edit_applied.

(* non-vacuity: two rows with the same list text are read twice; the caller appends to the list of
   the first object of the first reading; the second object and the second reading are untouched *)
Definition ex_list_sheet : list (list cval) :=
  [ [CStr [73]; CStr [84]];                                   (* I T *)
    [CInt 1; CStr [97; 44; 98]];                              (* 1 "a,b" *)
    [CInt 2; CStr [97; 44; 98]] ].
Definition ex_list_cf : config :=
  mkConfig [RPlain [73] (mkConv KInt None None None) None;
            RPlain [84] (mkConv KList None None None) None] 1 [] false.
Example ex_session :
  map (fun rd => map (option_map (fun o => map fst (o_attrs o))) (rd_items rd))
      (run_session [ORead ex_list_cf ex_list_sheet [] false; OMut 0 0 1 None [8224]; ORead ex_list_cf ex_list_sheet [] true]) =
  [ [ Some [VS (VInt 1); VS (VList [[97]; [98]; [8224]])]; Some [VS (VInt 2); VS (VList [[97]; [98]])] ];
    [ Some [VS (VInt 1); VS (VList [[97]; [98]])]; Some [VS (VInt 2); VS (VList [[97]; [98]])] ] ] /\
  targeted [ORead ex_list_cf ex_list_sheet [] false; OMut 0 0 1 None [8224]; ORead ex_list_cf ex_list_sheet [] true] 0 0 1 = true /\
  targeted [ORead ex_list_cf ex_list_sheet [] false; OMut 0 0 1 None [8224]; ORead ex_list_cf ex_list_sheet [] true] 1 0 1 = false.
Proof. vm_compute. repeat split. Qed.
Print Assumptions ex_session.
