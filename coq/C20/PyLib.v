(* C20/PyLib.v -- C20's part of the translator vocabulary: the standard-library record of
   ak/short_uuid.py.  Everything generic lives in Common/PyLib.v (re-exported here). *)
From Coq Require Import ZArith List Bool.
From AK Require Export Common.PyLib.
From AK Require Import Common.Sx Common.Err.
Import ListNotations.
Open Scope Z_scope.

(* what the module imports from the standard library (module uuid).  Every
   translated function takes such a record as its first parameter. *)
Record uuid_lib : Type := {
  UUID : Type;                               (* uuid.UUID objects *)
  UUID_of_int : Z -> res UUID;               (* uuid.UUID(int=n) *)
  UUID_of_str : list Z -> res UUID;          (* uuid.UUID(s), s a str *)
  UUID_int : UUID -> Z                       (* u.int *)
}.
