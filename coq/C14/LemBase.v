(* C14/LemBase.v -- facts about the string / association-list helpers of Base.v *)
From Coq Require Import ZArith List Bool Lia Permutation.
From AK Require Import C14.Base.
Import ListNotations.
Open Scope Z_scope.

Lemma str_eqb_eq a b : str_eqb a b = true <-> a = b.
Proof.
  revert b. induction a as [|x a IH]; intros [|y b]; cbn [str_eqb]; split; intros H;
    try reflexivity; try discriminate.
  - apply andb_prop in H as [H1 H2]. apply Z.eqb_eq in H1. apply IH in H2. congruence.
  - injection H as -> ->. rewrite Z.eqb_refl. cbn. apply IH. reflexivity.
Qed.

Lemma str_eqb_refl a : str_eqb a a = true.
Proof. apply str_eqb_eq. reflexivity. Qed.

Lemma str_eqb_neq a b : str_eqb a b = false <-> a <> b.
Proof.
  split; intros H.
  - intros E. apply str_eqb_eq in E. congruence.
  - destruct (str_eqb a b) eqn:E; [|reflexivity]. apply str_eqb_eq in E. contradiction.
Qed.

Lemma str_eqb_sym a b : str_eqb a b = str_eqb b a.
Proof.
  destruct (str_eqb a b) eqn:E1, (str_eqb b a) eqn:E2; try reflexivity.
  - apply str_eqb_eq in E1. subst. rewrite str_eqb_refl in E2. discriminate.
  - apply str_eqb_eq in E2. subst. rewrite str_eqb_refl in E1. discriminate.
Qed.

Lemma str_eq_dec (a b : str) : {a = b} + {a <> b}.
Proof. apply list_eq_dec. apply Z.eq_dec. Qed.

Lemma mem_str_In s l : mem_str s l = true <-> In s l.
Proof.
  unfold mem_str. rewrite existsb_exists. split.
  - intros (x & Hx & E). apply str_eqb_eq in E. subst. exact Hx.
  - intros H. exists s. split; [exact H|apply str_eqb_refl].
Qed.

Lemma mem_str_nIn s l : mem_str s l = false <-> ~ In s l.
Proof.
  split; intros H.
  - intros Hin. apply mem_str_In in Hin. congruence.
  - destruct (mem_str s l) eqn:E; [|reflexivity]. apply mem_str_In in E. contradiction.
Qed.

(* ---------------- sorting is a permutation ---------------- *)
Lemma insert_sorted_In x y l : In y (insert_sorted x l) <-> y = x \/ In y l.
Proof.
  induction l as [|z r IH]; cbn [insert_sorted].
  - cbn. intuition.
  - destruct (str_leb x z); cbn [In]; [intuition|]. rewrite IH. intuition.
Qed.

Lemma sort_strs_In y l : In y (sort_strs l) <-> In y l.
Proof.
  induction l as [|x r IH]; cbn [sort_strs]; [reflexivity|].
  rewrite insert_sorted_In, IH. cbn. intuition.
Qed.

(* ---------------- association lists ---------------- *)
Section Assoc.
  Context {V : Type}.
  Implicit Types (m : list (str * V)).

  Lemma lookup_In_keys k m v : lookup k m = Some v -> In k (map fst m).
  Proof.
    induction m as [|[k' v'] r IH]; cbn [lookup map fst]; [discriminate|].
    destruct (str_eqb k k') eqn:E.
    - apply str_eqb_eq in E. subst. intros _. left. reflexivity.
    - intros H. right. apply IH. exact H.
  Qed.

  Lemma lookup_None k m : lookup k m = None <-> ~ In k (map fst m).
  Proof.
    induction m as [|[k' v'] r IH]; cbn [lookup map fst In]; [intuition|].
    destruct (str_eqb k k') eqn:E.
    - apply str_eqb_eq in E. subst. split; [discriminate|]. intros H. exfalso. apply H. left. reflexivity.
    - apply str_eqb_neq in E. rewrite IH. split; intros H; [intros [H1|H1]; [congruence|contradiction]|].
      intros H1. apply H. right. exact H1.
  Qed.

  Lemma lookup_Some_of_In k m : In k (map fst m) -> exists v, lookup k m = Some v.
  Proof.
    intros H. destruct (lookup k m) eqn:E; [eauto|]. apply lookup_None in E. contradiction.
  Qed.

  Lemma has_key_In k m : has_key k m = true <-> In k (map fst m).
  Proof.
    unfold has_key. split.
    - destruct (lookup k m) eqn:E; [|discriminate]. intros _. eapply lookup_In_keys; eauto.
    - intros H. destruct (lookup_Some_of_In _ _ H) as [v ->]. reflexivity.
  Qed.

  Lemma has_key_false k m : has_key k m = false <-> lookup k m = None.
  Proof. unfold has_key. destruct (lookup k m); split; congruence. Qed.

  Lemma lookup_app k m1 m2 :
    lookup k (m1 ++ m2) = match lookup k m1 with Some v => Some v | None => lookup k m2 end.
  Proof.
    induction m1 as [|[k' v'] r IH]; cbn [app lookup]; [reflexivity|].
    destruct (str_eqb k k'); [reflexivity|apply IH].
  Qed.

  Lemma update_keys k v m : map fst (update k v m) = map fst m.
  Proof.
    induction m as [|[k' v'] r IH]; cbn [update map fst]; [reflexivity|].
    destruct (str_eqb k k'); cbn [map fst]; [reflexivity|]. rewrite IH. reflexivity.
  Qed.

  Lemma update_length k v m : length (update k v m) = length m.
  Proof. rewrite <- (map_length fst), update_keys, map_length. reflexivity. Qed.

  Lemma lookup_update_same k v m : In k (map fst m) -> lookup k (update k v m) = Some v.
  Proof.
    induction m as [|[k' v'] r IH]; cbn [update map fst In lookup]; [contradiction|].
    destruct (str_eqb k k') eqn:E; cbn [lookup]; rewrite E; [reflexivity|].
    apply str_eqb_neq in E. intros [H|H]; [congruence|]. apply IH. exact H.
  Qed.

  Lemma lookup_update_other k k2 v m : k2 <> k -> lookup k2 (update k v m) = lookup k2 m.
  Proof.
    intros Hne. induction m as [|[k' v'] r IH]; cbn [update lookup]; [reflexivity|].
    destruct (str_eqb k k') eqn:E; cbn [lookup].
    - apply str_eqb_eq in E. subst k'. apply str_eqb_neq in Hne. rewrite Hne. reflexivity.
    - destruct (str_eqb k2 k'); [reflexivity|apply IH].
  Qed.
End Assoc.

Lemma lookup_same_keys {V W} k (m : list (str * V)) (m' : list (str * W)) :
  map fst m = map fst m' -> lookup k m = None -> lookup k m' = None.
Proof. intros E H. apply lookup_None. rewrite <- E. apply lookup_None. exact H. Qed.

Lemma lookup_same_keys_Some {V W} k (m : list (str * V)) (m' : list (str * W)) v :
  map fst m = map fst m' -> lookup k m = Some v -> exists w, lookup k m' = Some w.
Proof.
  intros E H. apply lookup_Some_of_In. rewrite <- E. eapply lookup_In_keys. exact H.
Qed.
