(* C15/Props.v -- the property theorems, nothing else.
   SQL filters select exactly the intended rows; values are always bound.

   [meaning_all args kw = Some is] says that every positional filter (None ones
   are ignored) and every keyword filter is one of the documented forms, and
   gives their documented meaning [is] (Spec.v: comparisons, '='/'!=' with None
   -> NULL test, with a list/tuple -> [NOT] IN, IN/NOT IN with list/tuple/set
   incl. empty, IS [NOT] NULL, [NOT] LIKE, static texts, nested _or groups incl.
   empty ones and keyword operands).  [build] is the model of SqlMethod._execute
   up to cursor.execute(sql, params); [eval_where] is the three-valued evaluator
   of the emitted WHERE tokens, with the engine's value comparison [cmpf] and
   LIKE [likef] arbitrary. *)
From Coq Require Import ZArith List Bool.
From AK Require Import Common.Sx Common.Err gen.C15_Consts C15.Model C15.Spec C15.Lemmas C15.Run C15.LemSession.
Import ListNotations.
Open Scope Z_scope.

(* what the proofs need from the literals read from ak/mtd_sql.py *)
Theorem consts_ok :
  (lex in_open = [TLP] /\ lex in_sep = [TComma] /\ lex in_close = [TRP] /\
   lex or_empty = [TFalse] /\ lex or_open = [TLP] /\ lex or_sep = [TOr] /\ lex or_close = [TRP] /\
   lex kw_and = [TAnd]) /\
  (forall pt, pt = ph_question \/ pt = ph_percent ->
     exists ph, lookup_clause pt ph_key = Ok ph /\ lex ph = [TQ]).
Proof. exact (conj lex_literals lex_placeholder). Qed.
Print Assumptions consts_ok.

(* every documented (field, op, value) filter is accepted and yields exactly the
   tokens and bound values of its documented meaning, for both placeholder styles *)
Theorem leaf_compiles : forall pt f raw up v i,
  pt = ph_question \/ pt = ph_percent ->
  meaning_leaf f up v = Some i ->
  exists c ps, mk_field (Some f) raw up v = Ok c /\
               cond_text pt c = Ok (ps, spec_params i) /\ pieces_toks ps = spec_toks i.
Proof. exact leaf_compile. Qed.
Print Assumptions leaf_compiles.

(* the WHERE expression of the executed statement evaluates, in three-valued
   logic and with the parameters taken in placeholder order, to the conjunction
   of the documented meanings of the filters -- for every row environment *)
Theorem where_semantics : forall cmpf likef staticf col mysql m kw_ord args kw is,
  meaning_all args kw = Some is ->
  exists q, build mysql m kw_ord args kw = Ok q /\
    q_params q = flat_map spec_params is /\
    (is = [] -> q_where q = []) /\
    (is <> [] ->
       eval_where cmpf likef staticf col (pieces_toks (q_where q)) (q_params q)
       = isem_and cmpf likef staticf col is).
Proof. exact where_semantics_l. Qed.
Print Assumptions where_semantics.

(* hence the rows returned are exactly the rows on which all filters are TRUE
   (UNKNOWN does not select), in the requested order (ascending / descending id),
   and one / one_or_none / SqlMethodT.* apply their count rule to that list *)
Theorem rows_selected : forall cmpf likef mysql m kw_ord args kw is,
  meaning_all args kw = Some is ->
  exists q, build mysql m kw_ord args kw = Ok q /\
    forall st rows desc mtd,
      (forall r, In r rows ->
         isem_and cmpf likef (static_of st r) (fun f => assoc_str f (r_cols r)) is <> None) ->
      run_query cmpf likef st q rows desc mtd =
      finish mtd
        (let ids := sort_Z (map r_id
                      (filter (fun r => is_T (isem_and cmpf likef (static_of st r)
                                                (fun f => assoc_str f (r_cols r)) is)) rows)) in
         if desc then rev ids else ids).
Proof. exact run_query_ok. Qed.
Print Assumptions rows_selected.

(* one placeholder per bound value, in matching order: the k-th placeholder of
   the WHERE tokens is compared with the column of the k-th operand, and the
   k-th parameter is that operand *)
Theorem placeholders_match : forall mysql m kw_ord args kw is,
  meaning_all args kw = Some is ->
  exists q, build mysql m kw_ord args kw = Ok q /\
    let ops := flat_map operands is in
    q_params q = map (fun fv => VS (snd fv)) ops /\
    owners (pieces_toks (q_where q)) = map (fun fv => Some (fst fv)) ops /\
    count_tq (pieces_toks (q_where q)) = length (q_params q).
Proof. exact placeholders_match_l. Qed.
Print Assumptions placeholders_match.

(* non-interference: the statement text (or the exception) is a function of the
   shapes of the operand values only -- for ALL arguments, documented or not *)
Theorem values_never_in_text : forall mysql m kw_ord args kw,
  sql_of (build mysql m kw_ord (map erase_arg args) (erase_kw kw))
  = sql_of (build mysql m kw_ord args kw).
Proof. exact values_never_in_text_l. Qed.
Print Assumptions values_never_in_text.

Theorem same_shape_same_text : forall mysql m kw_ord args1 kw1 args2 kw2,
  map erase_arg args1 = map erase_arg args2 -> erase_kw kw1 = erase_kw kw2 ->
  sql_of (build mysql m kw_ord args1 kw1) = sql_of (build mysql m kw_ord args2 kw2).
Proof. exact same_shape_same_text_l. Qed.
Print Assumptions same_shape_same_text.

(* IN () is false and NOT IN () is true on every row, whatever the column holds *)
Theorem empty_in : forall cmpf likef staticf col pt f raw up k pos,
  pt = ph_question \/ pt = ph_percent -> parse_op up = Some (OIn pos) ->
  exists c ps, mk_field (Some f) raw up (VSeq k []) = Ok c /\ cond_text pt c = Ok (ps, []) /\
    eval_where cmpf likef staticf col (pieces_toks ps) [] = Some (tv_of_bool (negb pos)).
Proof. exact empty_in_l. Qed.
Print Assumptions empty_in.

(* Text level.  FULL statement (not proved): for the '?' style, when neither the
   SELECT/GROUP BY/ORDER BY texts nor the field names / static texts contain a '?',
   the statement text has exactly as many '?' characters as there are parameters. *)
Definition placeholders_text_statement : Prop :=
  forall m kw_ord args kw is q,
    meaning_all args kw = Some is ->
    build false m kw_ord args kw = Ok q ->
    count_q (m_select m) = O ->
    (forall g, m_group m = Some g -> count_q g = O) ->
    (forall o, (match kw_ord with Some o' => o' | None => m_order m end) = Some o -> count_q o = O) ->
    Forall (fun p => match p with PLit _ => True | PField s => count_q s = O | PStatic s => count_q s = O end)
           (q_where q) ->
    count_q (q_sql q) = length (q_params q).
(* proved part: [placeholders_match] above gives count_tq (tokens) = length params
   for every documented call, and in every literal the code can emit for the '?'
   style the '?' characters are exactly the placeholder tokens.  Missing: the
   induction that every PLit piece of q_where is one of these literals and the
   decomposition of q_sql (both are checked on every case by the oracle). *)
Theorem placeholders_text_partial :
  Forall (fun s => count_q s = count_tq (lex s)) (all_literals ph_question).
Proof. exact literals_count_l. Qed.
Print Assumptions placeholders_text_partial.

(* ---- non-vacuity: a concrete call meets the hypotheses and runs ---- *)
Definition ex_name : str := [110;97;109;101].
Definition ex_qty : str := [113;116;121].
Definition ex_id : str := [105;100].
Definition ex_args : list arg :=
  [ AOr [ATup3 (Some ex_name) (Some ([105;110], [73;78])) (VSeq KList [SStr [97]; SNone]);
         ATup2 (Some ex_qty) (VS SNone)] [(ex_id, VS (SInt 3))];
    ANone;
    ATup3 (Some ex_qty) (Some ([110;111;116;32;105;110], [78;79;84;32;73;78])) (VSeq KSet []) ].
Definition ex_method : method :=
  {| m_select := [83;69;76;69;67;84;32;42;32;70;82;79;77;32;116]; m_group := None; m_order := Some ex_id |}.
Definition ex_rows : list row :=
  [ {| r_id := 1; r_cols := [(ex_id, SInt 1); (ex_name, SStr [97]); (ex_qty, SInt 5)] |};
    {| r_id := 2; r_cols := [(ex_id, SInt 2); (ex_name, SStr [98]); (ex_qty, SNone)] |};
    {| r_id := 3; r_cols := [(ex_id, SInt 3); (ex_name, SNone); (ex_qty, SInt 7)] |};
    {| r_id := 4; r_cols := [(ex_id, SInt 4); (ex_name, SStr [98]); (ex_qty, SInt 7)] |} ].

Example ex_documented :
  meaning_all ex_args [(ex_name, VS (SStr [39;32;79;82;32;49;61;49]))] =
  Some [ IOr [IIn ex_name true [SStr [97]; SNone]; INull ex_qty true; ICmp ex_id CEq (SInt 3)];
         IIn ex_qty false [];
         ICmp ex_name CEq (SStr [39;32;79;82;32;49;61;49]) ].
Proof. vm_compute. reflexivity. Qed.
Print Assumptions ex_documented.

(* (name IN ('a', NULL) OR qty IS NULL OR id = 3) AND 1 selects rows 1, 2, 3 (row 4: UNKNOWN) *)
Example ex_runs :
  match build false ex_method None ex_args [] with
  | Ok q => run_query sqlite_cmp sqlite_like [] q ex_rows true 0 = Ok (ORows [3; 2; 1])
            /\ count_q (q_sql q) = length (q_params q)
  | Err _ => False
  end.
Proof. vm_compute. split; reflexivity. Qed.
Print Assumptions ex_runs.

(* a value full of SQL leaves the text unchanged *)
Example ex_injection :
  sql_of (build false ex_method None [ATup2 (Some ex_name) (VS (SStr [39;32;79;82;32;49;61;49]))] [])
  = sql_of (build false ex_method None [ATup2 (Some ex_name) (VS (SStr [97]))] []).
Proof. vm_compute. reflexivity. Qed.
Print Assumptions ex_injection.

(* ================================================================== *)
(* Histories: the same SqlMethod / condition objects used for several requests.
   The model keeps NO state between requests: a session is run step by step by a
   map, a call step is exactly the single request [Query] of the theorems above
   (whatever connection styles, arguments or other SqlMethod objects were used in
   the steps before it).  That the IMPLEMENTATION has no such state either (no
   placeholder style, statement text, record type, order or argument remembered
   from an earlier request or from another object) is not a theorem: it is what
   the correspondence checks on the session cases. *)
Theorem session_requests_independent : forall ms st rows steps k s,
  nth_error steps k = Some s ->
  nth_error (run_steps ms st rows steps) k = Some (run_step ms st rows s).
Proof. exact run_steps_nth. Qed.
Print Assumptions session_requests_independent.

Theorem session_call_is_query : forall ms st rows mi m mysql kw_ord args kw wr desc mtd,
  nth_error ms mi = Some m ->
  run_step ms st rows (SCall mi mysql kw_ord args kw wr desc mtd)
  = run (Query mysql m kw_ord args kw wr st rows desc mtd).
Proof. exact call_is_query. Qed.
Print Assumptions session_call_is_query.

(* hence, whatever came before it, the k-th request of a history executes the
   statement of its own filters and returns the rows on which they are all TRUE *)
Theorem session_rows_selected : forall ms st rows steps k mi m mysql kw_ord args kw desc mtd is,
  nth_error steps k = Some (SCall mi mysql kw_ord args kw true desc mtd) ->
  nth_error ms mi = Some m ->
  meaning_all args kw = Some is ->
  (forall r, In r rows ->
     isem_and sqlite_cmp sqlite_like (static_of st r) (fun f => assoc_str f (r_cols r)) is <> None) ->
  exists q, build mysql m kw_ord args kw = Ok q /\
    q_params q = flat_map spec_params is /\
    nth_error (run_steps ms st rows steps) k =
    Some (SL [SL [sx_str (q_sql q); sx_list sx_pyval (q_params q)];
              sx_res sx_outcome
                (finish mtd
                   (let ids := sort_Z (map r_id
                                 (filter (fun r => is_T (isem_and sqlite_cmp sqlite_like (static_of st r)
                                                           (fun f => assoc_str f (r_cols r)) is)) rows)) in
                    if desc then rev ids else ids))]).
Proof. exact session_rows_selected_l. Qed.
Print Assumptions session_rows_selected.

(* A condition object made earlier keeps the caller's list / set OBJECT.  If the
   caller changes its contents afterwards ([g] = any rewriting of the contents of
   sequence values), the kept object is the object `make` would build now from the
   current values: no decision taken at creation (operator rewrite '=' -> IN,
   validation, exception) depends on the contents.  This is what allows the
   harness to hand the model a reference to a kept condition object as the filter
   it was made from, with the current contents. *)
Theorem prepared_condition_tracks_its_lists : forall g a,
  make (mapseq_arg g a) = res_map (mapseq_cond g) (make a).
Proof. exact make_mapseq. Qed.
Print Assumptions prepared_condition_tracks_its_lists.

Theorem prepared_conditions_in_request : forall g args,
  make_all (map (mapseq_arg g) args) = res_map (map (mapseq_cond g)) (make_all args).
Proof. exact make_all_mapseq. Qed.
Print Assumptions prepared_conditions_in_request.

(* ... and its text is computed from the list as it is at the request: emptiness
   ("0"/"1" instead of IN ()) and the number of placeholders follow the current
   contents, not those at creation *)
Theorem prepared_condition_text_is_current : forall pt f op k l,
  classify op text_groups 0 = Some 1%nat ->
  cond_text pt (CField f op (VSeq k l)) =
  if nonempty l then
    bind (lookup_clause pt op) (fun cl =>
    bind (lookup_clause pt ph_key) (fun ph =>
      Ok ([PField f; PLit cl; PLit in_open]
            ++ join_pieces [PLit in_sep] (map (fun _ => [PLit ph]) l) ++ [PLit in_close], map VS l)))
  else Ok ([PLit (pick C15_Consts.empty_in op)], []).
Proof. exact cond_text_current. Qed.
Print Assumptions prepared_condition_text_is_current.

(* non-vacuity: one SqlMethod, a kept `name = [..]` condition used on a '?' connection, then --
   after the list was emptied and refilled -- on a '%s' connection: both styles, current contents *)
Definition ex_kept (l : list scalar) : arg := ATup2 (Some ex_name) (VSeq KList l).
Example ex_session :
  run_steps [ex_method] [] ex_rows
    [ SPrep (ex_kept []);
      SCall 0 false None [ex_kept []] [] true false 0;
      SCall 0 true None [ex_kept [SStr [98]; SStr [73;83;32;78;85;76;76]]] [(ex_qty, VS (SStr [73;83;32;78;85;76;76]))] true false 0;
      SCall 0 false (Some None) [ex_kept [SStr [98]]] [] true false 0 ]
  = [ SL [SZ 0; SL []];
      run (Query false ex_method None [ex_kept []] [] true [] ex_rows false 0);
      run (Query true ex_method None [ex_kept [SStr [98]; SStr [73;83;32;78;85;76;76]]]
                 [(ex_qty, VS (SStr [73;83;32;78;85;76;76]))] true [] ex_rows false 0);
      run (Query false ex_method (Some None) [ex_kept [SStr [98]]] [] true [] ex_rows false 0) ]
  /\ make (ex_kept [SStr [98]]) = res_map (mapseq_cond (fun _ => [SStr [98]])) (make (ex_kept []))
  /\ run (Query false ex_method (Some None) [ex_kept [SStr [98]]] [] true [] ex_rows false 0)
     = SL [SL [sx_str (m_select ex_method ++ kw_where ++ ex_name ++ [32;73;78;32;40;63;41]); SL [sx_pyval (VS (SStr [98]))]];
           SL [SZ 0; sx_outcome (ORows [2; 4])]].
Proof. vm_compute. repeat split; reflexivity. Qed.
Print Assumptions ex_session.

(* a value spelled like an operator the compiler knows is data in every form *)
Example ex_keyword_values :
  let isnull := VS (SStr [73;83;32;78;85;76;76]) in         (* 'IS NULL' *)
  let q1 := build false ex_method None [ATup2 (Some ex_name) isnull] [] in
  let q2 := build false ex_method None [] [(ex_name, isnull)] in
  let q3 := build false ex_method None [AOr [] [(ex_name, isnull)]] [] in
  sql_of q1 = sql_of (build false ex_method None [ATup2 (Some ex_name) (VS (SStr [97]))] []) /\
  sql_of q2 = sql_of q1 /\
  match q1, q3 with
  | Ok a, Ok c => q_params a = [isnull] /\ q_params c = [isnull]
  | _, _ => False
  end.
Proof. vm_compute. repeat split; reflexivity. Qed.
Print Assumptions ex_keyword_values.
