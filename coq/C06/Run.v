(* C06/Run.v -- entry point of the correspondence check. *)
From Coq Require Import ZArith List Bool.
From AK Require Export Common.Sx Common.Err C06.Model C06.Spec C06.Refs.
Import ListNotations.
Open Scope Z_scope.

(* a repository whose refs are read by the library's own GitRepo.iter_refs from a '.git' directory: the
   packed-refs text and the loose ref files, the hexsha of commit k, the build tags and their numbers *)
Record dinfo := mkDI { di_disk : disk; di_shas : list (list Z); di_tags : list (list Z * bnum) }.

Inductive case :=
| Report (chk : bool) (od : option dinfo) (h : history)
                                                (* chk: also evaluate the verified statement checker;
                                                   od = Some _: the heads of [h_refs h] and the tags of the commits
                                                   are NOT taken from [h] but read from the ref files (Refs.v) *)
| Refs (d : disk) (prefixes : list (list Z)) (remote : list Z) (table : list (list Z * (Z * list Z))) (expected : sx)
                                                (* the refs layer alone: GitRepo.iter_refs over the prefixes,
                                                   GitRepo._iter_packed_refs(prefixes), make_branch_refs_map(remote),
                                                   make_buildtags_map(); [expected]: what the implementation gave --
                                                   compared here, printing every observation of a shard overflows
                                                   coqc's stack: () = equal, otherwise where they differ *)
| Session (steps : list (bool * option dinfo * history))
                                                (* one long-lived ReposCollection asked for several reports while
                                                   the repository changes in between: every report must be the
                                                   report of the repository as it is at that moment (the model is a
                                                   pure function of the history, it keeps nothing between reports) *)
| SortKey (name : list Z)                       (* BranchName(name)._sort_items *)
| Cmp (a b : list Z).                           (* sign of BranchName(a).cmp(BranchName(b)) *)

Definition sx_bnum (b : bnum) : sx :=
  let '(x1, x2, x3, x4) := b in SL [SZ x1; SZ x2; SZ x3; SZ x4].

Definition sx_obuild (b : obuild) : sx :=
  SL [SZ (ob_type b); sx_bnum (ob_num b);
      SZ (match ob_commit b with Some c => Z.of_nat c | None => -1 end);
      sx_list (fun p : nat * bool => SL [sx_nat (fst p); sx_bool (snd p)]) (ob_all b);
      sx_list sx_nat (ob_listed b)].

Definition sx_obranch (b : obranch) : sx :=
  SL [sx_str (obr_name b); sx_list sx_obuild (obr_builds b)].

Definition sx_item (i : item) : sx :=
  match i with IInt n => SL [SZ 0; SZ n] | IStr s => SL [SZ 1; sx_str s] end.

Definition run_report (chk : bool) (h : history) : sx :=
  SL [sx_res (sx_list sx_obranch) (report h);
      SZ (if chk then (if acyclicb h && report_okb h (all_branches h) then 1 else 0) else 2)].

Definition run_report_on (chk : bool) (od : option dinfo) (h : history) : sx :=
  match od with
  | None => run_report chk h
  | Some di =>
      match disk_history (di_disk di) (di_shas di) (di_tags di) h with
      | Ok h' => run_report chk h'
      | Err e => SL [sx_res (sx_list sx_obranch) (Err e); SZ (if chk then 0 else 2)]
      end
  end.

Definition sx_ent (e : list Z * list Z) : sx := SL [sx_str (fst e); sx_str (snd e)].
Definition sx_oent (e : list Z * option (list Z)) : sx := SL [sx_str (fst e); sx_option sx_str (snd e)].
Definition sx_triple (t : list Z * Z * list Z) : sx := let '(s, n, b) := t in SL [sx_str s; SZ n; sx_str b].
Definition res_map {A B} (f : A -> B) (r : res A) : res B := match r with Ok a => Ok (f a) | Err e => Err e end.

Definition run_refs (d : disk) (prefixes : list (list Z)) (remote : list Z) (table : list (list Z * (Z * list Z))) : sx :=
  SL [sx_res (sx_list sx_oent) (iter_refs d prefixes);
      sx_res (sx_list sx_ent) (packed_refs d prefixes);
      sx_res (sx_list sx_ent) (res_map sort_by_key (branch_refs_map d remote));
      sx_res (sx_list sx_triple) (buildtags d table)].

(* first difference of two observations: path, model part, implementation part *)
Fixpoint sx_diff (a b : sx) : option (list Z * sx * sx) :=
  match a, b with
  | SZ x, SZ y => if x =? y then None else Some ([], a, b)
  | SL l, SL m =>
      (fix go (i : Z) (l m : list sx) : option (list Z * sx * sx) :=
         match l, m with
         | [], [] => None
         | x :: l', y :: m' =>
             match sx_diff x y with
             | Some (p, u, v) => Some (i :: p, u, v)
             | None => go (i + 1) l' m'
             end
         | _, _ => Some ([i], SL l, SL m)
         end) 0 l m
  | _, _ => Some ([], a, b)
  end.

Fixpoint sx_trunc (depth : nat) (s : sx) : sx :=
  match depth with
  | O => SL []
  | S d => match s with
           | SZ _ => s
           | SL l => SL (map (sx_trunc d) (firstn 60 l))
           end
  end.

Definition run (c : case) : sx :=
  match c with
  | Report chk od h => run_report_on chk od h
  | Refs d prefixes remote table expected =>
      match sx_diff (run_refs d prefixes remote table) expected with
      | None => SL []
      | Some (p, u, v) => SL [SZ (-1); SL (map SZ p); sx_trunc 4 u; sx_trunc 4 v]
      end
  | Session steps => SL (map (fun st : bool * option dinfo * history => run_report_on (fst (fst st)) (snd (fst st)) (snd st)) steps)
  | SortKey n => sx_list sx_item (mk_sort_items n)
  | Cmp a b => SZ (Z.sgn (cmp_items (mk_sort_items a) (mk_sort_items b)))
  end.
