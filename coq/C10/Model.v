(* C10/Model.v -- executable model of the caches that sit between a colours
   configuration and rendered text:
     ak/color.py  ColorsConfig (syntax map, _cache, add_new_items 1112-1201,
                  get_color 1239-1246), _PaletteMeta.__call__ 1355-1401,
                  Palette (_get_existing_palette / _prepare_local_colors /
                  _store_palette_in_cache 1498-1535, _sync_with_config,
                  register_in_colors_conf 1556-1573), CompoundPalette.get_sub_palette
                  1628-1638, PaletteUser._mk_palette 1700-1733,
                  get/set_global_colors_config 1736-1758, _GSYNCED_PALETTES
     ak/ppobj.py  CHTextResult 27-102, PPEnumFieldType cell cache 2047-2123 (keyed by
                  the palette object, then by _val_cache_key(value) = (type, text, value):
                  one entry per literal)
     ak/hdoc.py   HCommand: the palette is looked up when help is printed (property _c,
                  170-181), so h(obj) is a Render of the help program under the global
                  configuration and HCommand() itself does nothing to the world -- the
                  harness translates "help" into ORender ... None false PNone 1 (the
                  extractor fails closed on any other shape of HCommand / LLImpl)
   Palette objects live in a heap and have an identity; identities come from an
   allocation oracle (the list carried by each operation) and may be re-used
   once the object is not pinned any more -- the CPython contract for id().
   What an object prints is a "chunk program" (lines of items naming the
   palette accessor that colours each piece of text); the layout code that
   produces it is not modelled here, the program is an input.
   The class table, the built-in configuration and two facts about the source
   (what the enum cache key is, whether add_new_items resets the palette cache)
   come from gen/C10_Consts.v.
   No proofs in this file. *)
From Coq Require Import ZArith List Bool.
From AK Require Import Common.Sx Common.Err C10.Sgr C10.Base gen.C10_Consts.
Import ListNotations.
Open Scope Z_scope.

(* ------------------------------------------------------------------ *)
(* colours configuration                                                *)

Record conf := mkConf {
  c_nocolor : bool;
  c_smap : list (synt * descr);      (* syntax_map: first registration wins *)
  c_reg : list cls;                  (* registered_sources *)
  c_cache : list (cls * pid);        (* _cache: palette class -> palette object *)
  c_held : bool                      (* the test program still holds a reference *)
}.

Definition cinfo (K : cls) : classinfo :=
  match zfind K class_table with Some i => i | None => mkClass [] None [] false end.

(* the colour description language: see Base.v; an entry is resolved when its
   chain of parents ends in an entry without parent (add_new_items resolves
   everything that can be resolved, entries are never replaced) *)
Fixpoint resolve (fuel : nat) (m : list (synt * descr)) (s : synt) : option style :=
  match fuel with
  | O => None
  | S f =>
      match zfind s m with
      | None => None
      | Some d =>
          match d_parent d with
          | None => Some (mkStyle (match d_fg d with FCol n => Some n | _ => None end) (d_bold d))
          | Some p =>
              match resolve f m p with
              | None => None
              | Some ps =>
                  Some (mkStyle (match d_fg d with FInherit => s_fg ps | FDash => None | FCol n => Some n end)
                                (match d_bold d with Some b => Some b | None => s_bold ps end))
              end
          end
      end
  end.

(* ColorsConfig.get_color: unknown id -> the default id; unresolved / no_color -> no effects *)
Definition get_color (nocolor : bool) (m : list (synt * descr)) (s : synt) : list Z :=
  let e := if zhas s m then Some s else if zhas dflt_synt m then Some dflt_synt else None in
  match e with
  | None => []
  | Some s' => if nocolor then []
               else match resolve (S (length m)) m s' with Some st => prefix_of st | None => [] end
  end.

(* add_new_items without the global-config hook: -> (config, any new syntax id) *)
Definition add_raw (cf : conf) (items : list (synt * descr)) : conf * bool :=
  let fresh := filter (fun it => negb (zhas (fst it) (c_smap cf))) items in
  match fresh with
  | [] => (cf, false)
  | _ => (mkConf (c_nocolor cf) (c_smap cf ++ fresh) (c_reg cf)
                 (if reset_cache_on_new then [] else c_cache cf) (c_held cf), true)
  end.

(* Palette.register_in_colors_conf *)
Fixpoint register_raw (fuel : nat) (cf : conf) (K : cls) : conf * bool :=
  match fuel with
  | O => (cf, false)
  | S f =>
      if zmem K (c_reg cf) then (cf, false)
      else
        let ci := cinfo K in
        let st1 := fold_left (fun st P => let r := register_raw f (fst st) P in (fst r, snd st || snd r))
                             (k_parents ci) (cf, false) in
        match k_defaults ci with
        | None => st1
        | Some d =>
            let cf1 := fst st1 in
            let r := add_raw (mkConf (c_nocolor cf1) (c_smap cf1) (K :: c_reg cf1) (c_cache cf1) (c_held cf1)) d in
            (fst r, snd st1 || snd r)
        end
  end.

Definition reg_fuel : nat := 12%nat.

(* _prepare_local_colors (colour part) *)
Definition local_colors (cf : conf) (K : cls) (nocolor : bool) : list (acc * list Z) :=
  map (fun as_ => (fst as_, if nocolor then [] else get_color (c_nocolor cf) (c_smap cf) (snd as_)))
      (k_local (cinfo K)).

(* ------------------------------------------------------------------ *)
(* the world                                                            *)

Record pal := mkPal {
  p_cls : cls;
  p_colors : list (acc * list Z);    (* accessor -> ColorFmt (its prefix) *)
  p_conf : cid;                      (* CompoundPalette.colors_conf *)
  p_nocolor : bool;
  p_subs : list (cls * pid)          (* CompoundPalette._sub_palettes *)
}.

(* PPEnumFieldType._cache : key -> value -> modifier -> coloured chunks *)
Notation enum_cache := (list (pid * list (Z * list (Z * list chunk))))%type.

Record world := mkWorld {
  w_confs : list (cid * conf);
  w_heap : list (pid * pal);
  w_slots : list (cls * pid);        (* <class>._PALETTE_NO_COLOR *)
  w_global : option cid;             (* _GLOBAL_COLORS_CONF *)
  w_synced : list (cls * pid);       (* _GSYNCED_PALETTES *)
  w_enums : list (Z * enum_cache);
  w_hcmds : list (Z * pid);          (* lazy results (CHTextResult): handle -> the palette it holds *)
  w_stack : list pid;                (* palettes held by the running call *)
  w_oracle : list pid;               (* identities the allocator will hand out *)
  w_nextc : cid                      (* name for configs created by the package *)
}.

Definition w0 : world := mkWorld [] [] [] None [] [] [] [] [] (-1).

Definition set_confs w x := mkWorld x (w_heap w) (w_slots w) (w_global w) (w_synced w) (w_enums w) (w_hcmds w) (w_stack w) (w_oracle w) (w_nextc w).
Definition set_heap w x := mkWorld (w_confs w) x (w_slots w) (w_global w) (w_synced w) (w_enums w) (w_hcmds w) (w_stack w) (w_oracle w) (w_nextc w).
Definition set_slots w x := mkWorld (w_confs w) (w_heap w) x (w_global w) (w_synced w) (w_enums w) (w_hcmds w) (w_stack w) (w_oracle w) (w_nextc w).
Definition set_global w x := mkWorld (w_confs w) (w_heap w) (w_slots w) x (w_synced w) (w_enums w) (w_hcmds w) (w_stack w) (w_oracle w) (w_nextc w).
Definition set_synced w x := mkWorld (w_confs w) (w_heap w) (w_slots w) (w_global w) x (w_enums w) (w_hcmds w) (w_stack w) (w_oracle w) (w_nextc w).
Definition set_enums w x := mkWorld (w_confs w) (w_heap w) (w_slots w) (w_global w) (w_synced w) x (w_hcmds w) (w_stack w) (w_oracle w) (w_nextc w).
Definition set_hcmds w x := mkWorld (w_confs w) (w_heap w) (w_slots w) (w_global w) (w_synced w) (w_enums w) x (w_stack w) (w_oracle w) (w_nextc w).
Definition set_stack w x := mkWorld (w_confs w) (w_heap w) (w_slots w) (w_global w) (w_synced w) (w_enums w) (w_hcmds w) x (w_oracle w) (w_nextc w).
Definition set_oracle w x := mkWorld (w_confs w) (w_heap w) (w_slots w) (w_global w) (w_synced w) (w_enums w) (w_hcmds w) (w_stack w) x (w_nextc w).
Definition set_nextc w x := mkWorld (w_confs w) (w_heap w) (w_slots w) (w_global w) (w_synced w) (w_enums w) (w_hcmds w) (w_stack w) (w_oracle w) x.

Definition dflt_conf (held : bool) : conf := fst (add_raw (mkConf false [] [] [] held) builtin_config).
Definition empty_pal : pal := mkPal 0 [] 0 false [].

Definition conf_of (w : world) (c : cid) : conf :=
  match zfind c (w_confs w) with Some cf => cf | None => dflt_conf false end.
Definition pal_of (w : world) (p : pid) : pal :=
  match zfind p (w_heap w) with Some o => o | None => empty_pal end.
Definition put_conf (w : world) (c : cid) (cf : conf) : world := set_confs w ((c, cf) :: zdel c (w_confs w)).
Definition put_pal (w : world) (p : pid) (o : pal) : world := set_heap w ((p, o) :: zdel p (w_heap w)).

(* enum field types: literal value -> modifier -> [(accessor, text)] *)
Notation ftdef := (list (Z * list (Z * list (acc * list Z))))%type.

(* [keyobj]: the enum cell cache is keyed by the palette object (true: the cache
   keeps the palette alive) or by id(palette) (false).  Run.v and the theorems
   about the current source instantiate it with gen constant enum_key_is_object. *)
Section World.
Variable keyobj : bool.

(* ---- liveness: what certainly keeps a palette object alive ---- *)
Definition roots (w : world) : list pid :=
  flat_map (fun cc => map snd (c_cache (snd cc))) (w_confs w)
  ++ map snd (w_slots w) ++ map snd (w_synced w) ++ map snd (w_hcmds w) ++ w_stack w
  ++ (if keyobj then flat_map (fun e => map fst (snd e)) (w_enums w) else []).
Definition subs_of (w : world) (p : pid) : list pid := map snd (p_subs (pal_of w p)).
Definition pinned (w : world) : list pid := let r := roots w in r ++ flat_map (subs_of w) r.

(* a configuration nobody holds any more disappears (with its cache); only
   CompoundPalette objects keep a reference to their configuration *)
Definition conf_refd (w : world) (c : cid) : bool :=
  (match w_global w with Some g => g =? c | None => false end)
  || existsb (fun p => let o := pal_of w p in k_compound (cinfo (p_cls o)) && (p_conf o =? c))
             (pinned (set_confs w (zdel c (w_confs w)))).
Definition gc1 (w : world) : world :=
  set_confs w (filter (fun cc => c_held (snd cc) || conf_refd w (fst cc)) (w_confs w)).
Definition gc (w : world) : world := gc1 (gc1 (gc1 w)).

(* id(): the oracle's next identity; it must not be the identity of a live object *)
Definition alloc (w : world) : res (world * pid) :=
  match w_oracle w with
  | [] => Err OtherErr
  | i :: r => if zmem i (pinned w) then Err OtherErr else Ok (set_oracle w r, i)
  end.

(* ---- global configuration and synced palettes ---- *)
Definition get_global (w : world) : world * cid :=
  match w_global w with
  | Some g => (w, g)
  | None => let c := w_nextc w in
            (set_nextc (set_global (put_conf w c (dflt_conf false)) (Some c)) (c - 1), c)
  end.

(* set_global_colors_config(current global): every synced palette registers its
   class and re-reads its colours.  The re-entrant calls of the implementation
   (add_new_items -> set_global_colors_config -> _sync_with_config -> ...) are
   flattened: all registrations first, then all colours from the final map. *)
Definition resync (w : world) : world :=
  match w_global w with
  | None => w
  | Some g =>
      let cf := fold_left (fun cf Kp => fst (register_raw reg_fuel cf (fst Kp))) (w_synced w) (conf_of w g) in
      let w1 := put_conf w g cf in
      fold_left (fun w Kp =>
                   let o := pal_of w (snd Kp) in
                   put_pal w (snd Kp) (mkPal (p_cls o) (local_colors cf (fst Kp) false) (p_conf o) (p_nocolor o) (p_subs o)))
                (w_synced w) w1
  end.

Definition is_global (w : world) (c : cid) : bool :=
  match w_global w with Some g => g =? c | None => false end.

(* register_in_colors_conf / add_new_items with the hook of color.py:1198-1201 *)
Definition register (w : world) (c : cid) (K : cls) : world :=
  let r := register_raw reg_fuel (conf_of w c) K in
  let w1 := put_conf w c (fst r) in
  if snd r && is_global w1 c then resync w1 else w1.

Definition add_items (w : world) (c : cid) (items : list (synt * descr)) : world :=
  let r := add_raw (conf_of w c) items in
  let w1 := put_conf w c (fst r) in
  if snd r && is_global w1 c then resync w1 else w1.

(* _PaletteMeta.__call__(palette_class, colors_conf, no_color, synced=...) *)
Definition class_call (w : world) (copt : option cid) (nocolor : bool) (K : cls) (synced : bool)
  : res (world * pid) :=
  match (if synced then zfind K (w_synced w) else None) with
  | Some p => Ok (w, p)
  | None =>
      let '(w1, c) := match copt with Some c => (w, c) | None => get_global w end in
      let '(w2, existing) :=
        if synced then (w1, None)
        else if nocolor then
          let w2 := register w1 c K in
          (w2, zfind K (w_slots w2))
        else (w1, zfind K (c_cache (conf_of w1 c))) in
      match existing with
      | Some p => Ok (w2, p)
      | None =>
          let w3 := if nocolor then w2 else register w2 c K in
          let colors := local_colors (conf_of w3 c) K nocolor in
          bind (alloc w3) (fun wp =>
            let '(w4, p) := wp in
            let w5 := put_pal w4 p (mkPal K colors c nocolor []) in
            Ok (if synced then set_synced w5 (w_synced w5 ++ [(K, p)])
                else if nocolor then set_slots w5 ((K, p) :: w_slots w5)
                else let cf := conf_of w5 c in
                     put_conf w5 c (mkConf (c_nocolor cf) (c_smap cf) (c_reg cf) ((K, p) :: zdel K (c_cache cf)) (c_held cf)),
                p))
      end
  end.

(* CompoundPalette.get_sub_palette *)
Definition get_sub (w : world) (cp : pid) (K : cls) : res (world * pid) :=
  let o := pal_of w cp in
  match zfind K (p_subs o) with
  | Some p => Ok (w, p)
  | None =>
      bind (class_call w (Some (p_conf o)) (p_nocolor o) K false) (fun wp =>
        let '(w1, p) := wp in
        let o1 := pal_of w1 cp in
        Ok (put_pal w1 cp (mkPal (p_cls o1) (p_colors o1) (p_conf o1) (p_nocolor o1) ((K, p) :: p_subs o1)), p))
  end.

Definition color_of (o : pal) (a : acc) : list Z :=
  match zfind a (p_colors o) with Some f => f | None => [] end.

(* ------------------------------------------------------------------ *)
(* what objects print                                                   *)

Inductive item :=
| IChunk (sub : option cls) (a : acc) (t : list Z)   (* <palette>.<accessor>(text) *)
| IPlain (t : list Z)                                (* a str *)
| IEnum (ft : Z) (sub : cls) (vkey lit modi : Z).    (* cell of an enum column *)

Record objspec := mkObj {
  o_cls : cls;                       (* PALETTE_CLASS *)
  o_subs : list cls;                 (* order of the first get_sub_palette calls *)
  o_lines : list (list item)
}.


Section Render.
Variable fts : list (Z * ftdef).

Definition ft_texts (ft lit : Z) : list (Z * list (acc * list Z)) :=
  match zfind ft fts with
  | Some d => match zfind lit d with Some x => x | None => [] end
  | None => []
  end.

(* PPEnumFieldType.make_desired_cell_ch_chunks: the cache key is the palette
   object or its id (gen constant); below it the entries are found by [vkey].
   The source keys them by _val_cache_key(value) = (type(value), str(value), value)
   (gen constant enum_val_key_literal, required to be true by the proofs): one
   entry per literal, so render_item passes the literal as [vkey] *)
Definition enum_cell (w : world) (ft : Z) (e : pid) (vkey lit modi : Z) : world * list chunk :=
  let cache := match zfind ft (w_enums w) with Some c => c | None => [] end in
  let by_val := match zfind e cache with Some x => x | None => [] end in
  match zfind vkey by_val with
  | Some per_mod => (w, match zfind modi per_mod with Some x => x | None => [] end)
  | None =>
      let o := pal_of w e in
      let per_mod := map (fun mc => (fst mc, map (fun at_ => (color_of o (fst at_), snd at_)) (snd mc)))
                         (ft_texts ft lit) in
      let cache' := (e, (vkey, per_mod) :: by_val) :: zdel e cache in
      (set_enums w ((ft, cache') :: zdel ft (w_enums w)),
       match zfind modi per_mod with Some x => x | None => [] end)
  end.

Definition render_item (w : world) (cp : pid) (it : item) : res (world * list chunk) :=
  match it with
  | IPlain t => Ok (w, [([], t)])
  | IChunk None a t => Ok (w, [(color_of (pal_of w cp) a, t)])
  | IChunk (Some K) a t =>
      bind (get_sub w cp K) (fun wp => Ok (fst wp, [(color_of (pal_of (fst wp) (snd wp)) a, t)]))
  | IEnum ft K vkey lit modi =>
      (* [vkey], the class of the literal under Python's ==, is what the cache was keyed by before
         the repair of enum-cache-equal-keys; it does not enter any more *)
      bind (get_sub w cp K) (fun wp => Ok (enum_cell (fst wp) ft (snd wp) lit lit modi))
  end.

Fixpoint render_line (w : world) (cp : pid) (l : list item) : res (world * list chunk) :=
  match l with
  | [] => Ok (w, [])
  | it :: r =>
      bind (render_item w cp it) (fun wc =>
      bind (render_line (fst wc) cp r) (fun wc' => Ok (fst wc', snd wc ++ snd wc')))
  end.

Fixpoint render_lines (w : world) (cp : pid) (ls : list (list item)) : res (world * list (list chunk)) :=
  match ls with
  | [] => Ok (w, [])
  | l :: r =>
      bind (render_line w cp l) (fun wc =>
      bind (render_lines (fst wc) cp r) (fun wc' => Ok (fst wc', snd wc :: snd wc')))
  end.

Fixpoint touch_subs (w : world) (cp : pid) (ks : list cls) : res world :=
  match ks with
  | [] => Ok w
  | K :: r => bind (get_sub w cp K) (fun wp => touch_subs (fst wp) cp r)
  end.

(* gen_ch_lines(cp) *)
Definition gen_lines (w : world) (cp : pid) (o : objspec) : res (world * list (list chunk)) :=
  bind (touch_subs w cp (o_subs o)) (fun w1 => render_lines w1 cp (o_lines o)).

Definition text_whole (ls : list (list chunk)) : list Z := str_of (join_chunks ls).
Definition text_lines (ls : list (list chunk)) : list Z := join_lines (map str_of ls).

(* how the palette argument of ch_text()/__call__ is given *)
Inductive palarg :=
| PNone                      (* palette=None: PALETTE_CLASS(colors_conf, no_color) *)
| PObj (c : cid)             (* palette=PALETTE_CLASS(colors_conf=c) *)
| PSynced.                   (* palette=PALETTE_CLASS(synced=True) *)

(* PaletteUser._mk_palette *)
Definition mk_palette (w : world) (K : cls) (pa : palarg) (copt : option cid) (nocolor : bool)
  : res (world * pid) :=
  match pa with
  | PNone => class_call w copt nocolor K false
  | PObj c =>
      bind (class_call w (Some c) false K false) (fun wp =>
        if nocolor then class_call (fst wp) None true K false else Ok wp)
  | PSynced =>
      bind (class_call w None false K true) (fun wp =>
        if nocolor then class_call (fst wp) None true K false else Ok wp)
  end.

(* ways of consuming a CHTextResult: 0 str(r); 1 iteration; 2 iteration then
   str (same result object); 3 str then iteration *)
Definition consume (w : world) (cp : pid) (o : objspec) (mode : Z) : res (world * list (list Z)) :=
  bind (gen_lines w cp o) (fun wl =>
    let '(w1, ls) := wl in
    if mode =? 0 then Ok (w1, [text_whole ls])
    else if mode =? 1 then Ok (w1, [text_lines ls])
    else bind (gen_lines w1 cp o) (fun wl2 =>
           let '(w2, ls2) := wl2 in
           if mode =? 2 then Ok (w2, [text_lines ls; text_whole ls2])
           else Ok (w2, [text_whole ls; text_lines ls2]))).

Inductive op :=
| ONewConf (c : cid) (nocolor : bool) (init : list (synt * descr))
| ODrop (c : cid)
| ORegister (c : cid) (items : list (synt * descr))
| OSetGlobal (c : option cid)
| ORender (o : objspec) (copt : option cid) (nocolor : bool) (pa : palarg) (mode : Z) (ids : list pid)
(* lazy results (ppobj.py CHTextResult 27-102): r = obj.ch_text(...) selects the palette at once and keeps it;
   the text is produced when the result is consumed -- possibly later, possibly line by line, interleaved
   with the consumption of other results.  w_hcmds: a handle -> the palette it holds. *)
| OMake (h : Z) (K : cls) (copt : option cid) (nocolor : bool) (pa : palarg) (ids : list pid)
                                                     (* r_h = obj.ch_text(colors_conf, no_color, palette) *)
| ONext (h : Z) (o : objspec) (ids : list pid)       (* next(it_h): [o] = the sub-palettes first requested and the line
                                                        yielded by this step of the generator *)
| OWholeH (h : Z) (o : objspec) (mode : Z) (ids : list pid).   (* str(r_h) / full iteration / both *)

Definition new_conf (nocolor : bool) (init : list (synt * descr)) (held : bool) : conf :=
  fst (add_raw (fst (add_raw (mkConf nocolor [] [] [] held) init)) builtin_config).

Definition step (w : world) (o : op) : res (world * list (list Z)) :=
  match o with
  | ONewConf c nocolor init => Ok (put_conf w c (new_conf nocolor init true), [])
  | ODrop c =>
      let cf := conf_of w c in
      Ok (gc (put_conf w c (mkConf (c_nocolor cf) (c_smap cf) (c_reg cf) (c_cache cf) false)), [])
  | ORegister c items => Ok (gc (add_items w c items), [])
  | OSetGlobal copt =>
      let '(w1, c) := match copt with
                      | Some c => (w, c)
                      | None => let c := w_nextc w in (set_nextc (put_conf w c (dflt_conf false)) (c - 1), c)
                      end in
      Ok (gc (resync (set_global w1 (Some c))), [])
  | ORender o copt nocolor pa mode ids =>
      bind (mk_palette (set_oracle w ids) (o_cls o) pa copt nocolor) (fun wp =>
        let '(w1, cp) := wp in
        bind (consume (set_stack w1 [cp]) cp o mode) (fun wt =>
          Ok (gc (set_stack (fst wt) []), snd wt)))
  | OMake h K copt nocolor pa ids =>
      bind (mk_palette (set_oracle w ids) K pa copt nocolor) (fun wp =>
        Ok (gc (set_hcmds (fst wp) ((h, snd wp) :: zdel h (w_hcmds (fst wp)))), []))
  | ONext h o ids =>
      match zfind h (w_hcmds w) with
      | None => Err KeyErr
      | Some cp => bind (gen_lines (set_oracle w ids) cp o) (fun wl => Ok (gc (fst wl), [text_lines (snd wl)]))
      end
  | OWholeH h o mode ids =>
      match zfind h (w_hcmds w) with
      | None => Err KeyErr
      | Some cp => bind (consume (set_oracle w ids) cp o mode) (fun wt => Ok (gc (fst wt), snd wt))
      end
  end.

Fixpoint run_ops (w : world) (ops : list op) : res (world * list (list (list Z))) :=
  match ops with
  | [] => Ok (w, [])
  | o :: r =>
      bind (step w o) (fun wo =>
      bind (run_ops (fst wo) r) (fun wr => Ok (fst wr, snd wo :: snd wr)))
  end.

End Render.
End World.
