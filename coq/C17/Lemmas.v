(* C17/Lemmas.v -- proofs about the model of ak/conn_http.py / ak/mcaller_http.py:
   obligations on the clauses read from the source, refinement of the
   heap-manipulating request assembly to a pure specification, the invariant
   "conn.adapters = own adapters of the whole chain" over all operation
   sequences, frame / non-interference. *)
From Coq Require Import ZArith List Bool Lia.
From AK Require Import Common.Sx Common.Err gen.C17_Consts C17.Codec C17.Model C17.Base.
Import ListNotations.
Open Scope Z_scope.

(* ------------------------------------------------------------------ *)
(* obligations on what gen_consts read from the current source          *)

Lemma hdr_copy_true : hdr_copy = true.
Proof. vm_compute. reflexivity. Qed.

Lemma clone_wraps_nonlist_true : clone_wraps_nonlist = true.
Proof. vm_compute. reflexivity. Qed.

Lemma resp_reversed_true : resp_reversed = true.
Proof. vm_compute. reflexivity. Qed.

Definition auth_key : str := basic_set_key.

(* all three authenticating adapters test and set one and the same key, and
   urllib's key.capitalize() leaves it alone *)
Lemma auth_keys_agree :
  basic_assert_key = auth_key /\ client_assert_key = auth_key /\ client_set_key = auth_key /\
  token_assert_key = auth_key /\ token_set_key = auth_key /\ capitalize auth_key = auth_key.
Proof. vm_compute. repeat split. Qed.

(* no other key written by do_request / the tag adapter collides with it in the Request *)
Lemma other_keys_distinct :
  capitalize x_tag <> auth_key /\ capitalize reqid_set_key <> auth_key /\ capitalize ctype_set_key <> auth_key.
Proof. vm_compute. repeat split; discriminate. Qed.

(* the request id test looks for the key that is set: literally, or -- case-insensitive clause -- for its lower-case form *)
Lemma reqid_keys_agree : reqid_test_key = (if reqid_ci then map low reqid_set_key else reqid_set_key).
Proof. vm_compute. reflexivity. Qed.

Lemma ctype_keys_agree : ctype_test_key = ctype_set_key.
Proof. vm_compute. reflexivity. Qed.

(* get/post/put/delete/patch pass the upper-case method names *)
Lemma verbs_upper : Forall (fun v => upper v = v) verbs /\ length verbs = 5%nat.
Proof. vm_compute. repeat constructor. Qed.

(* ------------------------------------------------------------------ *)
(* pure specification of a request                                      *)

Fixpoint adapters_pre (ads : list adapter) (pd : str * dict) : res (str * dict) :=
  match ads with
  | [] => Ok pd
  | a :: r => bind (adapter_pre a pd) (adapters_pre r)
  end.

Definition init_dict (h : heap) (hdrs : option ref) : res dict :=
  match hdrs with
  | None => Ok []
  | Some r => match hget h r with Some (CHeaders d) => Ok d | _ => Err OtherErr end
  end.

(* what a request through a connection with root (addr, sids) and adapter
   list [ads] hands to the opener, as a function of the VALUES of the caller's
   objects, and what it returns to the caller: the opener's answer, decoded or raw, passed through the
   response processors of [ads]; errors in the order the code raises them *)
Definition spec_of (h : heap) (addr : str) (sids : bool) (ads : list adapter) (q : reqargs) : res (captured * rval) :=
  match init_dict h (a_headers q) with
  | Err e => Err e
  | Ok d0 =>
      match adapters_pre ads (a_path q, d0) with
      | Err e => Err e
      | Ok (p, d) =>
          match read_params h (a_params q), read_body h (a_data q) with
          | Ok params, Ok data =>
              bind (respond ads (a_raw q) (a_resp q)) (fun v => Ok (snd (assemble addr sids ads p (a_meth q) params data d), v))
          | _, _ => Err OtherErr
          end
      end
  end.

Lemma adapters_pre_app l1 l2 pd :
  adapters_pre (l1 ++ l2) pd = bind (adapters_pre l1 pd) (adapters_pre l2).
Proof.
  revert pd. induction l1 as [|a l1 IH]; intros pd; cbn [app adapters_pre bind]; [reflexivity|].
  destruct (adapter_pre a pd) as [pd'|e]; cbn [bind]; [apply IH|reflexivity].
Qed.

(* ------------------------------------------------------------------ *)
(* refinement: the adapter loop writes only into the fresh header cell   *)

Lemma apply_adapters_spec ads : forall (h0 : heap) d path,
  exists dx,
    fst (apply_adapters ads (h0 ++ [CHeaders d]) {| r_path := path; r_hdr := length h0 |}) = h0 ++ [CHeaders dx] /\
    match adapters_pre ads (path, d) with
    | Ok (p', d') =>
        snd (apply_adapters ads (h0 ++ [CHeaders d]) {| r_path := path; r_hdr := length h0 |})
          = Ok {| r_path := p'; r_hdr := length h0 |} /\ dx = d'
    | Err e =>
        snd (apply_adapters ads (h0 ++ [CHeaders d]) {| r_path := path; r_hdr := length h0 |}) = Err e
    end.
Proof.
  induction ads as [|a ads IH]; intros h0 d path; cbn [apply_adapters adapters_pre bind].
  - exists d. cbn [fst snd]. auto.
  - unfold process_req_args. cbn [r_hdr r_path]. rewrite hget_last.
    destruct (adapter_pre a (path, d)) as [[p1 d1]|e]; cbn [bind].
    + rewrite hset_last. apply IH.
    + exists d. cbn [fst snd]. auto.
Qed.

Lemma read_params_ext (h : heap) dx r : read_params (h ++ [CHeaders dx]) r = read_params h r.
Proof.
  destruct r as [r|]; [|reflexivity]. unfold read_params.
  destruct (Nat.lt_ge_cases r (length h)) as [L|G].
  - rewrite hget_app_l by exact L. reflexivity.
  - unfold hget. rewrite nth_error_app2 by exact G.
    replace (nth_error h r) with (@None cell) by (symmetry; apply nth_error_None; exact G).
    destruct (r - length h)%nat as [|n]; cbn [nth_error]; [reflexivity|]. destruct n; reflexivity.
Qed.

Lemma read_body_ext (h : heap) dx r : read_body (h ++ [CHeaders dx]) r = read_body h r.
Proof.
  destruct r as [r|]; [|reflexivity]. unfold read_body.
  destruct (Nat.lt_ge_cases r (length h)) as [L|G].
  - rewrite hget_app_l by exact L. reflexivity.
  - unfold hget. rewrite nth_error_app2 by exact G.
    replace (nth_error h r) with (@None cell) by (symmetry; apply nth_error_None; exact G).
    destruct (r - length h)%nat as [|n]; cbn [nth_error]; [reflexivity|]. destruct n; reflexivity.
Qed.

Lemma init_headers_spec (h : heap) hdrs :
  init_headers h hdrs =
  match init_dict h hdrs with
  | Ok d => Ok (h ++ [CHeaders d], length h)
  | Err e => Err e
  end.
Proof.
  unfold init_headers, init_dict, alloc. destruct hdrs as [r|]; [|reflexivity].
  destruct (hget h r) as [[l|d|p|b]|]; try reflexivity.
  rewrite hdr_copy_true. destruct d; reflexivity.
Qed.

(* the request as observed = the pure specification; the heap only grows by
   the RequestArguments' private header dict *)
Lemma do_request_spec (h : heap) addr sids ads q :
  snd (do_request h addr sids ads q) = spec_of h addr sids ads q /\
  exists e, fst (do_request h addr sids ads q) = h ++ e.
Proof.
  unfold do_request, spec_of. rewrite init_headers_spec.
  destruct (init_dict h (a_headers q)) as [d0|e0]; cbn [fst snd].
  2:{ split; [reflexivity|]. exists []. rewrite app_nil_r. reflexivity. }
  destruct (apply_adapters_spec ads h d0 (a_path q)) as (dx & Hh & Hs).
  destruct (apply_adapters ads (h ++ [CHeaders d0]) {| r_path := a_path q; r_hdr := length h |}) as [h1 r1].
  cbn [fst snd] in Hh, Hs. subst h1.
  destruct (adapters_pre ads (a_path q, d0)) as [[p d]|e].
  - destruct Hs as [-> ->]. cbn [r_hdr r_path].
    rewrite read_params_ext, read_body_ext, hget_last.
    destruct (read_params h (a_params q)) as [params|]; [|split; [reflexivity|cbn [fst]; eauto]].
    destruct (read_body h (a_data q)) as [data|]; [|split; [reflexivity|cbn [fst]; eauto]].
    destruct (assemble addr sids ads p (a_meth q) params data d) as [d' cap] eqn:E. cbn [fst snd].
    rewrite hset_last. split; [reflexivity|eauto].
  - subst r1. cbn [fst snd]. split; [reflexivity|eauto].
Qed.

(* ------------------------------------------------------------------ *)
(* the chain invariant                                                  *)

(* adapters of the whole chain: own adapters of the connection, then its parent's, ... *)
Fixpoint flat_own (c : connv) : list adapter :=
  match c with
  | Impl _ _ _ => []
  | Wrap _ own p _ => own ++ flat_own p
  end.

(* the list object conn.adapters holds exactly that, for the connection and all its ancestors *)
Fixpoint wf_conn (h : heap) (c : connv) : Prop :=
  hget h (conn_lref c) = Some (CAdapters (flat_own c)) /\
  match c with
  | Impl _ _ _ => True
  | Wrap _ _ p _ => wf_conn h p
  end.

Lemma wf_conn_head h c : wf_conn h c -> hget h (conn_lref c) = Some (CAdapters (flat_own c)).
Proof. destruct c; cbn [wf_conn]; tauto. Qed.

Lemma wf_conn_ext h e c : wf_conn h c -> wf_conn (h ++ e) c.
Proof.
  induction c as [a s r|b own p IH r]; cbn [wf_conn conn_lref flat_own]; intros [H1 H2].
  - split; [apply hget_app_some; exact H1|exact I].
  - split; [apply hget_app_some; exact H1|apply IH; exact H2].
Qed.

Lemma mk_wrap_ok h b own p : wf_conn h p ->
  mk_wrap h b own p = Ok (h ++ [CAdapters (own ++ flat_own p)], Wrap b own p (length h)) /\
  wf_conn (h ++ [CAdapters (own ++ flat_own p)]) (Wrap b own p (length h)).
Proof.
  intros W. unfold mk_wrap, alloc. rewrite (wf_conn_head _ _ W). split; [reflexivity|].
  cbn [wf_conn conn_lref flat_own]. split; [apply hget_last|apply wf_conn_ext; exact W].
Qed.

Lemma mk_impl_ok h a s :
  mk_impl h a s = (h ++ [CAdapters []], Impl a s (length h)) /\ wf_conn (h ++ [CAdapters []]) (Impl a s (length h)).
Proof. unfold mk_impl, alloc. split; [reflexivity|]. cbn [wf_conn conn_lref flat_own]. split; [apply hget_last|exact I]. Qed.

Definition root_of (c : connv) : str * bool := conn_root c.

(* a request through a well-formed connection = the specification applied to the adapters of its whole chain *)
Lemma conn_request_spec h c q : wf_conn h c ->
  snd (conn_request h c q) = spec_of h (fst (conn_root c)) (snd (conn_root c)) (flat_own c) q.
Proof.
  intros W. unfold conn_request. rewrite (wf_conn_head _ _ W).
  destruct (conn_root c) as [addr sids]. cbn [fst snd]. apply do_request_spec.
Qed.

Lemma conn_request_frame h c q : exists e, fst (conn_request h c q) = h ++ e.
Proof.
  unfold conn_request.
  destruct (hget h (conn_lref c)) as [[ads|d|p|b]|]; try (exists []; cbn [fst]; rewrite app_nil_r; reflexivity).
  destruct (conn_root c) as [addr sids]. apply do_request_spec.
Qed.

(* ---- callers ---- *)

Definition prefix_ads (p : str) : list adapter := if nonempty p then [APrefix p] else [].

Definition cache_ok (h : heap) (m : callerv) (pc : str * connv) : Prop :=
  wf_conn h (snd pc) /\ conn_root (snd pc) = conn_root (m_conn m) /\
  flat_own (snd pc) = prefix_ads (fst pc) ++ flat_own (m_conn m).

Definition wf_caller (h : heap) (m : callerv) : Prop :=
  wf_conn h (m_conn m) /\ Forall (cache_ok h m) (m_cache m).

Lemma wf_caller_ext h e m : wf_caller h m -> wf_caller (h ++ e) m.
Proof.
  intros [W F]. split; [apply wf_conn_ext; exact W|].
  eapply Forall_impl; [|exact F]. intros pc (A & B & C). split; [apply wf_conn_ext; exact A|tauto].
Qed.

(* the adapters a wrapper method declared with [comps] adds in front of the caller's connection *)
Definition comp_chain (pm : list (str * str)) (comps : option (list str)) : res (list adapter) :=
  match comps with
  | None => Ok []
  | Some cs =>
      match filter (fun c => match map_get c pm with Some _ => true | None => false end) cs with
      | [c] => match map_get c pm with Some p => Ok (prefix_ads p) | None => Err OtherErr end
      | _ => Err AssertErr
      end
  end.

Definition caller_same (m m' : callerv) : Prop := m_conn m' = m_conn m /\ m_map m' = m_map m.

Lemma cache_get_in k (l : list (str * connv)) c : cache_get k l = Some c -> exists k', In (k', c) l /\ k' = k.
Proof.
  unfold cache_get. destruct (find (fun kv => str_eqb (fst kv) k) l) as [[k' c']|] eqn:E; [|discriminate].
  intros [= <-]. apply find_some in E as [Hin He]. cbn [fst] in He.
  exists k'. split; [exact Hin|]. destruct (str_eqb_spec k' k); congruence.
Qed.

Lemma get_conn_spec h m comps : wf_caller h m ->
  match comp_chain (m_map m) comps with
  | Err e => get_conn h m comps = Err e
  | Ok pre =>
      exists e m' c, get_conn h m comps = Ok (h ++ e, m', c) /\
        wf_caller (h ++ e) m' /\ caller_same m m' /\
        wf_conn (h ++ e) c /\ conn_root c = conn_root (m_conn m) /\ flat_own c = pre ++ flat_own (m_conn m)
  end.
Proof.
  intros [W F]. unfold comp_chain, get_conn. destruct comps as [cs|].
  2:{ exists [], m, (m_conn m). rewrite app_nil_r.
      exact (conj eq_refl (conj (conj W F) (conj (conj eq_refl eq_refl) (conj W (conj eq_refl eq_refl))))). }
  destruct (filter _ cs) as [|c [|c2 r]]; try reflexivity.
  destruct (map_get c (m_map m)) as [p|]; [|reflexivity].
  destruct (cache_get p (m_cache m)) as [conn|] eqn:Ec.
  - exists [], m, conn. rewrite app_nil_r.
    apply cache_get_in in Ec as (k' & Hin & ->).
    rewrite Forall_forall in F. destruct (F _ Hin) as (A & B & C). cbn [fst snd] in *.
    pose proof F as F'. rewrite <- Forall_forall in F'.
    exact (conj eq_refl (conj (conj W F') (conj (conj eq_refl eq_refl) (conj A (conj B C))))).
  - unfold prefix_ads. destruct (nonempty p) eqn:Ep.
    + destruct (mk_wrap_ok h true [APrefix p] (m_conn m) W) as [E1 W1]. rewrite E1. cbn [bind].
      eexists _, _, _. split; [reflexivity|]. cbn [m_conn m_cache m_map].
      refine (conj (conj _ _) (conj (conj eq_refl eq_refl) (conj W1 (conj eq_refl eq_refl)))).
      * apply wf_conn_ext; exact W.
      * apply Forall_app. split.
        -- eapply Forall_impl; [|exact F]. intros pc (A & B & C). split; [apply wf_conn_ext; exact A|tauto].
        -- constructor; [|constructor]. split; [exact W1|]. cbn [fst snd conn_root flat_own]. unfold prefix_ads. rewrite Ep. auto.
    + cbn [bind]. exists [], {| m_map := m_map m; m_conn := m_conn m; m_cache := m_cache m ++ [(p, m_conn m)] |}, (m_conn m).
      rewrite app_nil_r. split; [reflexivity|]. cbn [m_conn m_cache m_map].
      refine (conj (conj W _) (conj (conj eq_refl eq_refl) (conj W (conj eq_refl eq_refl)))).
      apply Forall_app. split; [exact F|]. constructor; [|constructor].
      split; [exact W|]. cbn [fst snd]. unfold prefix_ads. rewrite Ep. auto.
Qed.

(* ------------------------------------------------------------------ *)
(* states, operation sequences                                          *)

Definition wf_state (st : state) : Prop :=
  Forall (wf_conn (heap_of st)) (conns st) /\
  Forall (wf_caller (heap_of st)) (callers st) /\
  Forall (fun r => (r < length (heap_of st))%nat) (cobjs st).

(* st' is st plus new cells / objects; nothing that existed was changed
   (callers keep their connection and prefix map; only their cache may grow) *)
Definition extends (st st' : state) : Prop :=
  (exists e, heap_of st' = heap_of st ++ e) /\
  (exists e, conns st' = conns st ++ e) /\
  (exists e, cobjs st' = cobjs st ++ e) /\
  (exists ms e, callers st' = ms ++ e /\ Forall2 caller_same (callers st) ms).

Lemma caller_same_refl l : Forall2 caller_same l l.
Proof. induction l; constructor; [split; reflexivity|assumption]. Qed.

Lemma extends_refl st : extends st st.
Proof.
  repeat split; try (exists []; rewrite app_nil_r; reflexivity).
  exists (callers st), []. rewrite app_nil_r. split; [reflexivity|apply caller_same_refl].
Qed.

Lemma Forall2_caller_same_trans l1 l2 l3 :
  Forall2 caller_same l1 l2 -> Forall2 caller_same l2 l3 -> Forall2 caller_same l1 l3.
Proof.
  intros H. revert l3. induction H as [|a b l1 l2 [A1 A2] H IH]; intros l3 H3; inversion H3 as [|b' c l2' l3' [B1 B2] H3']; subst; constructor.
  - split; congruence.
  - apply IH. assumption.
Qed.

Lemma extends_trans a b c : extends a b -> extends b c -> extends a c.
Proof.
  intros ((e1 & H1) & (f1 & C1) & (g1 & O1) & (ms1 & x1 & M1 & S1)) ((e2 & H2) & (f2 & C2) & (g2 & O2) & (ms2 & x2 & M2 & S2)).
  split; [|split; [|split]].
  - exists (e1 ++ e2). rewrite H2, H1, app_assoc. reflexivity.
  - exists (f1 ++ f2). rewrite C2, C1, app_assoc. reflexivity.
  - exists (g1 ++ g2). rewrite O2, O1, app_assoc. reflexivity.
  - rewrite M1 in S2. apply Forall2_app_inv_l in S2 as (ma & mb & Sa & Sb & ->).
    exists ma, (mb ++ x2). split; [rewrite M2, app_assoc; reflexivity|].
    eapply Forall2_caller_same_trans; eassumption.
Qed.

Lemma Forall_replace {A} (P : A -> Prop) (l : list A) i x :
  Forall P l -> P x -> Forall P (firstn i l ++ x :: skipn (S i) l).
Proof.
  intros H Hx. revert i. induction H as [|y l Hy Hl IH]; intros i.
  - destruct i; cbn; constructor; auto.
  - destruct i as [|i]; cbn [firstn skipn app].
    + constructor; assumption.
    + constructor; [assumption|]. apply IH.
Qed.

Lemma Forall2_replace (l : list callerv) i m m' :
  nth_error l i = Some m -> caller_same m m' ->
  Forall2 caller_same l (firstn i l ++ m' :: skipn (S i) l).
Proof.
  revert i. induction l as [|y l IH]; intros [|i]; cbn [nth_error firstn skipn app]; try discriminate.
  - intros [= ->] H. constructor; [exact H|apply caller_same_refl].
  - intros H1 H2. constructor; [split; reflexivity|]. apply IH; assumption.
Qed.

Definition is_add (o : op) : bool := match o with OAddAdapter _ _ => true | _ => false end.

Lemma wf_state_heap_ext st e :
  wf_state st ->
  Forall (wf_conn (heap_of st ++ e)) (conns st) /\
  Forall (wf_caller (heap_of st ++ e)) (callers st) /\
  Forall (fun r => (r < length (heap_of st ++ e))%nat) (cobjs st).
Proof.
  intros (A & B & C). split; [|split].
  - eapply Forall_impl; [|exact A]. intros c. apply wf_conn_ext.
  - eapply Forall_impl; [|exact B]. intros c. apply wf_caller_ext.
  - eapply Forall_impl; [|exact C]. intros r. cbn beta. rewrite app_length. lia.
Qed.

(* adding cells, connections, callers and caller objects keeps the invariant *)
Lemma grow_ok st e (nc : list connv) (nm : list callerv) (no : list ref) :
  wf_state st ->
  Forall (wf_conn (heap_of st ++ e)) nc ->
  Forall (wf_caller (heap_of st ++ e)) nm ->
  Forall (fun r => (r < length (heap_of st ++ e))%nat) no ->
  let st' := {| heap_of := heap_of st ++ e; cobjs := cobjs st ++ no; conns := conns st ++ nc; callers := callers st ++ nm |} in
  wf_state st' /\ extends st st'.
Proof.
  intros W A B C st'. destruct (wf_state_heap_ext st e W) as (A0 & B0 & C0).
  split.
  - unfold wf_state, st'; cbn [heap_of conns callers cobjs].
    split; [|split]; apply Forall_app; split; assumption.
  - unfold extends, st'; cbn [heap_of conns callers cobjs]. split; [eauto|]. split; [eauto|]. split; [eauto|].
    exists (callers st), nm. split; [reflexivity|apply caller_same_refl].
Qed.

Lemma parent_of_ok st cd h p : wf_state st -> parent_of st cd = Ok (h, p) ->
  (exists e, h = heap_of st ++ e) /\ wf_conn h p.
Proof.
  intros (A & _ & _). destruct cd as [a|a s|i]; cbn [parent_of].
  - destruct (mk_impl_ok (heap_of st) (strip_slash a) true) as [E W]. rewrite E. intros [= <- <-]. split; [eauto|exact W].
  - destruct (mk_impl_ok (heap_of st) a s) as [E W]. rewrite E. intros [= <- <-]. split; [eauto|exact W].
  - destruct (nth_error (conns st) i) as [c|] eqn:E; [|discriminate]. intros [= <- <-].
    split; [exists []; rewrite app_nil_r; reflexivity|].
    rewrite Forall_forall in A. apply A. eapply nth_error_In; eauto.
Qed.

Lemma same_state st : st = {| heap_of := heap_of st ++ []; cobjs := cobjs st ++ []; conns := conns st ++ []; callers := callers st ++ [] |}.
Proof. destruct st; cbn. rewrite !app_nil_r. reflexivity. Qed.

Lemma lt_last (h : heap) (c : cell) : (length h < length (h ++ [c]))%nat.
Proof. rewrite app_length. cbn. lia. Qed.

(* every operation except add_adapter keeps the invariant and only adds to the state *)
Lemma step_ok st o : wf_state st -> is_add o = false ->
  wf_state (fst (step st o)) /\ extends st (fst (step st o)).
Proof.
  intros W Hadd.
  assert (Hsame : wf_state st /\ extends st st) by (split; [exact W|apply extends_refl]).
  destruct o as [l|d|p|b|w cd|pm cd|i ad|i q|i comps q|i a]; cbn [step is_add] in *; try discriminate.
  - unfold new_cobj, alloc. cbn [fst]. rewrite (app_nil_end (conns st)), (app_nil_end (callers st)).
    apply grow_ok; auto. constructor; [apply lt_last|constructor].
  - unfold new_cobj, alloc. cbn [fst]. rewrite (app_nil_end (conns st)), (app_nil_end (callers st)).
    apply grow_ok; auto. constructor; [apply lt_last|constructor].
  - unfold new_cobj, alloc. cbn [fst]. rewrite (app_nil_end (conns st)), (app_nil_end (callers st)).
    apply grow_ok; auto. constructor; [apply lt_last|constructor].
  - unfold new_cobj, alloc. cbn [fst]. rewrite (app_nil_end (conns st)), (app_nil_end (callers st)).
    apply grow_ok; auto. constructor; [apply lt_last|constructor].
  - (* OConn *)
    destruct (own_of st w) as [[b own]|e]; cbn [bind fst snd]; [|exact Hsame].
    destruct (parent_of st cd) as [[h p]|e] eqn:Ep; cbn [bind fst snd]; [|exact Hsame].
    destruct (parent_of_ok _ _ _ _ W Ep) as [[e ->] Wp].
    destruct (mk_wrap_ok _ b own p Wp) as [E1 W1]. rewrite E1. cbn [fst].
    rewrite <- app_assoc. rewrite (app_nil_end (cobjs st)), (app_nil_end (callers st)).
    apply grow_ok; auto. constructor; [|constructor]. rewrite app_assoc. exact W1.
  - (* OCaller *)
    unfold caller_conn.
    destruct (parent_of st cd) as [[h p]|e] eqn:Ep; cbn [bind fst snd]; [|exact Hsame].
    destruct (parent_of_ok _ _ _ _ W Ep) as [[e ->] Wp].
    destruct (mk_wrap_ok _ true [] p Wp) as [E1 W1].
    assert (Hdirect : wf_state (fst ({| heap_of := heap_of st ++ e; cobjs := cobjs st; conns := conns st ++ [p];
                callers := callers st ++ [{| m_map := pm; m_conn := p; m_cache := [] |}] |}, @Ok obsv OUnit)) /\
              extends st (fst ({| heap_of := heap_of st ++ e; cobjs := cobjs st; conns := conns st ++ [p];
                callers := callers st ++ [{| m_map := pm; m_conn := p; m_cache := [] |}] |}, @Ok obsv OUnit))).
    { cbn [fst]. rewrite (app_nil_end (cobjs st)). apply grow_ok; auto.
      constructor; [|constructor]. split; [exact Wp|constructor]. }
    assert (Hwrap : forall x, x = mk_wrap (heap_of st ++ e) true [] p ->
              wf_state (fst (match x with
                 | Ok (h, c) => ({| heap_of := h; cobjs := cobjs st; conns := conns st ++ [c];
                      callers := callers st ++ [{| m_map := pm; m_conn := c; m_cache := [] |}] |}, Ok OUnit)
                 | Err e0 => (st, Err e0) end)) /\
              extends st (fst (match x with
                 | Ok (h, c) => ({| heap_of := h; cobjs := cobjs st; conns := conns st ++ [c];
                      callers := callers st ++ [{| m_map := pm; m_conn := c; m_cache := [] |}] |}, Ok OUnit)
                 | Err e0 => (st, Err e0) end))).
    { intros x ->. rewrite E1. cbn [fst]. rewrite <- app_assoc. rewrite (app_nil_end (cobjs st)).
      apply grow_ok; auto.
      - constructor; [|constructor]. rewrite app_assoc. exact W1.
      - constructor; [|constructor]. split; [rewrite app_assoc; exact W1|constructor]. }
    destruct cd as [a|a s|j]; try (apply Hwrap; reflexivity).
    destruct (conn_is_http p); [exact Hdirect|apply Hwrap; reflexivity].
  - (* OClone *)
    destruct (nth_error (callers st) i) as [m|] eqn:Em; [|exact Hsame].
    destruct (clone_adapters st ad) as [l|e]; cbn [bind]; [|exact Hsame].
    assert (Wm : wf_conn (heap_of st) (m_conn m)).
    { destruct W as (_ & B & _). rewrite Forall_forall in B. apply (B m). eapply nth_error_In; eauto. }
    destruct (mk_wrap_ok _ true l (m_conn m) Wm) as [E1 W1]. rewrite E1. cbn [fst].
    rewrite (app_nil_end (cobjs st)). apply grow_ok; auto.
    constructor; [|constructor]. split; [exact W1|constructor].
  - (* ORequest *)
    destruct (nth_error (conns st) i) as [c|]; [|exact Hsame].
    destruct (resolve st q) as [ra|]; [|exact Hsame].
    destruct (conn_request_frame (heap_of st) c ra) as [e He].
    destruct (conn_request (heap_of st) c ra) as [h r]. cbn [fst] in *. subst h.
    unfold upd_heap. rewrite (app_nil_end (cobjs st)), (app_nil_end (conns st)), (app_nil_end (callers st)).
    apply grow_ok; auto.
  - (* OCall *)
    destruct (nth_error (callers st) i) as [m|] eqn:Em; [|exact Hsame].
    destruct (resolve st q) as [ra|]; [|exact Hsame].
    assert (Wm : wf_caller (heap_of st) m).
    { destruct W as (_ & B & _). rewrite Forall_forall in B. apply (B m). eapply nth_error_In; eauto. }
    pose proof (get_conn_spec (heap_of st) m comps Wm) as G.
    destruct (comp_chain (m_map m) comps) as [pre|e0].
    2:{ rewrite G. exact Hsame. }
    destruct G as (e & m' & c & -> & Wm' & Sm & Wc & _).
    destruct (conn_request_frame (heap_of st ++ e) c ra) as [e2 He].
    destruct (conn_request (heap_of st ++ e) c ra) as [h r]. cbn [fst] in *. subst h.
    rewrite <- app_assoc. destruct (wf_state_heap_ext st (e ++ e2) W) as (A0 & B0 & C0).
    unfold set_caller. split.
    + unfold wf_state. cbn [heap_of conns callers cobjs]. split; [exact A0|]. split; [|exact C0].
      apply Forall_replace; [exact B0|]. rewrite app_assoc. apply wf_caller_ext. exact Wm'.
    + unfold extends. cbn [heap_of conns callers cobjs].
      split; [eauto|]. split; [exists []; rewrite app_nil_r; reflexivity|].
      split; [exists []; rewrite app_nil_r; reflexivity|].
      eexists _, []. rewrite app_nil_r. split; [reflexivity|]. eapply Forall2_replace; eauto.
Qed.

Definition no_add (ops : list op) : Prop := Forall (fun o => is_add o = false) ops.

Lemma init_wf : wf_state init.
Proof. repeat split; constructor. Qed.

Lemma run_ok ops : forall st, wf_state st -> no_add ops ->
  wf_state (fst (run_ops st ops)) /\ extends st (fst (run_ops st ops)).
Proof.
  induction ops as [|o ops IH]; intros st W N; cbn [run_ops].
  - cbn [fst]. split; [exact W|apply extends_refl].
  - inversion N as [|o' ops' No Nops]; subst.
    destruct (step_ok st o W No) as [W1 X1].
    destruct (step st o) as [st1 x]. cbn [fst] in W1, X1.
    destruct (IH st1 W1 Nops) as [W2 X2].
    destruct (run_ops st1 ops) as [st2 xs]. cbn [fst] in *.
    split; [exact W2|eapply extends_trans; eauto].
Qed.

(* every state reachable from the empty one without add_adapter *)
Definition reachable (st : state) : Prop := exists ops, no_add ops /\ st = fst (run_ops init ops).

Lemma reachable_wf st : reachable st -> wf_state st.
Proof. intros (ops & N & ->). apply run_ok; [apply init_wf|exact N]. Qed.

(* ------------------------------------------------------------------ *)
(* what a request / a wrapper call observes                             *)

Definition omap (r : res (captured * rval)) : res obsv :=
  match r with Ok (c, v) => Ok (OReq c v) | Err e => Err e end.

Lemma request_obs st i q c ra : wf_state st ->
  nth_error (conns st) i = Some c -> resolve st q = Ok ra ->
  snd (step st (ORequest i q)) =
  omap (spec_of (heap_of st) (fst (conn_root c)) (snd (conn_root c)) (flat_own c) ra).
Proof.
  intros (A & _ & _) Ec Er. cbn [step]. rewrite Ec, Er.
  assert (Wc : wf_conn (heap_of st) c). { rewrite Forall_forall in A. apply A. eapply nth_error_In; eauto. }
  rewrite <- (conn_request_spec _ _ ra Wc).
  destruct (conn_request (heap_of st) c ra) as [h r]. cbn [snd]. destruct r as [[? ?]|]; reflexivity.
Qed.

Definition oref_ok (h : heap) (o : option ref) : Prop :=
  match o with Some r => (r < length h)%nat | None => True end.
Definition ra_valid (h : heap) (ra : reqargs) : Prop :=
  oref_ok h (a_params ra) /\ oref_ok h (a_data ra) /\ oref_ok h (a_headers ra).

Lemma spec_of_ext h e addr sids ads ra : ra_valid h ra ->
  spec_of (h ++ e) addr sids ads ra = spec_of h addr sids ads ra.
Proof.
  intros (Vp & Vd & Vh). unfold spec_of.
  assert (E1 : init_dict (h ++ e) (a_headers ra) = init_dict h (a_headers ra)).
  { unfold init_dict. destruct (a_headers ra) as [r|]; [|reflexivity]. cbn [oref_ok] in Vh. rewrite hget_app_l by exact Vh. reflexivity. }
  assert (E2 : read_params (h ++ e) (a_params ra) = read_params h (a_params ra)).
  { unfold read_params. destruct (a_params ra) as [r|]; [|reflexivity]. cbn [oref_ok] in Vp. rewrite hget_app_l by exact Vp. reflexivity. }
  assert (E3 : read_body (h ++ e) (a_data ra) = read_body h (a_data ra)).
  { unfold read_body. destruct (a_data ra) as [r|]; [|reflexivity]. cbn [oref_ok] in Vd. rewrite hget_app_l by exact Vd. reflexivity. }
  rewrite E1, E2, E3. reflexivity.
Qed.

Lemma cobj_ref_ok st o r : wf_state st -> cobj_ref st o = Ok r -> oref_ok (heap_of st) r.
Proof.
  intros (_ & _ & C). unfold cobj_ref. destruct o as [i|]; [|intros [= <-]; exact I].
  destruct (nth_error (cobjs st) i) as [x|] eqn:E; [|discriminate]. intros [= <-]. cbn [oref_ok].
  rewrite Forall_forall in C. apply C. eapply nth_error_In; eauto.
Qed.

Lemma cobj_ref_ext st st' o r : (exists e, cobjs st' = cobjs st ++ e) -> cobj_ref st o = Ok r -> cobj_ref st' o = Ok r.
Proof.
  intros [e E]. unfold cobj_ref. destruct o as [i|]; [|auto].
  destruct (nth_error (cobjs st) i) as [x|] eqn:En; [|discriminate]. intros [= <-].
  rewrite E, nth_error_app1 by (apply nth_error_Some; congruence). rewrite En. reflexivity.
Qed.

Lemma resolve_inv st q ra : resolve st q = Ok ra ->
  exists m p d hd, (match s_meth q with
                    | MVerb i => match nth_error verbs i with Some v => Ok (Some v) | None => Err OtherErr end
                    | MRaw m => Ok m end) = Ok m /\
    cobj_ref st (s_params q) = Ok p /\ cobj_ref st (s_data q) = Ok d /\ cobj_ref st (s_headers q) = Ok hd /\
    ra = {| a_path := s_path q; a_meth := m; a_params := p; a_data := d; a_headers := hd;
            a_raw := s_raw q; a_resp := s_resp q |}.
Proof.
  unfold resolve.
  destruct (match s_meth q with MVerb i => _ | MRaw m => _ end) as [m|]; cbn [bind]; [|discriminate].
  destruct (cobj_ref st (s_params q)) as [p|]; cbn [bind]; [|discriminate].
  destruct (cobj_ref st (s_data q)) as [d|]; cbn [bind]; [|discriminate].
  destruct (cobj_ref st (s_headers q)) as [hd|]; cbn [bind]; [|discriminate].
  intros [= <-]. exists m, p, d, hd. auto.
Qed.

Lemma resolve_valid st q ra : wf_state st -> resolve st q = Ok ra -> ra_valid (heap_of st) ra.
Proof.
  intros W H. apply resolve_inv in H as (m & p & d & hd & _ & Hp & Hd & Hh & ->).
  unfold ra_valid. cbn [a_params a_data a_headers].
  split; [|split]; eapply cobj_ref_ok; eauto.
Qed.

Lemma resolve_ext st st' q ra : (exists e, cobjs st' = cobjs st ++ e) -> resolve st q = Ok ra -> resolve st' q = Ok ra.
Proof.
  intros X H. apply resolve_inv in H as (m & p & d & hd & Hm & Hp & Hd & Hh & ->).
  unfold resolve. rewrite Hm. cbn [bind].
  rewrite (cobj_ref_ext _ _ _ _ X Hp), (cobj_ref_ext _ _ _ _ X Hd), (cobj_ref_ext _ _ _ _ X Hh). reflexivity.
Qed.

(* a wrapper method: the connection handed out by get_conn (fresh, cached or
   the caller's own) always behaves as [prefix adapter] + the caller's chain *)
Lemma call_obs st i comps q m ra : wf_state st ->
  nth_error (callers st) i = Some m -> resolve st q = Ok ra ->
  snd (step st (OCall i comps q)) =
  match comp_chain (m_map m) comps with
  | Err e => Err e
  | Ok pre => omap (spec_of (heap_of st) (fst (conn_root (m_conn m))) (snd (conn_root (m_conn m)))
                            (pre ++ flat_own (m_conn m)) ra)
  end.
Proof.
  intros W Em Er. cbn [step]. rewrite Em, Er.
  assert (Wm : wf_caller (heap_of st) m).
  { destruct W as (_ & B & _). rewrite Forall_forall in B. apply (B m). eapply nth_error_In; eauto. }
  pose proof (get_conn_spec (heap_of st) m comps Wm) as G.
  destruct (comp_chain (m_map m) comps) as [pre|e0]; [|rewrite G; reflexivity].
  destruct G as (e & m' & c & -> & Wm' & Sm & Wc & Rc & Fc).
  rewrite <- (spec_of_ext (heap_of st) e) by (eapply resolve_valid; eauto).
  rewrite <- Rc, <- Fc, <- (conn_request_spec _ _ ra Wc).
  destruct (conn_request (heap_of st ++ e) c ra) as [h r]. cbn [snd]. destruct r as [[? ?]|]; reflexivity.
Qed.

(* ------------------------------------------------------------------ *)
(* frame / non-interference                                             *)

Lemma frame_cells st ops : wf_state st -> no_add ops ->
  forall r, (r < length (heap_of st))%nat ->
  hget (heap_of (fst (run_ops st ops))) r = hget (heap_of st) r.
Proof.
  intros W N r L. destruct (run_ok ops st W N) as [_ ((e & E) & _)]. rewrite E. apply hget_app_l. exact L.
Qed.

Lemma frame_caller_objects st ops i r : wf_state st -> no_add ops ->
  nth_error (cobjs st) i = Some r ->
  nth_error (cobjs (fst (run_ops st ops))) i = Some r /\
  hget (heap_of (fst (run_ops st ops))) r = hget (heap_of st) r.
Proof.
  intros W N E. split.
  - destruct (run_ok ops st W N) as [_ (_ & _ & (e & X) & _)]. rewrite X, nth_error_app1; [exact E|].
    apply nth_error_Some. congruence.
  - apply frame_cells; auto. destruct W as (_ & _ & C). rewrite Forall_forall in C. apply C. eapply nth_error_In; eauto.
Qed.

Lemma noninterference_conn st ops i c q ra : wf_state st -> no_add ops ->
  nth_error (conns st) i = Some c -> resolve st q = Ok ra ->
  snd (step (fst (run_ops st ops)) (ORequest i q)) = snd (step st (ORequest i q)).
Proof.
  intros W N Ec Er. destruct (run_ok ops st W N) as [W' ((e & He) & (f & Hc) & Ho & _)].
  assert (Ec' : nth_error (conns (fst (run_ops st ops))) i = Some c).
  { rewrite Hc, nth_error_app1; [exact Ec|]. apply nth_error_Some. congruence. }
  rewrite (request_obs _ _ _ _ _ W' Ec' (resolve_ext _ _ _ _ Ho Er)).
  rewrite (request_obs _ _ _ _ _ W Ec Er). rewrite He, spec_of_ext; [reflexivity|].
  eapply resolve_valid; eauto.
Qed.

Lemma Forall2_nth (l ms : list callerv) i m : Forall2 caller_same l ms -> nth_error l i = Some m ->
  exists m', nth_error ms i = Some m' /\ caller_same m m'.
Proof.
  intros H. revert i. induction H as [|a b l ms R H IH]; intros [|i]; cbn [nth_error]; try discriminate.
  - intros [= <-]. eauto.
  - apply IH.
Qed.

Lemma noninterference_caller st ops i m comps q ra : wf_state st -> no_add ops ->
  nth_error (callers st) i = Some m -> resolve st q = Ok ra ->
  snd (step (fst (run_ops st ops)) (OCall i comps q)) = snd (step st (OCall i comps q)).
Proof.
  intros W N Em Er. destruct (run_ok ops st W N) as [W' ((e & He) & _ & Ho & (ms & x & Hm & S))].
  destruct (Forall2_nth _ _ _ _ S Em) as (m' & Em' & [S1 S2]).
  assert (Em'' : nth_error (callers (fst (run_ops st ops))) i = Some m').
  { rewrite Hm, nth_error_app1; [exact Em'|]. apply nth_error_Some. congruence. }
  rewrite (call_obs _ _ _ _ _ _ W' Em'' (resolve_ext _ _ _ _ Ho Er)).
  rewrite (call_obs _ _ _ _ _ _ W Em Er). rewrite S1, S2.
  destruct (comp_chain (m_map m) comps); [|reflexivity].
  rewrite He, spec_of_ext; [reflexivity|]. eapply resolve_valid; eauto.
Qed.
