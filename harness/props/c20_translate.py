"""C20's use of the shared translator harness/lib/pytranslate.py (read its docstring for the supported subset).

`translate(source_text) -> coq_text` translates the WHOLE of ak/short_uuid.py (whole-module mode: every top-level statement
must be in the subset) into coq/gen/C20_Translated.v; coq/C20/TransEq.v proves the translated functions equal to the hand
model and coq/C20/PropsTranslated.v restates the property theorems for them.  The standard library (module uuid) enters as
the record `uuid_lib` of coq/C20/PyLib.v: every translated function takes `(L : uuid_lib) (fuel : nat)` first.
"""
import sys

from harness.lib import pytranslate
from harness.lib.pytranslate import Unsupported  # noqa: F401  (re-exported for c20.py)

ENTRY = {  # parameter types of the API functions (the helpers' types are inferred from their call sites)
    "uuid_from_short_str": ["obj"],
    "uuid_to_short_str": ["uuid"],
    "uuid_from_str": ["str"],
}
ENTRY_RET = {"uuid_from_short_str": "uuid", "uuid_to_short_str": "str", "uuid_from_str": "uuid"}


def config():
    return pytranslate.Config(
        source_name="ak/short_uuid.py", lib_binder="(L : uuid_lib)", lib_arg="L",
        ext_types={"uuid": "UUID L"},
        ext_calls={("uuid", "UUID", 0, ("int",)): ("UUID_of_int L", ["int"], "uuid"),      # uuid.UUID(int=n)
                   ("uuid", "UUID", 1, ()): ("UUID_of_str L", ["str"], "uuid")},           # uuid.UUID(s)
        ext_attrs={("uuid", "int"): ("UUID_int L", "int")},                                # u.int
        imports={"uuid"}, coq_imports=["C20.PyLib"])


def translate(source):
    tr = pytranslate.Translator(source, config())
    tr.whole_module(ENTRY, ENTRY_RET)
    return tr.emit("whole module")


def stub(reason):
    return pytranslate.stub(config(), reason, [
        ("T_uuid_from_short_str", "(v : pyobj) : res (UUID L)"),
        ("T_uuid_to_short_str", "(v : UUID L) : res (list Z)"),
        ("T_uuid_from_str", "(v : list Z) : res (UUID L)")])


if __name__ == "__main__":
    if sys.argv[1:2] == ["--selftest"]:
        sys.exit(pytranslate.selftest())
    sys.stdout.write(translate(open(sys.argv[1]).read()))
