"""Sub-process side of the implementation runner.

usage: python -m harness.implworker <prop module> <cases.jsonl> <out.jsonl> [timeout_s]
Runs with PYTHONPATH=/repo:/verif so that `ak` is /repo's current working tree.
One JSON observation per input line, flushed after each case, so the parent can
resume behind a case that killed the process.
"""
import importlib
import json
import os
import resource
import signal
import sys
import traceback


class Hang(BaseException):
    pass


def _alarm(signum, frame):
    raise Hang()


def main():
    modname, inp, outp = sys.argv[1:4]
    timeout = float(sys.argv[4]) if len(sys.argv) > 4 else 5.0
    mem = int(os.environ.get("VERIF_IMPL_MEM_GB", "4")) << 30
    resource.setrlimit(resource.RLIMIT_AS, (mem, mem))
    sys.setrecursionlimit(10000)
    import ak  # noqa: F401
    repo = os.environ.get("VERIF_REPO", "/repo")
    if not os.path.abspath(ak.__file__).startswith(os.path.abspath(repo) + os.sep):
        print(f"ak imported from {ak.__file__}, not from {repo}", file=sys.stderr)
        sys.exit(3)
    mod = importlib.import_module("harness.props." + modname)
    signal.signal(signal.SIGALRM, _alarm)
    with open(inp) as fi, open(outp, "a") as fo:
        for line in fi:
            case = json.loads(line)
            try:
                signal.setitimer(signal.ITIMER_REAL, timeout)
                try:
                    obs = mod.impl_run(case)
                finally:
                    signal.setitimer(signal.ITIMER_REAL, 0)
            except Hang:
                obs = {"__hang__": 1}
            except MemoryError:
                obs = {"__hang__": 1, "memory": 1}
            except BaseException:  # harness-side bug or unexpected impl escape
                obs = {"__crash__": traceback.format_exc()[-2000:]}
            fo.write(json.dumps(obs) + "\n")
            fo.flush()


if __name__ == "__main__":
    main()
