(* Common/Err.v -- exceptions as data.  Several properties say *which*
   exception must be raised, so models return [res A].  No proofs here. *)
From Coq Require Import ZArith List Bool.
From AK Require Import Common.Sx.
Import ListNotations.

Inductive err : Type :=
| ValueErr | KeyErr | IndexErr | AssertErr | AttrErr | TypeErr
| ParsingErr | LexicalErr | GrammarRec | Hang | OtherErr.

Definition err_code (e : err) : Z :=
  match e with
  | ValueErr => 1 | KeyErr => 2 | IndexErr => 3 | AssertErr => 4 | AttrErr => 5
  | TypeErr => 6 | ParsingErr => 7 | LexicalErr => 8 | GrammarRec => 9
  | Hang => 10 | OtherErr => 11
  end%Z.

Definition err_eqb (a b : err) : bool := Z.eqb (err_code a) (err_code b).

Inductive res (A : Type) : Type :=
| Ok (a : A)
| Err (e : err).
Arguments Ok {A} a.
Arguments Err {A} e.

Definition bind {A B} (r : res A) (f : A -> res B) : res B :=
  match r with Ok a => f a | Err e => Err e end.

(* canonical encoding: (0 value) / (1 code) *)
Definition sx_res {A} (f : A -> sx) (r : res A) : sx :=
  match r with
  | Ok a => SL [SZ 0; f a]
  | Err e => SL [SZ 1; SZ (err_code e)]
  end.
