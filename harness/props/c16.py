"""C16  Request ids are unique per connection under concurrent use  (ak/conn_http.py)"""
import ast
import json
import os
import re

from harness.lib import pytranslate
from harness.lib import sx as SX

ID = "C16"
COQ_DIR = "C16"
RUN_MOD = "C16.Run"
MODEL_TARGETS = ["C16/Run.vo"]
PROOF_TARGETS = ["C16/Lemmas.vo", "C16/TransEq.vo"]
PROPS = ["C16/Props.v", "C16/PropsTranslated.v"]
ALLOWED_AXIOMS = []
IMPL_TIMEOUT = 30.0
COQ_SHARD = 25

SRC = os.path.join("ak", "conn_http.py")
CTR = "_cur_req_id"
GUARD = "_reqid_generator_guard"
GEN = "_generate_request_id"
CONN_PART = "_reqid_connection_part"
OBS_KEY = "X-request-id"          # properties.jsonl, observe_at
DOC_KEY = "X-Request-ID"
RESPELLED_SIG = "caller-id-respelled-replaced"

RULE = ("2-4 real threads issue 1-3 requests each through different wrappers (HttpConn, BAuthConn, HttpConn with a "
        "path-prefix adapter, TokenAuthConn) of ONE root connection, under a deterministic scheduler that hands the "
        "turn over at opcode boundaries of every frame of ak/conn_http.py.  Schedules: every placement of one "
        "pre-emption relative to each shared access of the first request (plus, thorough, at EVERY opcode boundary of a "
        "request), all pairs of such placements for two pre-emptions, random segment schedules for 3-4 threads; mixes "
        "of caller-supplied ids (documented spelling, other spellings, several spellings), ids disabled, counters "
        "started near the 10^4 / 10^12 format boundaries; one headers dict object passed to several requests; wrappers derived from "
        "the root inside the threads while others use it; requests with dict/str/bytes bodies.  Non-trivial = at least two threads and another thread's "
        "shared access falls between the first and the last shared access of some request.")
TRUSTED_BASE = [
    "CPython runs one thread at a time and a thread switch happens only between two bytecode instructions; threading.Lock is a mutex "
    "whose acquire on a held lock does not return before a release (the model's Acquire stutters); `with lock:` releases on exit",
    "the harness scheduler (harness/props/c16_sched.py: sys.settrace + f_trace_opcodes, LockProxy substituted for the *instance attribute* "
    "_reqid_generator_guard) realises the chosen schedule and logs every access to _cur_req_id / the lock / the opener in execution order; "
    "accesses are recognised by attribute name in the bytecode of ak/conn_http.py; a thread that blocks on any lock other than the proxied "
    "attribute cannot be scheduled around: the case is reported as threads-stuck after 4 s",
    "urllib.request.Request stores each header under key.capitalize() (later duplicates win) -- modelled in sent_value, compared on every case",
    "gen/C16_Consts.v: impl_prog (shared accesses of do_request's id section and of _generate_request_id, in program order, inside/outside the "
    "with block), the header keys, the id format pieces and the 'derived connections share conn_impl' check are read from ak/conn_http.py by "
    "harness/props/c16.py:gen_consts (ast, fail-closed)",
    "str.format('{:0N}') of a non-negative int is its decimal representation left-padded with zeros to N characters (model: pad/dec)",
    "for the *_translated theorems: the shared translator harness/lib/pytranslate.py (Python ast -> Gallina, fail closed, NOT verified; "
    "`python -m harness.lib.pytranslate --selftest` compares ~4000 calls of 19 translated functions with CPython, incl. the format "
    "specs) and coq/Common/PyLib.v (py_format_int = [[fill]align][0][width] with sign-aware '=' padding, py_str_of_nat, py_mod = "
    "floor modulo); subset used here: conditional expression, `is None` on an Optional[int] (case split), %, str.format with "
    "auto-numbered {} / {:0N} fields on str and int, str literals; the hook c16._translate_id_format hands the translator the "
    "value of the single `return` of _generate_request_id and declares self._reqid_connection_part : str and the one local it "
    "mentions : Optional[int] (None = ids switched off); that this local holds the counter value read under the lock is what "
    "impl_prog / well_locked establish, not the translator",
]
ASSUMPTIONS = [
    "the counter starts at a non-negative value (0 in the code) and only the code of ak/conn_http.py touches _cur_req_id and the lock",
    "header names are ASCII; the caller's headers are a dict of str -> str",
    "'supplied by the caller' is read as: present in `headers` under any ASCII spelling (upper/lower case) of 'X-Request-ID'; with several "
    "spellings in one dict urllib keeps the last one (theorem supplied_id_last_spelling_sent, oracle: the value sent is one of the caller's)",
]
MODELLED = ("ak/conn_http.py: _HttpConnImpl.__init__ (counter/lock), do_request lines 143-146 and 168-180 (header section, Request construction "
            "as far as the X-request-id header is concerned), _generate_request_id, _HttpConnBase.__init__/get/post/... only through the "
            "extracted facts that a wrapper stores its parent's conn_impl (wrap_rule, impl_of) and that every request method calls "
            "self.conn_impl.do_request; url/data/adapters/RequestArguments are not modelled (exercised by the correspondence runs only)")


class ExtractError(Exception):
    pass


# ------------------------------------------------------------------ constants from the source
def _is_self_attr(node, name=None):
    return (isinstance(node, ast.Attribute) and isinstance(node.value, ast.Name) and node.value.id == "self"
            and (name is None or node.attr == name))


def _find_class(tree, name):
    for n in tree.body:
        if isinstance(n, ast.ClassDef) and n.name == name:
            return n
    raise ExtractError(f"class {name} not found")


def _find_method(cls, name):
    for n in cls.body:
        if isinstance(n, ast.FunctionDef) and n.name == name:
            return n
    raise ExtractError(f"method {cls.name}.{name} not found")


def _count_attr(node, attr):
    return sum(1 for n in ast.walk(node) if isinstance(n, ast.Attribute) and n.attr == attr)


def _parse_fmt_call(expr, var):
    """'{}{}SEP{}'.format(self._reqid_connection_part, '{:0W1}'.format(var % M), '{:0W2}'.format(var)) -> (sep, w1, M, w2)"""
    def fmt_call(e):
        if (isinstance(e, ast.Call) and isinstance(e.func, ast.Attribute) and e.func.attr == "format"
                and isinstance(e.func.value, ast.Constant) and isinstance(e.func.value.value, str) and not e.keywords):
            return e.func.value.value, e.args
        raise ExtractError("id expression is not a literal.format(...) call")
    outer, args = fmt_call(expr)
    m = re.fullmatch(r"\{\}\{\}([^{}]*)\{\}", outer)
    if not m or len(args) != 3:
        raise ExtractError(f"unrecognised id format {outer!r}")
    sep = m.group(1)
    if not _is_self_attr(args[0], CONN_PART):
        raise ExtractError("first part of the id is not self._reqid_connection_part")

    def width(spec):
        mm = re.fullmatch(r"\{:0(\d+)\}", spec)
        if not mm:
            raise ExtractError(f"unrecognised number format {spec!r}")
        return int(mm.group(1))
    s1, a1 = fmt_call(args[1])
    s2, a2 = fmt_call(args[2])
    if not (len(a1) == 1 and isinstance(a1[0], ast.BinOp) and isinstance(a1[0].op, ast.Mod)
            and isinstance(a1[0].left, ast.Name) and a1[0].left.id == var
            and isinstance(a1[0].right, ast.Constant) and isinstance(a1[0].right.value, int) and a1[0].right.value > 0):
        raise ExtractError("second part of the id is not '{:0N}'.format(<id> % <positive int>)")
    if not (len(a2) == 1 and isinstance(a2[0], ast.Name) and a2[0].id == var):
        raise ExtractError("third part of the id is not '{:0N}'.format(<id>)")
    if not all(ord(c) < 128 for c in sep):
        raise ExtractError("non-ascii separator")
    return sep, width(s1), a1[0].right.value, width(s2)


def _gen_prog(fn):
    """shared accesses of _generate_request_id in program order -> (instr list, fmt pieces)"""
    regs = {}
    instrs = []
    ret = {}

    def reg(name):
        if name not in regs:
            regs[name] = len(regs)
        return regs[name]

    def fresh():
        return reg(f"<tmp{len(regs)}>")

    def is_ctr(e):
        return _is_self_attr(e, CTR)

    def walk(stmts, inside):
        for st in stmts:
            if ret:
                break       # unreachable code after return
            if isinstance(st, ast.Expr) and isinstance(st.value, ast.Constant):
                continue
            if isinstance(st, ast.Pass):
                continue
            if isinstance(st, ast.With):
                if inside:
                    raise ExtractError("nested with")
                if not (len(st.items) == 1 and st.items[0].optional_vars is None and _is_self_attr(st.items[0].context_expr, GUARD)):
                    raise ExtractError("with statement does not take exactly self." + GUARD)
                instrs.append("IAcquire")
                walk(st.body, True)
                instrs.append("IRelease")
                continue
            if isinstance(st, ast.Assign) and len(st.targets) == 1:
                tgt, val = st.targets[0], st.value
                if isinstance(tgt, ast.Name) and is_ctr(val):
                    instrs.append(f"ILoad {reg(tgt.id)}")
                    continue
                if is_ctr(tgt) and isinstance(val, ast.BinOp) and isinstance(val.op, ast.Add) \
                        and isinstance(val.right, ast.Constant) and val.right.value == 1 and type(val.right.value) is int:
                    if isinstance(val.left, ast.Name) and val.left.id in regs:
                        instrs.append(f"IStoreSucc {reg(val.left.id)}")
                        continue
                    if is_ctr(val.left):
                        r = fresh()
                        instrs.append(f"ILoad {r}")
                        instrs.append(f"IStoreSucc {r}")
                        continue
                raise ExtractError(f"unrecognised assignment at line {st.lineno}")
            if isinstance(st, ast.AugAssign) and is_ctr(st.target) and isinstance(st.op, ast.Add) \
                    and isinstance(st.value, ast.Constant) and st.value.value == 1 and type(st.value.value) is int:
                r = fresh()
                instrs.append(f"ILoad {r}")
                instrs.append(f"IStoreSucc {r}")
                continue
            if isinstance(st, ast.Return) and st.value is not None:
                e = st.value
                var = None
                if isinstance(e, ast.IfExp):
                    t = e.test
                    if not (isinstance(t, ast.Compare) and isinstance(t.left, ast.Name) and len(t.ops) == 1
                            and isinstance(t.ops[0], ast.Is) and isinstance(t.comparators[0], ast.Constant)
                            and t.comparators[0].value is None and isinstance(e.body, ast.Constant) and e.body.value is None):
                        raise ExtractError("unrecognised conditional in the return expression")
                    var = t.left.id
                    e = e.orelse
                names = {n.id for n in ast.walk(e) if isinstance(n, ast.Name)} - {"self"}
                if len(names) != 1 or (var is not None and names != {var}):
                    raise ExtractError("the id is not formatted from exactly one local variable")
                var = names.pop()
                if var not in regs:
                    raise ExtractError(f"{var} is not loaded from the counter")
                if _count_attr(e, CTR):
                    raise ExtractError("return expression reads the counter")
                ret["reg"] = regs[var]
                ret["fmt"] = _parse_fmt_call(e, var)
                continue
            raise ExtractError(f"unrecognised statement at line {st.lineno}: {type(st).__name__}")

    if [a.arg for a in fn.args.args] != ["self"] or fn.args.vararg or fn.args.kwarg or fn.args.kwonlyargs or fn.decorator_list:
        raise ExtractError(GEN + ": unexpected signature")
    walk(fn.body, False)
    if not ret:
        raise ExtractError(GEN + ": no return statement found")
    return instrs + [f"IEmit {ret['reg']}"], ret["fmt"]


def _do_request_keys(fn):
    """the `if self._cur_req_id is not None: if not any(name.lower() == 'key' for name in headers): headers[KEY] =
    self._generate_request_id()` block (the only shape recognised: since fix 2323115 the test is case-insensitive)"""
    found = []
    for node in ast.walk(fn):
        if isinstance(node, ast.If) and _count_attr(node.test, CTR):
            found.append(node)
    if len(found) != 1:
        raise ExtractError("do_request: expected exactly one test of the counter")
    top = found[0]
    t = top.test
    if not (isinstance(t, ast.Compare) and _is_self_attr(t.left, CTR) and len(t.ops) == 1 and isinstance(t.ops[0], ast.IsNot)
            and isinstance(t.comparators[0], ast.Constant) and t.comparators[0].value is None and not top.orelse):
        raise ExtractError("do_request: the counter test is not `self._cur_req_id is not None`")
    if top not in fn.body:
        raise ExtractError("do_request: the id section is nested in another statement")
    body = [s for s in top.body if not (isinstance(s, ast.Expr) and isinstance(s.value, ast.Constant))]
    if not (len(body) == 1 and isinstance(body[0], ast.If) and not body[0].orelse):
        raise ExtractError("do_request: unrecognised id section")
    inner = body[0]
    t = inner.test
    bad = ExtractError("do_request: the caller-id test is not `not any(<n>.lower() == '<key>' for <n> in headers)`")
    if not (isinstance(t, ast.UnaryOp) and isinstance(t.op, ast.Not) and isinstance(t.operand, ast.Call)):
        raise bad
    call = t.operand
    if not (isinstance(call.func, ast.Name) and call.func.id == "any" and len(call.args) == 1 and not call.keywords
            and isinstance(call.args[0], ast.GeneratorExp) and len(call.args[0].generators) == 1):
        raise bad
    gen = call.args[0]
    comp = gen.generators[0]
    if not (isinstance(comp.target, ast.Name) and isinstance(comp.iter, ast.Name) and comp.iter.id == "headers"
            and not comp.ifs and not comp.is_async):
        raise bad
    e = gen.elt
    if not (isinstance(e, ast.Compare) and len(e.ops) == 1 and isinstance(e.ops[0], ast.Eq)
            and isinstance(e.left, ast.Call) and not e.left.args and not e.left.keywords
            and isinstance(e.left.func, ast.Attribute) and e.left.func.attr == "lower"
            and isinstance(e.left.func.value, ast.Name) and e.left.func.value.id == comp.target.id
            and isinstance(e.comparators[0], ast.Constant) and isinstance(e.comparators[0].value, str)):
        raise bad
    test_key = e.comparators[0].value
    if test_key != test_key.lower():
        raise ExtractError(f"do_request: lower-cased names are compared with {test_key!r}, which is not lower-case")
    ib = inner.body
    if not (len(ib) == 1 and isinstance(ib[0], ast.Assign) and len(ib[0].targets) == 1):
        raise ExtractError("do_request: unrecognised id assignment")
    tgt, val = ib[0].targets[0], ib[0].value
    if not (isinstance(tgt, ast.Subscript) and isinstance(tgt.value, ast.Name) and tgt.value.id == "headers"
            and isinstance(tgt.slice, ast.Constant) and isinstance(tgt.slice.value, str)):
        raise ExtractError("do_request: id is not stored into headers['<key>']")
    set_key = tgt.slice.value
    if not (isinstance(val, ast.Call) and _is_self_attr(val.func, GEN) and not val.args and not val.keywords):
        raise ExtractError("do_request: id is not self._generate_request_id()")
    if _count_attr(fn, CTR) != 1 or _count_attr(fn, GEN) != 1 or _count_attr(fn, GUARD) != 0:
        raise ExtractError("do_request: further uses of the counter / generator / lock")
    # the headers dict must reach urllib.request.Request(..., headers=headers) after the id section, and the request the opener
    idx = fn.body.index(top)
    req_ok = open_ok = False
    for st in fn.body[idx + 1:]:
        for n in ast.walk(st):
            if isinstance(n, ast.Call) and isinstance(n.func, ast.Attribute) and n.func.attr == "Request":
                if any(k.arg == "headers" and isinstance(k.value, ast.Name) and k.value.id == "headers" for k in n.keywords):
                    req_ok = True
            if isinstance(n, ast.Call) and isinstance(n.func, ast.Attribute) and n.func.attr == "open" \
                    and _is_self_attr(n.func.value, "opener"):
                open_ok = True
        if isinstance(st, (ast.Assign, ast.AugAssign)):
            for tg in (st.targets if isinstance(st, ast.Assign) else [st.target]):
                if isinstance(tg, ast.Name) and tg.id == "headers":
                    raise ExtractError("do_request: `headers` is rebound after the id section")
    if not (req_ok and open_ok):
        raise ExtractError("do_request: Request(headers=headers) / self.opener.open(request) not found after the id section")
    for k in (test_key, set_key):
        if not all(ord(c) < 128 for c in k):
            raise ExtractError("non-ascii header key")
        if k.capitalize() != OBS_KEY:
            raise ExtractError(f"header key {k!r} is not a spelling of {OBS_KEY}")
    if any(isinstance(n, ast.Name) and n.id == "any" and isinstance(n.ctx, ast.Store) for n in ast.walk(fn)):
        raise ExtractError("do_request: `any` is rebound")
    return test_key, set_key


def _check_sharing(tree):
    base = _find_class(tree, "_HttpConnBase")
    init = _find_method(base, "__init__")
    ok_share = ok_wrap = False
    for n in ast.walk(init):
        if isinstance(n, ast.Assign) and len(n.targets) == 1 and _is_self_attr(n.targets[0], "conn_impl"):
            v = n.value
            if isinstance(v, ast.Attribute) and v.attr == "conn_impl" and isinstance(v.value, ast.Name) and v.value.id == "parent_conn":
                ok_share = True
            else:
                raise ExtractError("_HttpConnBase.__init__: conn_impl is not taken from parent_conn")
        if isinstance(n, ast.If) and isinstance(n.test, ast.Call) and isinstance(n.test.func, ast.Name) and n.test.func.id == "isinstance" \
                and len(n.test.args) == 2 and isinstance(n.test.args[0], ast.Name) and n.test.args[0].id == "conn_data" \
                and isinstance(n.test.args[1], ast.Name) and n.test.args[1].id == "_HttpConnBase":
            b = n.body
            if any(isinstance(s, ast.Assign) and isinstance(s.targets[0], ast.Name) and s.targets[0].id == "parent_conn"
                   and isinstance(s.value, ast.Name) and s.value.id == "conn_data" for s in b):
                ok_wrap = True
    if not (ok_share and ok_wrap):
        raise ExtractError("_HttpConnBase.__init__: a wrapper does not share its parent's conn_impl")
    n_methods = 0
    for m in base.body:
        if isinstance(m, ast.FunctionDef) and m.name in ("get", "post", "put", "delete", "patch"):
            calls = [n for n in ast.walk(m) if isinstance(n, ast.Call) and isinstance(n.func, ast.Attribute) and n.func.attr == "do_request"]
            if len(calls) != 1 or not _is_self_attr(calls[0].func.value, "conn_impl"):
                raise ExtractError(f"_HttpConnBase.{m.name} does not call self.conn_impl.do_request")
            n_methods += 1
    if n_methods < 2:
        raise ExtractError("_HttpConnBase: request methods not found")
    for cls in tree.body:
        if isinstance(cls, ast.ClassDef) and cls.name not in ("_HttpConnBase", "_HttpConnImpl"):
            for n in ast.walk(cls):
                if isinstance(n, ast.Attribute) and n.attr == "conn_impl" and isinstance(n.ctx, ast.Store):
                    raise ExtractError(f"class {cls.name} rebinds conn_impl")


def _translate_id_format(src, gen_fn):
    """the id-format expression of _generate_request_id (the value of its `return`), translated to Gallina by the shared
    translator harness/lib/pytranslate.py as a function of self._reqid_connection_part : str and of the local that holds the
    counter value : Optional[int] -> coq/gen/C16_Translated.v (T_request_id_format); coq/C16/TransEq.v proves it equal to
    the hand model's fmt and id_injective for it.  Fail closed: pytranslate.Unsupported outside the subset."""
    cfg = pytranslate.Config(source_name=SRC)
    rets = [n for n in ast.walk(gen_fn) if isinstance(n, ast.Return)]
    if len(rets) != 1 or rets[0].value is None:
        raise pytranslate.Unsupported(GEN + ": not exactly one return <expression>")
    e = rets[0].value
    names = sorted({n.id for n in ast.walk(e) if isinstance(n, ast.Name)} - {"self"})
    if len(names) != 1:
        raise pytranslate.Unsupported(GEN + ": the returned expression does not use exactly one local variable")
    tr = pytranslate.Translator(src, cfg)
    rt = tr.add_expression("request_id_format", e, [("self." + CONN_PART, "a_conn_part", "str"), (names[0], None, ("opt", "int"))],
                           cls="_HttpConnImpl", selfname="self")
    if rt != "dyn":
        raise pytranslate.Unsupported(GEN + f": the returned expression has type {rt}, None-or-str expected")
    return tr.emit("id format of " + GEN)


def _translation_stub(reason):
    return pytranslate.stub(pytranslate.Config(source_name=SRC), reason,
                            [("T_request_id_format", "(a_conn_part : list Z) (v : option Z) : res pyval")])


def gen_consts(repo):
    """constants + program (ast extractor below) + translation of the id format (harness/lib/pytranslate.py).  The translation
    of THIS source (or the stub saying why there is none) is written even when the extractor refuses the source, so that
    coq/C16/TransEq.v is checked against the current text in every case; any refusal is raised (= proof step broken)."""
    src = open(os.path.join(repo, SRC)).read()
    try:
        tree0 = ast.parse(src)
        translated, terr = _translate_id_format(src, _find_method(_find_class(tree0, "_HttpConnImpl"), GEN)), None
    except pytranslate.Unsupported as e:
        translated, terr = _translation_stub(str(e)), e
    except (ExtractError, SyntaxError) as e:
        translated, terr = _translation_stub(str(e)), None     # the extractor below reports it
    from harness.lib import coqrun
    try:
        gens = _gen_consts_only(src)
    except Exception:
        with coqrun.Lock():
            coqrun.write_gen("C16_Translated", translated)
        raise
    gens["C16_Translated"] = translated
    if terr is not None:
        with coqrun.Lock():
            for name, text in gens.items():
                coqrun.write_gen(name, text)
        raise ExtractError(f"translator (harness/lib/pytranslate.py): {terr}")
    return gens


def _gen_consts_only(src):
    tree = ast.parse(src)
    impl = _find_class(tree, "_HttpConnImpl")
    init = _find_method(impl, "__init__")
    ctr_init = None
    lock_ok = self_impl = False
    for n in ast.walk(init):
        if isinstance(n, ast.Assign) and len(n.targets) == 1:
            t, v = n.targets[0], n.value
            if _is_self_attr(t, CTR):
                if (isinstance(v, ast.IfExp) and isinstance(v.test, ast.Name) and v.test.id == "_send_request_ids"
                        and isinstance(v.body, ast.Constant) and type(v.body.value) is int and v.body.value >= 0
                        and isinstance(v.orelse, ast.Constant) and v.orelse.value is None):
                    ctr_init = v.body.value
                else:
                    raise ExtractError("unrecognised initial value of the counter")
            if _is_self_attr(t, GUARD):
                if (isinstance(v, ast.Call) and isinstance(v.func, ast.Attribute) and v.func.attr == "Lock"
                        and isinstance(v.func.value, ast.Name) and v.func.value.id == "threading" and not v.args and not v.keywords):
                    lock_ok = True
                else:
                    raise ExtractError("the guard is not threading.Lock()")
            if _is_self_attr(t, "conn_impl") and isinstance(v, ast.Name) and v.id == "self":
                self_impl = True
    if ctr_init is None or not lock_ok or not self_impl:
        raise ExtractError("_HttpConnImpl.__init__: counter / lock / conn_impl initialisation not found")
    a = init.args
    if [x.arg for x in a.args] != ["self", "address", "_send_request_ids"] or len(a.defaults) != 1 \
            or not (isinstance(a.defaults[0], ast.Constant) and a.defaults[0].value is True):
        raise ExtractError("_HttpConnImpl.__init__: unexpected signature")
    gen_fn = _find_method(impl, GEN)
    do_req = _find_method(impl, "do_request")
    body_instrs, (sep, w1, mod, w2) = _gen_prog(gen_fn)
    test_key, set_key = _do_request_keys(do_req)
    # every use of the counter and the lock in the module is accounted for
    total_ctr = _count_attr(tree, CTR)
    if total_ctr != 1 + 1 + _count_attr(gen_fn, CTR):
        raise ExtractError("the counter is used outside __init__, do_request and " + GEN)
    if _count_attr(tree, GUARD) != 1 + _count_attr(gen_fn, GUARD):
        raise ExtractError("the lock is used outside __init__ and " + GEN)
    if _count_attr(tree, GEN) != 1:
        raise ExtractError(GEN + " is called from several places")
    for n in ast.walk(tree):
        if isinstance(n, ast.Constant) and isinstance(n.value, str) and n.value in (CTR, GUARD):
            raise ExtractError("attribute name used as a string (getattr/setattr?)")
        if isinstance(n, (ast.Global, ast.Nonlocal)):
            raise ExtractError("global/nonlocal statement")
        if (isinstance(n, (ast.FunctionDef, ast.ClassDef)) and n.name == "any") or (isinstance(n, ast.alias) and (n.asname or n.name) == "any") \
                or (isinstance(n, ast.Name) and n.id == "any" and isinstance(n.ctx, ast.Store)) or (isinstance(n, ast.arg) and n.arg == "any"):
            raise ExtractError("the builtin `any` is shadowed")
    _check_sharing(tree)
    if not (0 <= w1 <= 64 and 0 <= w2 <= 64):
        raise ExtractError("unreasonable widths")
    prog = ["ICheck"] + body_instrs
    text = ("(* generated from ak/conn_http.py by harness/props/c16.py -- do not edit *)\n"
            "From Coq Require Import ZArith List.\nFrom AK Require Import C16.Instr.\nImport ListNotations.\n"
            f"Definition impl_prog : list instr := [{'; '.join(prog)}].\n"
            f"Definition hdr_test_key : list Z := {SX.cstr(test_key)}.\n"
            f"Definition hdr_set_key : list Z := {SX.cstr(set_key)}.\n"
            f"Definition fmt_sep : list Z := {SX.cstr(sep)}.\n"
            f"Definition fmt_w1 : nat := {w1}%nat.\n"
            f"Definition fmt_mod : Z := {mod}%Z.\n"
            f"Definition fmt_w2 : nat := {w2}%nat.\n"
            f"Definition ctr_init : Z := {ctr_init}%Z.\n"
            "(* _HttpConnBase.__init__: `self.conn_impl = parent_conn.conn_impl`, parent_conn being the wrapped connection *)\n"
            "Definition wrap_rule : impl_rule := RShareParent.\n"
            "(* get/post/put/delete/patch call self.conn_impl.do_request and no class rebinds conn_impl (checked on the AST) *)\n"
            "Definition shares_impl : bool := true.\n")
    return {"C16_Consts": text}


# ------------------------------------------------------------------ cases
# case = {"k": "sched", "en": bool, "c0": int, "threads": [{"conn": 0..3, "reqs": [[[key, value], ...], ...]}],
#         "sched": [[tid, steps, events], ...]}
BIG = 10 ** 6
EVENTS_PER_REQ = 8          # start, check, acquire, load, load, store, release, emit
FAIL_KINDS = ["rd", "reset", "timeout", "url"]


def _fail_exc(kind):
    import http.client
    import socket
    import urllib.error
    if kind == "rd":
        return http.client.RemoteDisconnected("Remote end closed connection without response")
    if kind == "reset":
        return ConnectionResetError(104, "Connection reset by peer")
    if kind == "timeout":
        return socket.timeout("timed out")
    return urllib.error.URLError(OSError(111, "Connection refused"))


SPELLINGS = ["x-request-id", "X-request-id", "X-Request-Id", "X-REQUEST-ID", "x-Request-ID"]


def _mk(threads, sched, en=True, c0=0, tag="sched"):
    return {"k": tag, "en": en, "c0": c0, "threads": threads, "sched": sched}


def _auto(n):
    return [[] for _ in range(n)]


def _rand_req(rng, j):
    r = rng.random()
    if r < 0.55:
        return [] if rng.random() < 0.7 else [["Accept", "text/plain"]]
    if r < 0.8:
        h = [[DOC_KEY, f"caller-{j}-{rng.randrange(1000)}"]]
        if rng.random() < 0.3:
            h.insert(rng.randrange(2), ["X-Other", "1"])
        return h
    if r < 0.93:
        return [[rng.choice(SPELLINGS), f"resp-{j}-{rng.randrange(1000)}"]]
    # several spellings at once
    keys = [DOC_KEY] * (rng.random() < 0.5) + rng.sample(SPELLINGS, rng.randrange(1, 3))
    rng.shuffle(keys)
    return [[k, f"multi-{j}-{i}"] for i, k in enumerate(keys)]


def _rand_threads(rng, nth, maxreq=3, plain=False):
    out = []
    j = 0
    for t in range(nth):
        reqs = []
        for _ in range(rng.randrange(1, maxreq + 1)):
            reqs.append([] if plain else _rand_req(rng, j))
            j += 1
        out.append({"conn": rng.randrange(4), "reqs": reqs})
    return out


def _rand_sched(rng, nth, nseg):
    segs = []
    for _ in range(nseg):
        t = rng.randrange(nth)
        mode = rng.random()
        if mode < 0.45:
            segs.append([t, rng.randrange(0, 14), rng.randrange(0, 4)])
        elif mode < 0.8:
            segs.append([t, rng.randrange(1, 30), 0])
        else:
            segs.append([t, rng.randrange(30, 400), 0])
    return segs


def gen_cases(rng, tier):
    big = tier == "thorough"
    cases = []
    two = [{"conn": 0, "reqs": _auto(2)}, {"conn": 1, "reqs": _auto(2)}]
    # --- one pre-emption of thread 0 around every shared access of its requests; thread 1 then runs to its end
    span = 26 if big else 10
    for e in range(0, 2 * EVENTS_PER_REQ + 1):
        for n in range(0, span):
            cases.append(_mk(two, [[0, n, e], [1, BIG, 0]]))
    # the other thread is interrupted as well, thread 0 gets back in
    for e in range(1, EVENTS_PER_REQ):
        for n in (0, 1, 2, 5):
            cases.append(_mk(two, [[1, n, e], [0, BIG, 0]]))
    # --- thorough: one pre-emption at EVERY opcode boundary of the first request (and the start of the second)
    if big:
        for n in range(0, 720):
            cases.append(_mk(two, [[0, n, 0], [1, BIG, 0]]))
    # --- two pre-emptions: thread 0 stops after (e1, n1), thread 1 after (e2, n2), thread 0 goes on ...
    ns = (0, 1, 2, 3, 4, 6) if big else (0, 2)
    for e1 in range(1, EVENTS_PER_REQ):
        for e2 in range(1, EVENTS_PER_REQ):
            for n1 in ns:
                for n2 in ns:
                    if not big and rng.random() < 0.5:
                        continue
                    tail = rng.choice([[[0, BIG, 0]], [[0, rng.randrange(1, 40), 0], [1, BIG, 0]], [[0, 0, 1], [1, 0, 1], [0, 0, 1], [1, 0, 1]]])
                    cases.append(_mk(two, [[0, n1, e1], [1, n2, e2]] + tail))
    # --- strict alternation after every k steps
    for k in ((1, 2, 3, 5, 7, 11) if big else (1, 3)):
        for nth in (2, 3, 4):
            th = [{"conn": i % 4, "reqs": _auto(2)} for i in range(nth)]
            cases.append(_mk(th, [[i % nth, k, 0] for i in range(1600 // k)]))
            cases.append(_mk(th, [[i % nth, 0, 1] for i in range(80)]))
    # --- random schedules, 2-4 threads, mixed requests
    for _ in range(6000 if big else 500):
        nth = rng.choice([2, 2, 3, 3, 4])
        cases.append(_mk(_rand_threads(rng, nth), _rand_sched(rng, nth, rng.randrange(2, 40)),
                         c0=rng.choice([0, 0, 0, 7, 9998, 999999999998])))
    # --- caller-supplied ids next to generated ones (sequential and interleaved)
    mixes = [
        [[], [[DOC_KEY, "mine"]], []],
        [[[DOC_KEY, ""]], [], [[DOC_KEY, "mine"], ["Accept", "*/*"]]],
        [[["x-request-id", "mine2"]], []],
        [[["X-request-id", "mine3"]], [[DOC_KEY, "a"], ["x-request-id", "b"]], [["x-request-id", "b"], [DOC_KEY, "a"]]],
        [[["X-Request-Id", "q"], ["X-REQUEST-ID", "r"]], []],
    ]
    for m in mixes:
        cases.append(_mk([{"conn": 0, "reqs": m}], []))
        cases.append(_mk([{"conn": 2, "reqs": m}, {"conn": 3, "reqs": list(reversed(m))}], [[0, 0, 2], [1, 0, 3], [0, 0, 3], [1, BIG, 0]]))
        cases.append(_mk([{"conn": 1, "reqs": m}, {"conn": 0, "reqs": _auto(2)}], _rand_sched(rng, 2, 12)))
    # --- the caller re-uses one headers dict object for many requests (sequentially and from several threads)
    common = [["Accept", "*/*"]]
    for nreq in (2, 3):
        c = _mk([{"conn": 0, "reqs": [common] * nreq}], [])
        c["share"] = True
        cases.append(c)
        c = _mk([{"conn": 0, "reqs": [common] * nreq}, {"conn": 1, "reqs": [common, [], common]}], _rand_sched(rng, 2, 10))
        c["share"] = True
        cases.append(c)
        c = _mk([{"conn": 2, "reqs": [common, [[DOC_KEY, "mine"], ["Accept", "*/*"]], common]},
                 {"conn": 3, "reqs": [[[DOC_KEY, "mine"], ["Accept", "*/*"]], common]}], [[0, 0, 2], [1, 0, 3], [0, BIG, 0], [1, BIG, 0]])
        c["share"] = True
        cases.append(c)
    # --- ids disabled (_send_request_ids=False)
    for m in mixes[:3]:
        cases.append(_mk([{"conn": 0, "reqs": m}, {"conn": 1, "reqs": m}], _rand_sched(rng, 2, 8), en=False))
    # --- format boundaries
    for c0 in [0, 9, 10, 99, 9998, 9999, 10000, 19999, 123456789, 999999999998, 999999999999, 10 ** 12, 10 ** 15 + 9999]:
        cases.append(_mk([{"conn": 0, "reqs": _auto(3)}], [], c0=c0))
        cases.append(_mk([{"conn": 0, "reqs": _auto(2)}, {"conn": 3, "reqs": _auto(2)}], [[0, 2, 4], [1, BIG, 0]], c0=c0))
    # --- connections derived from the root WHILE other threads use it (flag "late": every request goes through a wrapper
    #     made just before it, inside the thread), and requests with bodies (flag "data": dict / str / bytes -> the code
    #     after the id section adds Content-Type to the same headers dict)
    for n in range(40 if not big else 400):
        nth = rng.choice([2, 2, 3, 4])
        c = _mk(_rand_threads(rng, nth, plain=rng.random() < 0.4), _rand_sched(rng, nth, rng.randrange(2, 30)),
                c0=rng.choice([0, 0, 9999]))
        if n % 4 != 3:
            c["late"] = True
        if n % 4 != 0:
            c["data"] = True
        cases.append(c)
    for e in range(1, EVENTS_PER_REQ):
        c = _mk(two, [[0, 0, e], [1, BIG, 0]])
        c["late"] = True
        c["data"] = True
        cases.append(c)
    # --- transport failures (flag "fail": [[thread, k, kind], ...]: the k-th call of `opener.open` made by that thread
    #     raises after the request reached the "server" -- http.client.RemoteDisconnected, ConnectionResetError,
    #     socket.timeout, URLError).  The caller gets the exception and goes on with its next request; every call of
    #     `opener.open` is a request on the wire: its id counts like any other and the failed request used its number
    for e in range(0, EVENTS_PER_REQ + 1):
        for fk in (FAIL_KINDS if big else FAIL_KINDS[:1 + e % 2]):
            c = _mk(two, [[0, 0, e], [1, BIG, 0]])
            c["fail"] = [[0, 0, fk]] + ([[1, 1, FAIL_KINDS[e % len(FAIL_KINDS)]]] if e % 3 == 0 else [])
            cases.append(c)
    c = _mk([{"conn": 0, "reqs": _auto(3)}], [])
    c["fail"] = [[0, 0, "rd"], [0, 1, "rd"]]          # two failures in a row
    cases.append(c)
    c = _mk([{"conn": 3, "reqs": [[], [[DOC_KEY, "mine"]], []]}], [])
    c["fail"] = [[0, 1, "rd"], [0, 2, "reset"]]       # a request with a caller-supplied id fails
    cases.append(c)
    for n in range(50 if not big else 500):
        nth = rng.choice([1, 2, 2, 3, 4])
        c = _mk(_rand_threads(rng, nth, plain=rng.random() < 0.4), _rand_sched(rng, nth, rng.randrange(2, 30)),
                c0=rng.choice([0, 0, 9999]))
        c["fail"] = sorted([t, k, rng.choice(FAIL_KINDS)] for t, k in
                           {(rng.randrange(nth), rng.randrange(3)) for _ in range(rng.randrange(1, 4))})
        if n % 5 == 1:
            c["late"] = True
        if n % 5 == 2:
            c["data"] = True
        cases.append(c)
    return cases


def search_cases(rng, tier):
    """failing-input search when a proof obligation / the correspondence broke: every single pre-emption point"""
    two = [{"conn": 0, "reqs": _auto(2)}, {"conn": 1, "reqs": _auto(2)}]
    cases = [_mk(two, [[0, n, 0], [1, BIG, 0]]) for n in range(0, 720)]
    for e in range(0, 2 * EVENTS_PER_REQ + 1):
        for n in range(0, 30):
            cases.append(_mk(two, [[0, n, e], [1, BIG, 0]]))
    for _ in range(600):
        nth = rng.choice([2, 3, 4])
        cases.append(_mk(_rand_threads(rng, nth, plain=True), _rand_sched(rng, nth, rng.randrange(2, 40))))
    return cases


def kind(case):
    nth = len(case["threads"])
    flav = "auto"
    if not case["en"]:
        flav = "disabled"
    elif any(r for t in case["threads"] for r in t["reqs"]):
        flav = "mixed-shared-headers-object" if case.get("share") else "mixed"
    return f"{nth}thr-{flav}" + ("-late-derived" if case.get("late") else "") + ("-bodies" if case.get("data") else "") \
        + ("-transport-failures" if case.get("fail") else "")


def shrink_candidates(case):
    th = case["threads"]
    sch = case["sched"]
    # fewer threads / requests / segments
    if len(th) > 2:
        for i in range(len(th)):
            nt = th[:i] + th[i + 1:]
            ns = [[t - (t > i), n, e] for t, n, e in sch if t != i]
            yield dict(case, threads=nt, sched=ns)
    for i, t in enumerate(th):
        if len(t["reqs"]) > 1:
            yield dict(case, threads=th[:i] + [dict(t, reqs=t["reqs"][:-1])] + th[i + 1:])
    for i in range(len(sch)):
        yield dict(case, sched=sch[:i] + sch[i + 1:])
    if case.get("c0"):
        yield dict(case, c0=0)
    fl = case.get("fail") or []
    if len(fl) > 1:
        for i in range(len(fl)):
            yield dict(case, fail=fl[:i] + fl[i + 1:])


# ------------------------------------------------------------------ implementation
class _Resp:
    _method = "GET"
    code = 200
    data = b""

    def __enter__(self):
        return self

    def __exit__(self, *a):
        return False

    def read(self):
        return b""

    def getheaders(self):
        return {}


METHODS = ["get", "post", "put", "delete", "patch"]


def impl_run(case):
    import threading
    from ak import conn_http
    from harness.props import c16_sched as S
    S.warm_up()
    nth = len(case["threads"])
    late = bool(case.get("late"))
    outs = [[] for _ in range(nth)]
    anomalies = []
    sentinel = []
    order = []
    box = {}
    failmap = {(t, k): kd for t, k, kd in (case.get("fail") or [])}
    raised = {}                              # (thread, call number) -> the exception object raised there
    caught = [[] for _ in range(nth)]        # per thread: [request index, call number] of injected failures the caller got

    class Opener:
        def open(self, request, *a, **kw):
            sched = box["sched"]
            vals = [v for k, v in request.header_items() if k.lower() == OBS_KEY.lower()]
            val = request.get_header(OBS_KEY)
            if len(vals) > 1 or (vals and vals[0] != val):
                anomalies.append(["several-id-headers", [str(v) for v in vals]])
            if val is not None and not isinstance(val, str):
                anomalies.append(["non-str-id", repr(val)])
                val = repr(val)
            me = sched.idents.get(threading.get_ident())
            if me is None:
                sentinel.append(val)
            else:
                sched.record(me, S.K_EMIT)
                outs[me].append(val)
                order.append(me)
                key = (me, len(outs[me]) - 1)
                if key in failmap:
                    # the request reached the server (it is recorded above); the answer never comes
                    raised[key] = _fail_exc(failmap[key])
                    raise raised[key]
            return _Resp()

    # no real opener is ever built (building one loads the system certificates: 40 ms): every implementation
    # object created during the case -- also one a wrapper might create for itself -- gets the recording opener
    import urllib.request as _ur
    saved = _ur.build_opener
    _ur.build_opener = lambda *a, **kw: Opener()
    try:
        if case["en"]:
            root = conn_http.HttpConn("http://host.example:8080/")
        else:
            root = conn_http.HttpConn(("http://host.example:8080", False))

        def derive(kind):
            # four ways to reach the root's implementation object: the root, a wrapper, a wrapper of a wrapper (x2)
            if kind == 0:
                return root
            if kind == 1:
                return conn_http.BAuthConn(root, "user", "pw")
            if kind == 2:
                return conn_http.HttpConn(conn_http.BAuthConn(root, "user", "pw"),
                                          adapters=[conn_http.RequestAdapterAddPathPrefix("/v1/")])
            return conn_http.TokenAuthConn(conn_http.HttpConn(root), "tok", "t1")

        conns = [derive(k) for k in range(4)]
        impl = root.conn_impl
        shared = [all(c.conn_impl is impl for c in conns)]
        impls = []
        for c in conns:
            if not any(c.conn_impl is x for x in impls):
                impls.append(c.conn_impl)
        if case["c0"]:
            if not case["en"]:
                raise ValueError("c0 with ids disabled")
            for x in impls:
                setattr(x, CTR, case["c0"])
        cp = getattr(impl, CONN_PART, None)
        sched = S.Sched(case["sched"], nth, conn_http.__file__, CTR, {conn_http._HttpConnImpl.do_request.__code__})
        box["sched"] = sched

        # (all derived connections use the root's implementation object; if they do not, every one is instrumented)
        real_locks = []
        for x in impls:
            x.opener = Opener()
            real_lock = getattr(x, GUARD, None)
            real_locks.append(real_lock)
            if real_lock is not None:
                setattr(x, GUARD, S.LockProxy(real_lock, sched))

        shared_hd = {}

        def mk(i):
            spec = case["threads"][i]

            def body():
                conn = conns[spec["conn"]]
                for j, h in enumerate(spec["reqs"]):
                    if late:
                        # the connection is derived from the root while other threads are using it
                        conn = derive(spec["conn"] if spec["conn"] else 1 + (i + j) % 3)
                        if conn.conn_impl is not impl:
                            shared[0] = False
                    m = getattr(conn, METHODS[(i + j) % len(METHODS)])
                    hd = dict((k, v) for k, v in h) if h else None
                    if hd is not None and case.get("share"):
                        # the caller keeps ONE headers dict per distinct content (a module-level "common
                        # headers" object) and passes that same object to every request, from every thread
                        hd = shared_hd.setdefault(json.dumps(h), hd)
                    data = [None, {"j": j}, "text", b"bytes"][(i + 2 * j) % 4] if case.get("data") else None
                    if not failmap:
                        m(f"/p/{i}/{j}", headers=hd, params={"q": j} if j % 2 else None, data=data)
                        continue
                    try:
                        m(f"/p/{i}/{j}", headers=hd, params={"q": j} if j % 2 else None, data=data)
                    except Exception as e:  # noqa
                        # the application gets the transport failure and goes on with its next request
                        hit = [k for (t, k), x in raised.items() if t == i and x is e]
                        if not hit:
                            raise
                        caught[i].append([j, hit[0]])
            return body

        ok = sched.run([mk(i) for i in range(nth)])
        errors = {str(i): SX.exc_name(e) for i, e in sched.errors.items()}
        obs = {"ok": bool(ok), "untraced": bool(sched.untraced), "shared": bool(shared[0]), "cp": cp,
               "outs": outs, "errors": errors, "log": [[t, k] for t, k in sched.log], "anomalies": anomalies,
               "steps": sched.steps, "order": order}
        if failmap:
            obs["raised"] = sorted([t, k] for t, k in raised)
            obs["caught"] = caught
        if ok:
            # one more request from the main thread, without the scheduler: shows whether a number went missing
            for x, real_lock in zip(impls, real_locks):
                if real_lock is not None:
                    setattr(x, GUARD, real_lock)
            try:
                conns[0].get("/sentinel")
            except Exception as e:  # noqa
                sentinel.append("!" + SX.exc_name(e))
            obs["sentinel"] = sentinel
            obs["ctr"] = getattr(impl, CTR, None)
            if obs["ctr"] is not None and case["en"]:
                obs["ctr"] -= 1   # the sentinel's own number
    finally:
        _ur.build_opener = saved
    if sched.untraced:
        raise RuntimeError("harness: a do_request frame got no opcode events (tracing not effective)")
    return obs


# ------------------------------------------------------------------ model side
def in_model(case, obs):
    return "__hang__" not in obs and obs.get("ok") and isinstance(obs.get("cp"), str) \
        and all(ord(c) < 128 for t in case["threads"] for r in t["reqs"] for k, _ in r for c in k)


def _chdrs(h):
    return SX.clist(SX.cpair(SX.cstr(k), SX.cstr(v)) for k, v in h)


def coq_case(case, obs):
    reqs = SX.clist(SX.clist(_chdrs(h) for h in t["reqs"]) for t in case["threads"])
    if not case["threads"]:
        reqs = "(@nil (list (list (list Z * list Z))))"
    c0 = SX.copt(case["c0"] if case["en"] else None, SX.cZ)
    sched = SX.clist(SX.cnat(t) for t, _ in obs["log"]) if obs["log"] else "(@nil nat)"
    return f"mkCase {SX.cstr(obs['cp'])} {c0} {reqs} {sched}"


def expected_sx(case, obs):
    outs = []
    for i, o in enumerate(obs["outs"]):
        row = [SX.opt(SX.s(v)) if v is not None else [] for v in o]
        if str(i) in obs["errors"]:
            row.append(-1)
        outs.append(row)
    ctr = obs.get("ctr")
    return SX.dumps([outs, SX.opt(ctr), [k for _, k in obs["log"]], 1])


# ------------------------------------------------------------------ oracle (the statement, independently of the model)
def _seqno(idv):
    m = re.search(r"(\d+)$", idv)
    return int(m.group(1)) if m else None


def oracle(case, obs):
    if "__hang__" in obs:
        return [("hang", "the threads did not finish (scheduler timeout)")]
    if not obs.get("ok"):
        # the scheduler runs every thread that can run (a thread that fails to take the lock gives way to the others); it
        # gives up when the only threads left are waiting for the lock, when a thread blocks outside its control (a lock
        # that is not the connection's guard attribute) or after 200000 steps: the requests were not all sent
        return [("threads-stuck", f"the threads could not be driven to their end (deadlock, or waiting on a lock other than the "
                                  f"connection's guard); sent so far {obs.get('outs')!r}")]
    out = []
    if not obs.get("shared", True):
        out.append(("derived-connection-own-impl", "a connection derived from the root does not use the root's implementation "
                                                   "object (lock/counter)"))
    for i, e in obs["errors"].items():
        out.append(("request-raises", f"thread {i}: request raised {e}"))
    for a in obs["anomalies"]:
        out.append((a[0], f"request carries {a[1]}"))
    generated = []   # (thread, index, id) of requests whose id must have been generated
    resent = set()
    if case.get("fail"):
        # transport failures: the exception the opener raised is what the caller of that very request gets, and a request
        # is put on the wire once (one call of opener.open per request made by the application)
        caught = obs.get("caught") or []
        for t, k in obs.get("raised") or []:
            got = [j for j, kk in (caught[t] if t < len(caught) else []) if kk == k]
            if not got:
                out.append(("transport-failure-swallowed", f"thread {t}: call {k} of opener.open raised "
                            f"{dict(((a, b), c) for a, b, c in case['fail'])[(t, k)]!r} but no request of the caller failed with it"))
            elif got[0] != k:
                out.append(("request-resent", f"thread {t}: the failure of call {k} of opener.open surfaced in request {got[0]}"))
        for i, t in enumerate(case["threads"]):
            if str(i) not in obs["errors"] and len(obs["outs"][i]) != len(t["reqs"]):
                resent.add(i)
                out.append(("request-resent", f"thread {i} made {len(t['reqs'])} requests, the opener received "
                            f"{len(obs['outs'][i])}: {obs['outs'][i]!r}"))
    for i, t in enumerate(case["threads"]):
        sent = obs["outs"][i]
        if i in resent:
            # requests and emissions cannot be paired up: every emitted value that is not a caller's value counts as generated
            mine = {val for h in t["reqs"] for k, val in h if k.lower() == DOC_KEY.lower()}
            generated.extend((i, j, v) for j, v in enumerate(sent) if v not in mine)
            continue
        for j, h in enumerate(t["reqs"]):
            if j >= len(sent):
                break
            v = sent[j]
            exact = [val for k, val in h if k == DOC_KEY]
            resp = [val for k, val in h if k != DOC_KEY and k.lower() == DOC_KEY.lower()]
            if exact and not resp:
                if v != exact[0]:
                    out.append(("caller-id-changed", f"thread {i} request {j}: caller supplied {DOC_KEY}={exact[0]!r}, sent {v!r}"))
            elif exact and resp:
                if v not in exact + resp:
                    out.append(("caller-id-changed", f"thread {i} request {j}: caller supplied {h!r}, sent {v!r}"))
            elif resp:
                if not case["en"]:
                    if v not in resp:
                        out.append(("caller-id-changed", f"thread {i} request {j}: caller supplied {h!r}, sent {v!r}"))
                elif v not in resp:
                    # finding caller-id-respelled-replaced (fixed in /repo by 2323115), enforced: HTTP header names are
                    # case-insensitive, an id under any spelling is the caller's id.  The number the replacement used is
                    # accounted for here so that one cause gives one signature
                    out.append((RESPELLED_SIG, f"thread {i} request {j}: caller supplied {h!r}, sent {v!r} (the caller's id was replaced or dropped)"))
                    generated.append((i, j, v))
            else:
                if case["en"]:
                    generated.append((i, j, v))
                elif v is not None:
                    out.append(("id-when-disabled", f"thread {i} request {j}: ids are disabled but {v!r} was sent"))
    sent_ids = [v for _, _, v in generated]
    sentinel = obs.get("sentinel") or []
    if case["en"] and len(sentinel) == 1 and not str(sentinel[0]).startswith("!"):
        sent_ids_all = sent_ids + [sentinel[0]]
    else:
        sent_ids_all = list(sent_ids)
        if case["en"]:
            out.append(("request-raises", f"sentinel request failed: {sentinel!r}"))
    if any(v is None for v in sent_ids_all):
        out.append(("id-missing", "a request without caller-supplied id carries no X-Request-ID"))
        return out
    if len(set(sent_ids_all)) != len(sent_ids_all):
        dup = sorted({v for v in sent_ids_all if sent_ids_all.count(v) > 1})
        out.append(("duplicate-id", f"X-Request-ID {dup[0]!r} was sent by {sent_ids_all.count(dup[0])} requests (schedule {case['sched'][:6]}...)"))
    nums = [_seqno(v) for v in sent_ids_all]
    if nums and all(n is not None for n in nums):
        c0 = case["c0"]
        want = list(range(c0, c0 + len(nums)))
        if sorted(nums) != want and len(set(sent_ids_all)) == len(sent_ids_all):
            missing = sorted(set(want) - set(nums))
            extra = sorted(set(nums) - set(want))
            out.append(("gap-or-repeat", f"sequence numbers handed out (incl. one request after the threads ended): {sorted(nums)}; "
                        f"expected {c0}..{c0 + len(nums) - 1} (missing {missing[:5]}, unexpected {extra[:5]})"))
    return out


def nontrivial(case, obs):
    if "__hang__" in obs or not obs.get("ok") or len(case["threads"]) < 2:
        return False
    # another thread's access between the first and last access of some request
    log = obs["log"]
    open_ = {}
    for t, k in log:
        for t2 in open_:
            if t2 != t:
                open_[t2] = True
        if k == 0:
            open_[t] = False
        elif k == 6:
            if open_.pop(t, False):
                return True
    return False


def outcome(case, obs):
    if "__hang__" in obs:
        return "hang"
    if not obs.get("ok"):
        return "stuck"
    log = obs["log"]
    fails = sum(1 for _, k in log if k == 4)
    sw = sum(1 for a, b in zip(log, log[1:]) if a[0] != b[0])
    return f"blocked-acquires:{min(fails, 3)}{'+' if fails > 3 else ''} switches:{'0' if sw == 0 else '1-3' if sw < 4 else '4-15' if sw < 16 else '16+'}"


_cover = {}


def extra_coverage():
    return {"respelled_caller_ids_enforced": True}


TECHNIQUE = ("Coq proof: an invariant of a small-step machine (shared lock + counter, per-thread code/registers/output) preserved by every "
             "step of every thread, so the theorems quantify over ALL schedules (any list of thread ids, hence every prefix of every "
             "interleaving), all thread counts, request counts and mixes of caller-supplied ids; a termination measure for liveness; "
             "injectivity of the id format by decoding the decimal tail.  The machine's program (one instruction per access to the "
             "shared counter/lock, inside or outside the `with` block), the header keys, the format pieces and the wrapper rule are "
             "regenerated from the AST of ak/conn_http.py on every run (fail closed) and must pass the proved-sufficient check "
             "`well_locked` / `sep_ok` / `wrap_rule = RShareParent`.  Per-run correspondence: real threads driven by a deterministic "
             "opcode-level scheduler (sys.settrace + f_trace_opcodes, lock replaced by a non-blocking proxy); the logged order of shared "
             "accesses is the model's schedule and the model must reproduce every access kind, every X-request-id seen by the opener "
             "and the final counter.  Independent oracle on the observed headers: distinct ids, numbers c0..c0+n-1, caller ids unchanged.")
LEVEL_TEXT = ("Full at model level, for ALL schedules / thread counts / request mixes / start values (37 closed statements, no axioms; 5 of "
              "them -- translated_format_eq, translated_format_none, id_injective_translated, ids_pairwise_distinct_translated and an "
              "example, coq/C16/PropsTranslated.v -- speak about T_request_id_format, the id-format expression of "
              "_generate_request_id translated from the CURRENT source by harness/lib/pytranslate.py as a function of "
              "self._reqid_connection_part : str and the counter value read : Optional[int]: it equals `fmt cp n` for every n >= 0 and "
              "None for None, hence is injective in n and gives pairwise distinct ids in every interleaving; str.format / '{:04}' / "
              "'{:012}' / % there have the meaning written down in coq/Common/PyLib.v (py_format_int, py_mod), no longer the model's "
              "own reading of the extracted widths; a source outside the translator's subset is a broken proof step): "
              "unique_gapfree (+ _every_prefix, + _any_program for every program passing well_locked): in every state of every "
              "interleaving the numbers sent are pairwise distinct and, with those of threads between lock release and send, are exactly "
              "c0..c0+k-1, the counter being c0+k whenever the lock is free (no repeat, no gap, no lost update); gapfree_at_rest (k = number "
              "of requests WITHOUT a caller id: supplied ids consume nothing); every_request_answered (per request: caller id under ANY "
              "spelling of the header name -> the caller's headers are sent and no number used, otherwise the id is fmt(n); no request "
              "raises); caller_id_sent_unchanged (a value under any upper/lower-case spelling of 'X-Request-ID' is recognised and is the "
              "value sent -- any value, also the empty string), spellings_agree (do_request's name.lower() test and urllib's "
              "capitalize() recognise the same names), supplied_id_last_spelling_sent (several spellings in one dict: the caller's value "
              "under the LAST one is sent, urllib keeps one header per capitalised name), not_supplied_no_spelling; id_injective (for ALL n, m >= 0, unbounded, across connection parts: the format read from the "
              "source -- separator, widths, modulus are generated constants, obligation sep_ok -- is injective because its decimal tail "
              "decodes to n) hence ids_pairwise_distinct and generated_values_distinct (the header values the opener saw); ids_disabled; "
              "derived_connections_share_impl (every wrapper at any depth uses its root's lock and counter, rule generated from "
              "_HttpConnBase.__init__); liveness: no_deadlock (some thread can always move), can_always_finish (from every reachable "
              "state, ids on or off, an effective continuation ends with all requests sent), effective_schedules_finish + "
              "steps_are_bounded (every schedule that keeps scheduling runnable threads finishes within steps_left steps); "
              "lost_update_without_lock (sanity: the same program without Acquire/Release duplicates number 0) and 11 non-vacuity examples.  "
              "Only tested (correspondence + oracle, ~900 schedules quick / ~9000 thorough): that the model is the code -- CPython "
              "switches threads only between bytecodes and threading.Lock is a mutex; the request path outside the id section "
              "(RequestArguments copying the caller's dict, adapters, bodies, urllib's header capitalisation) leaves the header alone; "
              "connections derived while others are in use; one headers dict object shared by many requests; transport failures (the "
              "substitute opener raises RemoteDisconnected / ConnectionResetError / socket.timeout / URLError on chosen calls: the caller "
              "gets that exception, the request is on the wire once, its number is used).  Finding "
              "caller-id-respelled-replaced (an id under another spelling such as 'x-request-id' was replaced and used a number) is FIXED "
              "in /repo by 2323115; the model follows the fixed code (other_spelling_passed_on), the oracle enforces the signature "
              "strictly, regression cases in corpus/C16/regression_respelled.json.  Header names are ASCII (str.lower/capitalize modelled "
              "on ASCII).  Uniqueness is claimed for generated ids only (a caller may supply the same id twice).")
LEVEL_NOTE = ("Trusted: Coq kernel + vm_compute; for the translated id format the translator harness/lib/pytranslate.py + coq/Common/PyLib.v "
              "(self-tested against CPython, not verified) instead of the hand model's pad/dec; CPython's thread model (one thread runs at a time, switches at bytecode boundaries; "
              "Lock.acquire on a held lock blocks; `with` releases); the ast extractor that turns _generate_request_id / do_request into "
              "impl_prog and constants (fail closed: any unrecognised statement, further use of the counter/lock/generator anywhere in "
              "the module, rebinding of conn_impl or headers breaks the proof step); the scheduler harness incl. the LockProxy "
              "substituted for the instance attribute _reqid_generator_guard (a lock reached any other way blocks for real: reported as "
              "threads-stuck); str.format('{:0N}') = zero-padded decimal (model pad/dec, compared up to 10^15).  Details, findings and "
              "detection tests: harness/props/c16.notes.md.")
DESIGN_REF = "DESIGN.md section 8, C16"
