(* C11/Run.v -- entry point of the correspondence check.
   Observation = the text of every line of the no-colour rendering of a value,
   obtained from the implementation in several ways ("views": lines converted
   while iterating, lines collected first and converted afterwards, a second
   iteration of the same result, results of one printer consumed interleaved, a
   result consumed after the printer rendered other things, a fresh printer ...).
   The model is a pure function of (mode, value): EVERY view must equal
   gen_lines m v (the whole text is the "\n"-join of these lines: checked on the
   implementation side by the harness, proved for the model in
   Lemmas.lines_lossless).  The harness sends the first view and at most two of
   the views that differ from it (views equal to the first one are dropped on the
   Python side: if any view differs from the first, the first or that one differs
   from the model's lines, so "all views equal the model's lines" is decided
   unchanged).
   wviews = views of the rendering of  [v, {"k": v}]  built from the SAME object v
   (a value in which one object occurs twice, at two nesting offsets; its lines
   were produced interleaved with those of v); the model has no notion of object
   identity, so it must print as the tree  VList [v; VDict [(KStr "k", v)]].
   The implementation's lines are passed in with the case and compared here, so
   that the printed result stays small: (1) = all identical, (0 w k i line) = in
   view k (of v if w = 0, of [v, {"k": v}] if w = 1) the first differing line
   index and the first 160 characters of the model's line there (() if the model
   has none).
   PPC = the same with the configurations of the call spelled out (C11/Palette.v: how
   palette= / no_color= / colors_conf= were given and whether the global colours
   configuration is a no_color one); the views are those of ALL the listed
   configurations (one value rendered under one configuration after the other).  The
   model decides from each configuration whether the palette is plain: if all are,
   every view must again be gen_lines m v -- the lines do not depend on HOW the
   no-colour output was asked for; (2 i) = the model allows colours for configuration i
   (nothing demanded; the generator never produces such a case, so this is a
   disagreement between generator and model), (3 i) = the model rejects the call
   (ready palette object + colors_conf).  PP = PPC [cfg_default]. *)
From Coq Require Import ZArith List Bool.
From AK Require Export Common.Sx Common.Err C11.Model C11.Palette.
Import ListNotations.

Inductive case :=
| PP (m : mode) (v : value) (views : list (list (list Z))) (wviews : list (list (list Z)))
| PPC (m : mode) (v : value) (cs : list cfg) (views : list (list (list Z))) (wviews : list (list (list Z))).

Fixpoint str_eqb (a b : list Z) : bool :=
  match a, b with
  | [], [] => true
  | x :: a', y :: b' => Z.eqb x y && str_eqb a' b'
  | _, _ => false
  end.

Fixpoint first_diff (model impl : list (list Z)) (i : Z) : option (Z * option (list Z)) :=
  match model, impl with
  | [], [] => None
  | x :: model', y :: impl' => if str_eqb x y then first_diff model' impl' (i + 1)%Z else Some (i, Some x)
  | x :: _, [] => Some (i, Some x)
  | [], _ :: _ => Some (i, None)
  end.

(* first view that differs from the model's lines *)
Fixpoint first_bad (model : list (list Z)) (views : list (list (list Z))) (k : Z)
  : option (Z * Z * option (list Z)) :=
  match views with
  | [] => None
  | w :: views' =>
      match first_diff model w 0%Z with
      | None => first_bad model views' (k + 1)%Z
      | Some (i, l) => Some (k, i, l)
      end
  end.

(* the value [v, {"k": v}] as the model sees it *)
Definition twice (v : value) : value := VList [v; VDict [(KStr [107%Z], v)]].

Definition report (w : Z) (r : Z * Z * option (list Z)) : sx :=
  match r with
  | (k, i, l) => SL [SZ 0; SZ w; SZ k; SZ i; sx_option sx_str (option_map (firstn 160) l)]
  end.

Definition compare (m : mode) (v : value) (views wviews : list (list (list Z))) : sx :=
      match first_bad (gen_lines m v) views 0%Z with
      | Some r => report 0%Z r
      | None =>
          match wviews with
          | [] => SL [SZ 1]
          | _ :: _ =>
              match first_bad (gen_lines m (twice v)) wviews 0%Z with
              | Some r => report 1%Z r
              | None => SL [SZ 1]
              end
          end
      end.

(* first configuration whose palette is not plain: (2, index) colours allowed, (3, index) call rejected *)
Fixpoint first_not_plain (cs : list cfg) (i : Z) : option (Z * Z) :=
  match cs with
  | [] => None
  | c :: cs' =>
      match mk_palette_plain c with
      | Some true => first_not_plain cs' (i + 1)%Z
      | Some false => Some (2%Z, i)
      | None => Some (3%Z, i)
      end
  end.

Definition run (c : case) : sx :=
  match c with
  | PP m v views wviews => compare m v views wviews
  | PPC m v cs views wviews =>
      match first_not_plain cs 0%Z with
      | Some (code, i) => SL [SZ code; SZ i]
      | None => compare m v views wviews
      end
  end.
