(* C13/LemEx.v -- the assembled life-cycle theorem, the former refutation witness
   (now a positive example) and the non-vacuity witness *)
From Coq Require Import ZArith List Bool Lia.
From AK Require Import Common.Sx Common.Err C13.Model C13.LemStr C13.LemFmt C13.LemState C13.LemView C13.LemReach.
Import ListNotations.
Open Scope Z_scope.

Theorem any_moment fs rows t :
  fields_okb fs = true -> reachable fs rows t -> t_cols t <> [] ->
  (set_fmt t (fmt_to_str t) = Ok (reformatted t) /\
   snd (print rows (reformatted t)) = snd (print rows t)) /\
  (nonneg_limits t ->
   ctor fs (Some (fmt_to_str t)) None None = Ok (rebuilt t) /\
   snd (print rows (rebuilt t)) = snd (print rows t)) /\
  (forall s, In s [[]; [ch_semi]; [ch_semi; ch_semi]] ->
   set_fmt t s = Ok (cleared t) /\ snd (print rows (cleared t)) = snd (print rows t)).
Proof.
  intros Hfs Hr Hne. destruct (reachable_inv fs rows t Hfs Hr) as [[Ef Hwf] Hc].
  split; [split; [apply set_fmt_roundtrip, Hwf|apply view_setter; assumption]|].
  split.
  - intros Hnn. split; [rewrite <- Ef; apply ctor_roundtrip; assumption|apply view_ctor; assumption].
  - intros s Hs. split; [|apply view_cleared; assumption].
    destruct (empty_fmt t) as (E1 & E2 & E3).
    destruct Hs as [<-|[<-|[<-|[]]]]; assumption.
Qed.

(* ------------------------------------------------------------------ *)
(* g!:2,k:1,name:1-10;2:2  on seven records; the break line after the first
   record hides the long name of the second one until column g is removed *)
Definition st_fields : list field :=
  [mkField [103] [] 1 999 1; mkField [107] [] 1 999 1; mkField [110;97;109;101] [] 1 999 4].
Definition st_row (g k : Z) (len : Z) : row := [mkCell g [1]; mkCell k [1]; mkCell k [len]].
Definition st_rows : list row :=
  [st_row 1 0 1; st_row 2 1 8; st_row 2 2 1; st_row 2 3 1; st_row 2 4 1; st_row 2 5 1; st_row 2 6 1].
Definition st_fmt : str :=
  [103;33;58;50;44;107;58;49;44;110;97;109;101;58;49;45;49;48;59;50;58;50].

(* the former refutation witness (remove_break_column_refuted before the repair
   38581d5 of ak/ppobj.py): the views now agree, and likewise after set_limits *)
Lemma repaired_after_remove : exists t0 t1 t2,
  fields_okb st_fields = true /\ ctor st_fields (Some st_fmt) None None = Ok t0 /\
  t1 = remove_columns (fst (print st_rows t0)) [[103]] /\ t_cols t1 <> t_cols (fst (print st_rows t0)) /\
  snd (print st_rows (reformatted t1)) = snd (print st_rows t1) /\
  snd (print st_rows (rebuilt t1)) = snd (print st_rows t1) /\
  t2 = set_limits (fst (print st_rows t0)) (Some (Some 1, Some 1)) /\
  snd (print st_rows (reformatted t2)) = snd (print st_rows t2) /\
  snd (print st_rows (rebuilt t2)) = snd (print st_rows t2) /\
  snd (print st_rows t2) <> snd (print st_rows (fst (print st_rows t0))).
Proof.
  destruct (ctor st_fields (Some st_fmt) None None) as [t0|] eqn:E; [|vm_compute in E; discriminate].
  exists t0, (remove_columns (fst (print st_rows t0)) [[103]]),
         (set_limits (fst (print st_rows t0)) (Some (Some 1, Some 1))).
  vm_compute in E. injection E as <-.
  split; [vm_compute; reflexivity|]. split; [reflexivity|]. split; [reflexivity|].
  split; [vm_compute; discriminate|].
  split; [vm_compute; reflexivity|]. split; [vm_compute; reflexivity|]. split; [reflexivity|].
  split; [vm_compute; reflexivity|]. split; [vm_compute; reflexivity|].
  vm_compute. discriminate.
Qed.

(* ------------------------------------------------------------------ *)
Definition ex_fields : list field :=
  [mkField [105;100] [] 1 999 2;                                   (* id *)
   mkField [97;32;60;98;45] [[102;117;108;108]; [118;97;108]] 1 999 5;   (* 'a <b-' with modifiers full, val *)
   mkField [110;97;109;101] [] 2 30 4].                            (* name *)
Definition ex_row (i g len : Z) : row := [mkCell i [1]; mkCell g [3; 6; 2]; mkCell i [len]].
Definition ex_rows : list row :=
  [ex_row 0 0 1; ex_row 1 0 5; ex_row 2 1 9; ex_row 3 1 2; ex_row 4 2 12; ex_row 5 2 3; ex_row 6 2 4].
(* "id:3,a <b-/val!:0-4,name:2-10,name;1:2" *)
Definition ex_fmt : str :=
  [105;100;58;51;44;97;32;60;98;45;47;118;97;108;33;58;48;45;52;44;110;97;109;101;58;50;45;49;48;44;
   110;97;109;101;59;49;58;50].
Definition ex_fresh : tstate :=
  match ctor ex_fields (Some ex_fmt) None None with Ok t => t | Err _ => mkT [] [] None None None end.
Definition ex_printed : tstate := fst (print ex_rows ex_fresh).
(* "id:3,a <b-/val!:0-4(4),name:2-10(4),name:2-30(4);1:2" *)
Definition ex_printed_str : str :=
  [105;100;58;51;44;97;32;60;98;45;47;118;97;108;33;58;48;45;52;40;52;41;44;110;97;109;101;58;50;45;49;48;
   40;52;41;44;110;97;109;101;58;50;45;51;48;40;52;41;59;49;58;50].

Lemma ex_witness :
  fields_okb ex_fields = true /\ reachable ex_fields ex_rows ex_printed /\
  t_cols ex_printed <> [] /\ nonneg_limits ex_printed /\
  t_skipped ex_printed = Some true /\
  fmt_to_str ex_printed = ex_printed_str /\
  col_okb (mkCol [97;32;60;98;45] (Some [102;117;108;108]) true 2 10 (Some (-7))) = true.
Proof.
  split; [vm_compute; reflexivity|].
  split.
  { unfold ex_printed. apply R_print.
    apply (R_ctor _ _ (Some ex_fmt) None None). vm_compute. reflexivity. }
  split; [vm_compute; discriminate|].
  split; [vm_compute; split; discriminate|].
  split; [vm_compute; reflexivity|].
  split; vm_compute; reflexivity.
Qed.
