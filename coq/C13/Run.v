(* C13/Run.v -- entry point of the correspondence check: life-cycle programs
   on one table (construct, then print / set fmt / set own fmt / remove
   columns / rebuild through the constructor / check the round trips). *)
From Coq Require Import ZArith List Bool.
From AK Require Export Common.Sx Common.Err gen.C13_Consts C13.Model.
Import ListNotations.
Open Scope Z_scope.

Inductive op :=
| OPrint
| OSet (s : str)
| OSelf                       (* t.fmt = str(t.fmt) *)
| ORemove (names : list str)
| ORebuild                    (* t = PPTable(records, fmt=str(t.fmt), fields=...) *)
| OCheck.                     (* round trips on copies of t, t itself untouched *)

Record case := mkCase {
  k_fields : list field;
  k_rows : list row;
  k_fmt : option str;
  k_lim : option limits;
  k_skip : option (list str);
  k_ops : list op
}.

Definition sx_view (v : view) : sx :=
  SL [sx_list SZ (vw_widths v); sx_nat (length (vw_lines v))].

(* print on a state: (view or error, str(fmt) afterwards) *)
Definition obs_print (rows : list row) (t : tstate) : tstate * sx :=
  let '(t', r) := print rows t in
  (t', SL [sx_res sx_view r; sx_str (fmt_to_str t')]).

Definition obs_then_print (rows : list row) (r : res tstate) : sx :=
  match r with
  | Err e => sx_res (fun x : sx => x) (Err e)
  | Ok t => SL [SZ 0; sx_str (fmt_to_str t); snd (obs_print rows t)]
  end.

Definition rebuild (t : tstate) : res tstate :=
  ctor (t_fields t) (Some (fmt_to_str t)) None None.

Definition step (rows : list row) (t : tstate) (o : op) : tstate * sx :=
  match o with
  | OPrint => obs_print rows t
  | OSet s =>
      match set_fmt t s with
      | Ok t' => (t', SL [SZ 0; sx_str (fmt_to_str t')])
      | Err e => (t, SL [SZ 1; SZ (err_code e)])
      end
  | OSelf =>
      match set_fmt t (fmt_to_str t) with
      | Ok t' => (t', SL [SZ 0; sx_str (fmt_to_str t')])
      | Err e => (t, SL [SZ 1; SZ (err_code e)])
      end
  | ORemove names =>
      let t' := remove_columns t names in (t', sx_str (fmt_to_str t'))
  | ORebuild =>
      match rebuild t with
      | Ok t' => (t', SL [SZ 0; sx_str (fmt_to_str t')])
      | Err e => (t, SL [SZ 1; SZ (err_code e)])
      end
  | OCheck =>
      (t, SL [ snd (obs_print rows t);
               obs_then_print rows (set_fmt t (fmt_to_str t));
               obs_then_print rows (rebuild t);
               obs_then_print rows (set_fmt t []);
               obs_then_print rows (set_fmt t [ch_semi]);
               obs_then_print rows (set_fmt t [ch_semi; ch_semi]) ])
  end.

Fixpoint steps (rows : list row) (t : tstate) (ops : list op) : list sx :=
  match ops with
  | [] => []
  | o :: r => let '(t', x) := step rows t o in x :: steps rows t' r
  end.

(* the complete observation of a program (used when debugging a disagreement) *)
Definition run_full (c : case) : sx :=
  match ctor (k_fields c) (k_fmt c) (k_lim c) (k_skip c) with
  | Err e => SL [SZ 1; SZ (err_code e)]
  | Ok t => SL [SZ 0; sx_str (fmt_to_str t); SL (steps (k_rows c) t (k_ops c))]
  end.

(* observations are long (every step carries fmt strings), so the check compares
   one 61-bit digest per step; harness/props/c13.py computes the same digest of
   what the implementation did *)
Definition hM : Z := 2305843009213693951.   (* 2^61 - 1, used as a bit mask *)
Fixpoint hash_sx (s : sx) : Z :=
  match s with
  | SZ z => Z.land (1000003 * z + 12345) hM
  | SL l =>
      (fix go (l : list sx) (acc : Z) : Z :=
         match l with
         | [] => acc
         | x :: r => go r (Z.land (acc * 1000003 + hash_sx x + 7) hM)
         end) l 98765
  end.

Definition run (c : case) : sx :=
  match ctor (k_fields c) (k_fmt c) (k_lim c) (k_skip c) with
  | Err e => SL [SZ 1; SZ (err_code e)]
  | Ok t => SL [SZ 0; SZ (hash_sx (sx_str (fmt_to_str t)));
                SL (map (fun x => SZ (hash_sx x)) (steps (k_rows c) t (k_ops c)))]
  end.
