"""C01  Every parse result is a valid derivation of the user's grammar (ak/llparser.py)"""
import random

from harness.props import llp_common as L

ID = "C01"
DISABLED = "work in progress: the model and its correspondence check exist, parse_sound is not proved yet (DESIGN.md section 8, C01)"
COQ_DIR = "C01"
EXTRA_COQ_DIRS = ["LLP"]
RUN_MOD = L.RUN_MOD
MODEL_TARGETS = ["C01/Run.vo"]
PROOF_TARGETS = ["C01/Lemmas.vo"]
PROPS = ["C01/Props.v"]
ALLOWED_AXIOMS = []
IMPL_TIMEOUT = 20.0
COQ_SHARD = 40
RULE = ("random grammars (2-6 non-terminals with permuted names, 2-5 terminals, 1-4 ordered alternatives of length 0-4; "
        "forced shapes: common prefixes, nested common prefixes, an alternative that is a prefix of another, empty "
        "alternatives, some left recursion), both smart_factorization values; per grammar up to 12 inputs: sampled "
        "sentences, sentences with one token inserted/deleted/replaced, random token strings; token values differ from "
        "token names.  Non-trivial = distinct (grammar, inputs) whose constructor succeeds, whose grammar has a common-prefix "
        "group or an empty alternative, and at least one input parses to a tree.")
TRUSTED_BASE = [
    "tokenisation is outside this model: the model's parse receives the generator's token list (names, values); "
    "the implementation tokenises the rendered text itself (tokenizer covered by C04)",
    "GrammarError checks of _verify_grammar_structure_part1 (unknown symbols etc.) are outside the model; generated grammars never trigger them",
]
ASSUMPTIONS = ["grammars use plain productions (templates are C05's subject)"]
MODELLED = ("ak/llparser.py: _create_productions (plain), _factorize_productions and helpers, _get_nullables, _calc_first_sets, "
            "_calc_follow_sets, _make_llone_table, _verify_grammar_structure_part2, the main loop of parse incl. suffix splicing and roll-back")


def gen_cases(rng, tier):
    n = 1500 if tier == "thorough" else 220
    cases = []
    for _ in range(n):
        g = L.gen_grammar(rng, allow_leftrec=0.08)
        cases.append({"g": g, "inputs": L.gen_inputs(rng, g, 12)})
    return cases


def kind(case):
    g = case["g"]
    prods = dict(g["prods"])
    has_prefix = any(a and b and a[0] == b[0] for alts in prods.values() for a, b in zip(alts, alts[1:]))
    has_empty = any(not a for alts in prods.values() for a in alts)
    return f"prefix={int(has_prefix)} empty={int(has_empty)} smart={int(g['smart'])}"


impl_run = L.impl_run
coq_case = L.coq_case
expected_sx = L.expected_sx


def oracle(case, obs):
    if "__hang__" in obs:
        return [("ctor-hang", "constructor/parse batch did not return")]
    out = []
    if obs["ctor"][0] != "ok":
        return out
    g = case["g"]
    prods = {nt: alts for nt, alts in g["prods"]}
    for inp, r in zip(case["inputs"], obs["res"]):
        if r[0] == "ok":
            probs = L.check_derivation(prods, g["start"], r[1], inp)
            if probs:
                out.append(("invalid-tree", f"grammar {g['prods']} start {g['start']} smart={g['smart']} input {inp}: " + "; ".join(probs[:3])))
    return out[:3]


def nontrivial(case, obs):
    if "__hang__" in obs or obs["ctor"][0] != "ok":
        return False
    k = kind(case)
    return ("prefix=1" in k or "empty=1" in k) and any(r[0] == "ok" for r in obs["res"])


def outcome(case, obs):
    if "__hang__" in obs:
        return "hang"
    if obs["ctor"][0] != "ok":
        return "ctor:" + obs["ctor"][1]
    n_ok = sum(1 for r in obs["res"] if r[0] == "ok")
    return f"ctor:ok amb={int(obs['amb'])} parsed={'some' if n_ok else 'none'}"


def shrink_candidates(case):
    g = case["g"]
    # fewer inputs
    if len(case["inputs"]) > 1:
        for i in range(len(case["inputs"])):
            yield {"g": g, "inputs": [case["inputs"][i]]}
    # drop an alternative
    for i, (nt, alts) in enumerate(g["prods"]):
        if len(alts) > 1:
            for j in range(len(alts)):
                g2 = dict(g)
                g2["prods"] = [list(x) for x in g["prods"]]
                g2["prods"][i] = [nt, alts[:j] + alts[j + 1:]]
                yield {"g": g2, "inputs": case["inputs"]}


TECHNIQUE = "Coq proof (stack-machine invariant, induction on fuel) over a hand-written Gallina model of the parser + per-run correspondence (vm_compute vs implementation)"
LEVEL_TEXT = "in progress"
LEVEL_NOTE = "in progress"
DESIGN_REF = "DESIGN.md section 8, C01"
