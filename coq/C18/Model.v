(* C18/Model.v -- executable model of ak/xlsread.py:
     cell converters (25-161), _coord_sort_key (167-171), XlsObject construction / origin
     recording / get_attr_origin (174-323), binding of rules to the title row incl. range
     detection (464-573), XlsTableReader.iter_table (587-669) for one object class ([read_table]) and
     for several object classes read from one table ([read_table_m]: XlsTableReader(r1, ..., rn))
   (line numbers of the source WITH the fix of finding origin-range-string-sort, which adds 7 lines
   at 167; the model is of that repaired code).
   A worksheet is a list of rows of cell values ([cval]: None, str, int, bool; any other value --
   float, datetime -- by its str() text and the int it equals); the cell in row r,
   column c (0-based) has the openpyxl coordinate  col_name c ++ dec (r+1).
   Strings are lists of code points.  Exceptions are data ([res]).
   The literal tables (CellBool sets, default none-values, origin markers, the
   'blank first' literal, '*') are regenerated from the source on every run
   (gen/C18_Consts.v); the same extractor fails closed unless _coord_sort_key and the sorted(...)
   call of get_attr_origin have exactly the modelled shape.  No proofs in this file. *)
From Coq Require Import ZArith List Bool.
From AK Require Import Common.Sx Common.Err C18.Base gen.C18_Consts.
Import ListNotations.
Open Scope Z_scope.

(* ------------------------------------------------------------------ *)
(* strings                                                             *)

Fixpoint str_eqb (a b : str) : bool :=
  match a, b with
  | [], [] => true
  | x :: a', y :: b' => (x =? y) && str_eqb a' b'
  | _, _ => false
  end.

(* python: a < b on str (code point order) *)
Fixpoint str_ltb (a b : str) : bool :=
  match a, b with
  | _, [] => false
  | [], _ :: _ => true
  | x :: a', y :: b' => if x <? y then true else if y <? x then false else str_ltb a' b'
  end.
Definition str_leb (a b : str) : bool := negb (str_ltb b a).

Definition is_nil {A} (l : list A) : bool := match l with [] => true | _ => false end.

(* str.isspace() code points (what str.strip() removes) *)
Definition spaces : list Z :=
  [9;10;11;12;13;28;29;30;31;32;133;160;5760;8192;8193;8194;8195;8196;8197;8198;
   8199;8200;8201;8202;8232;8233;8239;8287;12288].
Definition is_space (c : Z) : bool := existsb (Z.eqb c) spaces.

Fixpoint lstrip (s : str) : str :=
  match s with
  | [] => []
  | c :: r => if is_space c then lstrip r else s
  end.
Definition strip (s : str) : str := rev (lstrip (rev (lstrip s))).

(* decimal text of a non-negative number *)
Fixpoint dec_aux (fuel : nat) (n : Z) (acc : str) : str :=
  match fuel with
  | O => acc
  | S f => let acc' := (48 + n mod 10) :: acc in
           if n <? 10 then acc' else dec_aux f (n / 10) acc'
  end.
Definition dec_pos (n : Z) : str := dec_aux (S (Z.to_nat (Z.log2 n))) n [].
Definition dec_Z (z : Z) : str := if z <? 0 then 45 :: dec_pos (- z) else dec_pos z.

(* generic insertion sort (python sorted() is stable; so is this) *)
Fixpoint insert_by {A} (leb : A -> A -> bool) (x : A) (l : list A) : list A :=
  match l with
  | [] => [x]
  | y :: r => if leb x y then x :: l else y :: insert_by leb x r
  end.
Definition sort_by {A} (leb : A -> A -> bool) (l : list A) : list A :=
  fold_right (insert_by leb) [] l.
Definition sort_strs : list str -> list str := sort_by str_leb.

Fixpoint dedupe (l : list str) (seen : list str) : list str :=
  match l with
  | [] => []
  | x :: r => if existsb (str_eqb x) seen then dedupe r seen else x :: dedupe r (x :: seen)
  end.

(* ------------------------------------------------------------------ *)
(* cells                                                               *)

Record cell : Type := mkCell { c_row : nat; c_col : nat; c_val : cval }.

(* python == / hash on cell values: 1 == True, 0 == False *)
Definition py_eqb (a b : cval) : bool :=
  match a, b with
  | CNone, CNone => true
  | CStr x, CStr y => str_eqb x y
  | CInt x, CInt y => x =? y
  | CBool x, CBool y => Bool.eqb x y
  | CInt x, CBool y | CBool y, CInt x => x =? (if y then 1 else 0)
  | COther _ (Some x), CInt y | CInt y, COther _ (Some x) => x =? y            (* 2.0 == 2 *)
  | COther _ (Some x), CBool y | CBool y, COther _ (Some x) => x =? (if y then 1 else 0)
  | COther _ (Some x), COther _ (Some y) => x =? y
  | COther s None, COther t None => str_eqb s t
  | _, _ => false
  end.
Definition py_in (v : cval) (l : list cval) : bool := existsb (py_eqb v) l.

(* str(v) *)
Definition py_str (v : cval) : str :=
  match v with
  | CNone => [78;111;110;101]
  | CStr s => s
  | CInt z => dec_Z z
  | CBool true => [84;114;117;101]
  | CBool false => [70;97;108;115;101]
  | COther txt _ => txt
  end.

(* XlsTableReader._cell_is_empty *)
Definition val_empty (v : cval) : bool :=
  match v with
  | CNone => true
  | _ => is_nil (strip (py_str v))
  end.
Definition cell_empty (c : cell) : bool := val_empty (c_val c).
Definition row_empty (r : list cell) : bool := forallb cell_empty r.

(* title of a column: str(cell.value).strip() if cell.value is not None else "" *)
Definition val_title (v : cval) : str :=
  match v with CNone => [] | _ => strip (py_str v) end.

(* openpyxl coordinates *)
Fixpoint col_name_aux (fuel : nat) (n : Z) (acc : str) : str :=
  match fuel with
  | O => acc
  | S f => let acc' := (65 + n mod 26) :: acc in
           if n <? 26 then acc' else col_name_aux f (n / 26 - 1) acc'
  end.
Definition col_name (c : nat) : str := col_name_aux (S c) (Z.of_nat c) [].
Definition coord_text (r c : nat) : str := col_name c ++ dec_pos (Z.of_nat r + 1).
Definition cell_coord (c : cell) : str := coord_text (c_row c) (c_col c).

(* ------------------------------------------------------------------ *)
(* converters (_CellReader subclasses)                                 *)

Inductive sval : Type :=
| VNone
| VInt (z : Z)
| VBool (b : bool)
| VStr (s : str)
| VList (l : list str)
| VSet (l : list str).          (* canonical: duplicate free, sorted *)

Inductive ckind := KStr | KInt | KBool | KList | KSet.

(* constructor arguments none_values / true_values / false_values; None = class default *)
Record conv : Type := mkConv {
  cv_kind : ckind;
  cv_none : option (list cval);
  cv_true : option (list cval);
  cv_false : option (list cval) }.

Definition none_values (cv : conv) : list cval :=
  match cv_none cv with
  | Some l => l
  | None => match cv_kind cv with KBool => bool_none | _ => reader_none end
  end.
Definition true_values (cv : conv) : list cval :=
  match cv_true cv with Some l => l | None => bool_true end.
Definition false_values (cv : conv) : list cval :=
  match cv_false cv with Some l => l | None => bool_false end.

(* v.replace('\n', ',').split(',') *)
Fixpoint split_commas (s : str) (cur : str) : list str :=
  match s with
  | [] => [rev cur]
  | c :: r => if (c =? 44) || (c =? 10) then rev cur :: split_commas r []
              else split_commas r (c :: cur)
  end.
Definition list_items (s : str) : list str :=
  filter (fun x => negb (is_nil x)) (map strip (split_commas s [])).

Definition make_value (cv : conv) (v : cval) : res sval :=
  match cv_kind cv with
  | KStr => Ok (VStr (match v with CNone => [] | _ => strip (py_str v) end))
  | KInt => match v with
            | CInt z => Ok (VInt z)
            | CBool b => Ok (VBool b)          (* isinstance(True, int) *)
            | _ => Err ValueErr
            end
  | KBool => if py_in v (true_values cv) then Ok (VBool true)
             else if py_in v (false_values cv) then Ok (VBool false)
             else Err ValueErr
  | KList => match v with
             | CNone => Ok (VList [])
             | CStr s => Ok (VList (list_items s))
             | _ => Err ValueErr
             end
  | KSet => match v with
            | CNone => Ok (VSet [])
            | CStr s => Ok (VSet (sort_strs (dedupe (list_items s) [])))
            | _ => Err ValueErr
            end
  end.

(* _CellReader.val_from_cell *)
Definition val_from_val (cv : conv) (v : cval) : res sval :=
  if py_in v (none_values cv) then Ok VNone else make_value cv v.
Definition val_from_cell (cv : conv) (c : cell) : res sval := val_from_val cv (c_val c).

(* bool(value) *)
Definition truthy (v : sval) : bool :=
  match v with
  | VNone => false
  | VInt z => negb (z =? 0)
  | VBool b => b
  | VStr s => negb (is_nil s)
  | VList l | VSet l => negb (is_nil l)
  end.

(* attribute values: simple, CellRangeDict, CellRangeSet *)
Inductive value : Type :=
| VS (v : sval)
| VDict (d : list (str * sval))     (* insertion order, distinct keys *)
| VTSet (l : list str).             (* canonical: duplicate free, sorted *)

(* d[k] = v on an insertion-ordered dict *)
Fixpoint assoc_set {A} (k : str) (v : A) (d : list (str * A)) : list (str * A) :=
  match d with
  | [] => [(k, v)]
  | (k', v') :: r => if str_eqb k k' then (k, v) :: r else (k', v') :: assoc_set k v r
  end.
Fixpoint assoc_get {A} (k : str) (d : list (str * A)) : option A :=
  match d with
  | [] => None
  | (k', v') :: r => if str_eqb k k' then Some v' else assoc_get k r
  end.
Definition dict_of {A} (l : list (str * A)) : list (str * A) :=
  fold_left (fun d kv => assoc_set (fst kv) (snd kv) d) l [].

Fixpoint map_res {A B} (f : A -> res B) (l : list A) : res (list B) :=
  match l with
  | [] => Ok []
  | x :: r => match f x with
              | Err e => Err e
              | Ok y => match map_res f r with Err e => Err e | Ok ys => Ok (y :: ys) end
              end
  end.

(* _CellRangeReader.val_from_cells: value part (zip(cells_titles, cells)) *)
Definition range_value (isdict : bool) (cv : conv) (names : list str) (cells : list cell) : res value :=
  match map_res (val_from_cell cv) cells with
  | Err e => Err e
  | Ok vs =>
      let kvs := combine names vs in
      if isdict then Ok (VDict (dict_of kvs))
      else Ok (VTSet (sort_strs (dedupe (map fst (filter (fun kv => truthy (snd kv)) kvs)) [])))
  end.

(* ------------------------------------------------------------------ *)
(* origins                                                             *)

Inductive origin : Type :=
| OCell (r c : nat)                         (* cell.coordinate *)
| ONa                                       (* "<n/a>": attribute not read from the sheet *)
| OSkipped                                  (* "<skipped column>": optional column is missing *)
| ORange (d : list (str * (nat * nat))).    (* {column title: coordinate} *)

Definition range_origins (names : list str) (cells : list cell) : origin :=
  ORange (dict_of (combine names (map (fun c => (c_row c, c_col c)) cells))).

(* ------------------------------------------------------------------ *)
(* reading rules and their binding to the title row                    *)

Inductive rule : Type :=
| RPlain (col : str) (cv : conv) (def : option sval)   (* (column, cell_type[, default_val]) *)
| RExt (def : sval)                                     (* None / (None, None, default_val) *)
| RRange (isdict : bool) (cv : conv) (hasdef : bool).   (* ('*', CellRangeDict/Set(cell_type)[, default]) *)

(* entry of _ObjScrCellsMap.columns_map (+ the default) *)
Inductive binding : Type :=
| BCol (i : nat)
| BMissing (d : sval)
| BExt (d : sval)
| BRange (names : list str) (ids : list nat).

(* col_names_ids = {name: i for i, name in enumerate(cols_names)}: the last column wins *)
Fixpoint last_index (name : str) (names : list str) (pos : nat) (found : option nat) : option nat :=
  match names with
  | [] => found
  | n :: r => last_index name r (S pos) (if str_eqb n name then Some pos else found)
  end.
Definition col_id (names : list str) (name : str) : option nat := last_index name names 0%nat None.

(* get_known_columns_names of all cells maps: the column names of the non-'*' rules
   (None, for external attributes, never equals a title) *)
Fixpoint known_names (rules : list rule) : list str :=
  match rules with
  | [] => []
  | RPlain col _ _ :: r => if str_eqb col star then known_names r else col :: known_names r
  | _ :: r => known_names r
  end.
Definition not_range (known : list str) (n : str) : bool :=
  is_nil n || existsb (str_eqb n) known.

(* the scan of bind_titles_row for a '*' attribute *)
Fixpoint range_scan (known : list str) (names : list str) (in_range : bool) : list str :=
  match names with
  | [] => []
  | n :: r => if not_range known n then (if in_range then [] else range_scan known r false)
              else n :: range_scan known r true
  end.

Fixpoint opt_list {A} (l : list (option A)) : option (list A) :=
  match l with
  | [] => Some []
  | None :: _ => None
  | Some x :: r => match opt_list r with Some xs => Some (x :: xs) | None => None end
  end.

Definition bind_range (known names : list str) (hasdef : bool) : res binding :=
  let rn := range_scan known names false in
  if is_nil rn && negb hasdef then Err ValueErr
  else match opt_list (map (col_id names) rn) with
       | Some ids => Ok (BRange rn ids)
       | None => Err KeyErr                (* unreachable: scanned names are titles *)
       end.

Definition bind_rule (known names : list str) (ru : rule) : res binding :=
  match ru with
  | RRange _ _ hasdef => bind_range known names hasdef
  | RExt d => Ok (BExt d)
  | RPlain col _ def =>
      if str_eqb col star then
        (* a single-cell reader declared with column '*' is bound like a range *)
        bind_range known names (match def with Some _ => true | None => false end)
      else match col_id names col, def with
           | Some i, _ => Ok (BCol i)
           | None, Some d => Ok (BMissing d)
           | None, None => Err ValueErr
           end
  end.

(* ------------------------------------------------------------------ *)
(* cells_from_row / XlsObject.construct                                *)

Inductive src : Type :=
| SCell (c : cell)
| SMissing (d : sval)
| SExt (d : sval)
| SRange (names : list str) (cells : list cell).

Definition nth_res {A} (l : list A) (i : nat) : res A :=
  match nth_error l i with Some x => Ok x | None => Err IndexErr end.

Definition src_of (row : list cell) (b : binding) : res src :=
  match b with
  | BCol i => match nth_res row i with Ok c => Ok (SCell c) | Err e => Err e end
  | BMissing d => Ok (SMissing d)
  | BExt d => Ok (SExt d)
  | BRange names ids =>
      match map_res (nth_res row) ids with Ok cs => Ok (SRange names cs) | Err e => Err e end
  end.

(* loop body of XlsObject.__init__: value and origin of one attribute *)
Definition build_attr (ru : rule) (s : src) : res (value * origin) :=
  match ru, s with
  | RRange isdict cv _, SRange names cells =>
      match range_value isdict cv names cells with
      | Ok v => Ok (v, range_origins names cells)
      | Err e => Err e
      end
  | RExt _, SExt d => Ok (VS d, ONa)
  | RPlain _ _ _, SMissing d => Ok (VS d, OSkipped)
  | RPlain _ cv _, SCell c =>
      match val_from_cell cv c with
      | Ok v => Ok (VS v, OCell (c_row c) (c_col c))
      | Err e => Err e
      end
  | RPlain _ _ _, SRange _ _ => Err AttrErr     (* val_from_cell((names, cells)): no .value *)
  | _, _ => Err OtherErr                        (* unreachable: binding follows the rule *)
  end.

Record obj : Type := mkObj { o_attrs : list (value * origin) }.

(* all(cell.value is None for cell in cells[:k]) *)
Fixpoint keys_empty (l : list src) : res bool :=
  match l with
  | [] => Ok true
  | SCell c :: r => match c_val c with CNone => keys_empty r | _ => Ok false end
  | _ :: _ => Err AttrErr
  end.

Definition is_vnone (a : value * origin) : bool :=
  match fst a with VS VNone => true | _ => false end.

(* XlsObject.construct applied to cells_map.cells_from_row(row); None = no object for the row *)
Definition construct (rules : list rule) (bs : list binding) (k : nat) (row : list cell)
  : res (option obj) :=
  match map_res (src_of row) bs with
  | Err e => Err e
  | Ok srcs =>
      match keys_empty (firstn k srcs) with
      | Err e => Err e
      | Ok ke =>
          if ke && negb (Nat.eqb k 0) then Ok None
          else if Nat.ltb (length rules) k then Err AssertErr
          else match srcs with
               | [] => Err IndexErr                      (* cells_list[0] *)
               | SCell _ :: _ =>
                   match map_res (fun p => build_attr (fst p) (snd p)) (combine rules srcs) with
                   | Err e => Err e
                   | Ok attrs =>
                       if negb (Nat.eqb k 0) && forallb is_vnone (firstn k attrs) then Ok None
                       else Ok (Some (mkObj attrs))
                   end
               | _ :: _ => Err AttrErr                   (* anchor_cell.parent *)
               end
      end
  end.

(* ------------------------------------------------------------------ *)
(* XlsTableReader.iter_table                                           *)

(* ladder substitution: for i in range(first_col_pos, len(row)): empty -> prev_row[i], else break *)
Fixpoint fill_from (prev cur : list cell) {struct cur} : res (list cell) :=
  match cur with
  | [] => Ok []
  | c :: cs =>
      if cell_empty c then
        match prev with
        | [] => Err IndexErr
        | p :: ps => match fill_from ps cs with Ok r => Ok (p :: r) | Err e => Err e end
        end
      else Ok cur
  end.
Definition fill_row (fcp : nat) (prev cur : list cell) : res (list cell) :=
  match fill_from (skipn fcp prev) (skipn fcp cur) with
  | Ok r => Ok (firstn fcp cur ++ r)
  | Err e => Err e
  end.

Record config : Type := mkConfig {
  cf_rules : list rule;        (* in _ATTRS order *)
  cf_nid : nat;                (* _NUM_ID_ATTRS *)
  cf_stop : str;               (* stop_on *)
  cf_ladder : bool }.          (* ladder_format *)

Definition stop_first (cf : config) : bool := str_eqb (cf_stop cf) blank_first.

(* end-of-table test on a row after the title row *)
Definition is_end (cf : config) (row : list cell) : res bool :=
  if stop_first cf then
    match row with [] => Err IndexErr | c :: _ => Ok (cell_empty c) end
  else Ok (row_empty row).

(* the rows after the title row; result = yielded items so far, and the exception that ended
   the generator (if any) *)
Fixpoint iter_rows (cf : config) (bs : list binding) (fcp : option nat)
         (prev : option (list cell)) (rows : list (list cell))
  : list (option obj) * option err :=
  match rows with
  | [] => ([], None)
  | row :: rest =>
      match is_end cf row with
      | Err e => ([], Some e)
      | Ok true => ([], None)
      | Ok false =>
          let cur := match cf_ladder cf, fcp, prev with
                     | true, Some f, Some p => fill_row f p row
                     | _, _, _ => Ok row
                     end in
          match cur with
          | Err e => ([], Some e)
          | Ok cur =>
              match construct (cf_rules cf) bs (cf_nid cf) cur with
              | Err e => ([], Some e)
              | Ok o => let (os, e) := iter_rows cf bs fcp (Some cur) rest in (o :: os, e)
              end
          end
      end
  end.

Fixpoint first_some_pos (names : list str) (pos : nat) : option nat :=
  match names with
  | [] => None
  | n :: r => if is_nil n then first_some_pos r (S pos) else Some pos
  end.

Definition titles_of (row : list cell) : list str := map (fun c => val_title (c_val c)) row.

Fixpoint skip_blank (rows : list (list cell)) : list (list cell) :=
  match rows with
  | [] => []
  | r :: rest => if row_empty r then skip_blank rest else rows
  end.

(* cells_map.bind_titles_row(cols_names, col_names_ids, known_cols_names) for one object's rules;
   [known] = the column names claimed by the rules of ALL objects of the table reader *)
Definition bind_all_k (known : list str) (rules : list rule) (names : list str) : res (list binding) :=
  map_res (bind_rule known names) rules.
(* a reader with one object: the known names are its own *)
Definition bind_all (rules : list rule) (names : list str) : res (list binding) :=
  bind_all_k (known_names rules) rules names.

(* worksheet.iter_rows(): rows of cells with their coordinates *)
Fixpoint index_row (r c : nat) (vs : list cval) : list cell :=
  match vs with
  | [] => []
  | v :: rest => mkCell r c v :: index_row r (S c) rest
  end.
Fixpoint index_rows (r : nat) (sh : list (list cval)) : list (list cell) :=
  match sh with
  | [] => []
  | vs :: rest => index_row r 0%nat vs :: index_rows (S r) rest
  end.
Definition index_sheet (sh : list (list cval)) : list (list cell) := index_rows 0%nat sh.

(* One object's view of a reading: the rules [cf] bound to the title row with [known] as the set of
   column names that are claimed by name (by this object or by the other objects of the reader) *)
Definition read_cells_k (known : list str) (cf : config) (rows : list (list cell))
  : list (option obj) * option err :=
  match skip_blank rows with
  | [] => ([], None)
  | title :: body =>
      let names := titles_of title in
      match bind_all_k known (cf_rules cf) names with
      | Err e => ([], Some e)
      | Ok bs => iter_rows cf bs (first_some_pos names 0%nat) None body
      end
  end.
Definition read_table_k (known : list str) (cf : config) (sh : list (list cval))
  : list (option obj) * option err :=
  read_cells_k known cf (index_sheet sh).

(* list(iter_table(ws, cls, rules, stop_on=..., ladder_format=...)), item by item: the reader has
   one object, the known column names are those of its own rules.  (The module-level iter_table is
   XlsTableReader(rules).iter_table unpacked: LemmasMulti.read_table_one ties this definition to
   [read_table_m] below, and Run.v evaluates single readings through [read_table_m].) *)
Definition read_table (cf : config) (sh : list (list cval)) : list (option obj) * option err :=
  read_table_k (known_names (cf_rules cf)) cf sh.

(* ------------------------------------------------------------------ *)
(* XlsTableReader(rules_1, ..., rules_n).iter_table: several objects per table row *)

Record mconfig : Type := mkMConfig {
  mc_objs : list (list rule * nat);   (* per object class: rules in _ATTRS order, _NUM_ID_ATTRS *)
  mc_stop : str;                      (* stop_on *)
  mc_ladder : bool }.                 (* ladder_format *)

(* the single-object configuration of one of the objects *)
Definition mc_cf (mc : mconfig) (ob : list rule * nat) : config :=
  mkConfig (fst ob) (snd ob) (mc_stop mc) (mc_ladder mc).
(* the part of the configuration the row loop itself looks at (stop_on, ladder_format) *)
Definition mc_loop (mc : mconfig) : config := mkConfig [] 0%nat (mc_stop mc) (mc_ladder mc).

(* known_cols_names = {col_name for cells_map in self.cells_maps
                                for col_name in cells_map.get_known_columns_names()} *)
Definition known_all (objs : list (list rule * nat)) : list str :=
  flat_map (fun ob => known_names (fst ob)) objs.

(* for cells_map in self.cells_maps: cells_map.bind_titles_row(...): in order, the first failure raises *)
Definition bind_objs (known names : list str) (objs : list (list rule * nat)) : res (list (list binding)) :=
  map_res (fun ob => bind_all_k known (fst ob) names) objs.

(* results = [obj_class.construct(... cells_map.cells_from_row(current_row)) for ... in zip(objs_rrules, cells_maps)] *)
Definition construct_all (objs : list (list rule * nat)) (bss : list (list binding)) (row : list cell)
  : res (list (option obj)) :=
  map_res (fun p => construct (fst (fst p)) (snd p) (snd (fst p)) row) (combine objs bss).

Fixpoint iter_rows_m (mc : mconfig) (bss : list (list binding)) (fcp : option nat)
         (prev : option (list cell)) (rows : list (list cell))
  : list (list (option obj)) * option err :=
  match rows with
  | [] => ([], None)
  | row :: rest =>
      match is_end (mc_loop mc) row with
      | Err e => ([], Some e)
      | Ok true => ([], None)
      | Ok false =>
          let cur := match mc_ladder mc, fcp, prev with
                     | true, Some f, Some p => fill_row f p row
                     | _, _, _ => Ok row
                     end in
          match cur with
          | Err e => ([], Some e)
          | Ok cur =>
              match construct_all (mc_objs mc) bss cur with
              | Err e => ([], Some e)
              | Ok tup => let (ts, e) := iter_rows_m mc bss fcp (Some cur) rest in (tup :: ts, e)
              end
          end
      end
  end.

Definition read_cells_m (mc : mconfig) (rows : list (list cell)) : list (list (option obj)) * option err :=
  match skip_blank rows with
  | [] => ([], None)
  | title :: body =>
      let names := titles_of title in
      match bind_objs (known_all (mc_objs mc)) names (mc_objs mc) with
      | Err e => ([], Some e)
      | Ok bss => iter_rows_m mc bss (first_some_pos names 0%nat) None body
      end
  end.

(* list(XlsTableReader(rules_1, ..., rules_n).iter_table(ws, stop_on=..., ladder_format=...)): one tuple of objects
   (or None) per table row, and the exception that ended the iteration, if any *)
Definition read_table_m (mc : mconfig) (sh : list (list cval)) : list (list (option obj)) * option err :=
  read_cells_m mc (index_sheet sh).

(* `for (x, ) in table_reader.iter_table(...)` of the module-level iter_table: a tuple that does not
   have exactly one element raises ValueError (never happens: the reader has one object) *)
Fixpoint unpack_one (items : list (list (option obj))) (e : option err) : list (option obj) * option err :=
  match items with
  | [] => ([], e)
  | [x] :: rest => let (xs, e') := unpack_one rest e in (x :: xs, e')
  | _ :: _ => ([], Some ValueErr)
  end.
Definition mc_one (cf : config) : mconfig := mkMConfig [(cf_rules cf, cf_nid cf)] (cf_stop cf) (cf_ladder cf).
Definition iter_table_fn (cf : config) (sh : list (list cval)) : list (option obj) * option err :=
  let (items, e) := read_table_m (mc_one cf) sh in unpack_one items e.

(* ------------------------------------------------------------------ *)
(* XlsObject.get_attr_origin(attr_name, range_key, strict=...)         *)

(* _coord_sort_key(coord):  col = coord.rstrip('0123456789')
                            return len(col), col, int(coord[len(col):]) *)
Definition is_digit (c : Z) : bool := (48 <=? c) && (c <=? 57).
Fixpoint drop_digits (s : str) : str :=
  match s with
  | [] => []
  | c :: r => if is_digit c then drop_digits r else s
  end.
Definition rstrip_digits (s : str) : str := rev (drop_digits (rev s)).
(* int(text) of a string of ASCII digits.  int('') raises ValueError in python and is 0 here: a
   coordinate always ends in its row number (LemmasRange.coord_key_spec), so this is never used *)
Definition int_of_digits (s : str) : Z := fold_left (fun a c => 10 * a + (c - 48)) s 0.
Definition coord_sort_key (s : str) : nat * str * Z :=
  let col := rstrip_digits s in (length col, col, int_of_digits (skipn (length col) s)).
(* python < on tuples (int, str, int) *)
Definition key_ltb (a b : nat * str * Z) : bool :=
  match a, b with
  | (la, sa, na), (lb, sb, nb) =>
      if Nat.ltb la lb then true else if Nat.ltb lb la then false
      else if str_ltb sa sb then true else if str_ltb sb sa then false
      else na <? nb
  end.
(* sorted(..., key=_coord_sort_key) is stable and only uses < on the keys *)
Definition coord_leb (a b : str) : bool := negb (key_ltb (coord_sort_key b) (coord_sort_key a)).

(* cells_coords = sorted(origins.values(), key=_coord_sort_key); "<first>:<last>" *)
Definition range_text (d : list (str * (nat * nat))) : str :=
  let coords := sort_by coord_leb (map (fun kv => coord_text (fst (snd kv)) (snd (snd kv))) d) in
  match coords with
  | [] => marker_range_empty
  | [x] => x
  | x :: _ => x ++ [58] ++ last coords []
  end.

(* attr = None: a name that is not in _ATTRS *)
Definition get_attr_origin (o : obj) (attr : option nat) (key : option str) (strict : bool) : res str :=
  match attr with
  | None => Err ValueErr
  | Some i =>
      match nth_error (o_attrs o) i with
      | None => Err ValueErr
      | Some (_, og) =>
          match og, key with
          | OCell r c, None => Ok (coord_text r c)
          | ONa, None => Ok marker_na
          | OSkipped, None => Ok marker_skipped
          | ORange d, None => Ok (range_text d)
          | ORange d, Some k =>
              match assoc_get k d with
              | Some (r, c) => Ok (coord_text r c)
              | None => if strict then Err ValueErr else Ok marker_key_na
              end
          | _, Some _ => Err ValueErr
          end
      end
  end.

(* self._src_ws_name = anchor_cell.parent.title, quoted when it contains a space *)
Definition ws_name (title : str) : str :=
  if existsb (Z.eqb 32) title then [39] ++ title ++ [39] else title.

(* get_attr_origin(attr_name, range_key, incl_ws=..., strict=...) of an object read from the worksheet
   titled [title]: ws_prefix = f"{self._src_ws_name} " if incl_ws else "" is put in front of every
   returned text (coordinate, range text, marker, 'n/a'); the exceptions are the same *)
Definition get_attr_origin_ws (o : obj) (title : str) (attr : option nat) (key : option str)
           (incl_ws strict : bool) : res str :=
  match get_attr_origin o attr key strict with
  | Ok s => Ok (if incl_ws then ws_name title ++ [32] ++ s else s)
  | Err e => Err e
  end.

(* str(obj) = f"<{type(self).__name__}({self._src_ws_name} {self._anchor_cell_coord}) {self.logic_id}>"
   without the "{self.logic_id}>" part; the anchor cell is the cell of the first attribute *)
Definition obj_head (cname title : str) (o : obj) : str :=
  [60] ++ cname ++ [40] ++ ws_name title ++ [32] ++
  match o_attrs o with
  | (_, OCell r c) :: _ => coord_text r c
  | _ => []                                   (* unreachable: construct insists on a cell *)
  end ++ [41; 32].

