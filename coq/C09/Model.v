(* C09/Model.v -- executable model of the escape-sequence part of ak/color.py:
     _ColorSequences.make / _make_seq_element      (color.py:59-165)
     _CHTextChunk.__str__, CHText.__str__, plain_text, _append_chunk
     CHText.strip_colors                            (color.py:314-320)
     ColorFmt / ColorBytes                          (color.py:620-683)
   Strings and bytes are lists of code points / byte values ([list Z]).
   Every literal table, threshold and the strip pattern come from
   gen/C09_Consts.v, regenerated from the source on every run.
   No proofs in this file. *)
From Coq Require Import ZArith List Bool.
From AK Require Import Common.Sx Common.Err gen.C09_Consts.
Import ListNotations.
Open Scope Z_scope.

(* ------------------------------------------------------------------ *)
(* python values that can be passed as a colour                         *)

(* component of an (r, g, b) sequence: an int (bools are ints), a float
   (only whether 0 <= x <= 5 matters), or a value that is not a number
   (str, None, list ...: `c < 0` would raise TypeError) *)
Inductive elem := EInt (z : Z) | EFloat (inrange : bool) | EBad.

Inductive color :=
| CNone
| CStr (s : list Z)
| CInt (z : Z)
| CBool (b : bool)                       (* isinstance(True, int) holds *)
| CSeq (is_list : bool) (l : list elem)  (* tuple / list *)
| COther                                 (* hashable, none of the above: float, bytes, ... *)
| CUnhash.                               (* dict, set, ... *)

Fixpoint str_eqb (a b : list Z) : bool :=
  match a, b with
  | [], [] => true
  | x :: a', y :: b' => (x =? y) && str_eqb a' b'
  | _, _ => false
  end.

Fixpoint lookup {A} (k : list Z) (tbl : list (list Z * A)) : option A :=
  match tbl with
  | [] => None
  | (n, v) :: r => if str_eqb k n then Some v else lookup k r
  end.

(* ------------------------------------------------------------------ *)
(* str(int) and int(str)                                                *)

Fixpoint dec_pos (fuel : nat) (n : Z) (acc : list Z) : list Z :=
  match fuel with
  | O => acc
  | S f => if n <? 10 then (48 + n) :: acc
           else dec_pos f (n / 10) ((48 + n mod 10) :: acc)
  end.

(* f"{n}" for an int *)
Definition dec (n : Z) : list Z :=
  if n <? 0 then 45 :: dec_pos (S (Z.to_nat (Z.log2 (- n)))) (- n) []
  else dec_pos (S (Z.to_nat (Z.log2 n))) n [].

Definition is_digit (c : Z) : bool := (48 <=? c) && (c <=? 57).
(* what int() strips from an ASCII str: \t \n \v \f \r and space *)
Definition is_ws (c : Z) : bool := ((9 <=? c) && (c <=? 13)) || (c =? 32).

Fixpoint drop_ws (s : list Z) : list Z :=
  match s with
  | c :: r => if is_ws c then drop_ws r else s
  | [] => []
  end.

Inductive dstate := DStart | DDigit | DUnder.

(* digits with single underscores between them *)
Fixpoint digs (s : list Z) (acc : Z) (st : dstate) : option Z :=
  match s with
  | [] => match st with DDigit => Some acc | _ => None end
  | c :: r =>
      if is_digit c then digs r (acc * 10 + (c - 48)) DDigit
      else if c =? 95 then
        match st with DDigit => digs r acc DUnder | _ => None end
      else None
  end.

(* int(s) for an ASCII str s; None = ValueError.
   Not modelled (see c09.py in_model): non-ASCII digits / spaces, which int()
   also accepts, and the 4300-digit limit. *)
Definition py_int (s : list Z) : option Z :=
  let t := rev (drop_ws (rev (drop_ws s))) in
  match t with
  | 43 :: r => digs r 0 DStart
  | 45 :: r => match digs r 0 DStart with Some v => Some (- v) | None => None end
  | _ => digs t 0 DStart
  end.

(* ------------------------------------------------------------------ *)
(* _make_seq_element                                                    *)

Definition int_branch (fgbg : list Z) (n : Z) : res (list Z) :=
  if (n <? int_lo) || (n >? int_hi) then Err ValueErr
  else Ok (fgbg ++ idx_infix ++ dec n).

(* any([not isinstance(c, int) or] c < lo or c > hi for c in color): left to right,
   short-circuit.  Ok true = some component rejected, Ok false = all accepted.
   Without the isinstance guard a float is only compared, and comparing a
   str / None raises TypeError. *)
Fixpoint any_out (l : list elem) : res bool :=
  match l with
  | [] => Ok false
  | EInt z :: r => if (z <? comp_lo) || (z >? comp_hi) then Ok true else any_out r
  | EFloat ok :: r => if comp_guarded then Ok true else if ok then any_out r else Ok true
  | EBad :: r => if comp_guarded then Ok true else Err TypeErr
  end.

Definition starts_with (p s : list Z) : bool := str_eqb p (firstn (length p) s).

Definition make_seq_element (c : color) (is_bg : bool) : res (list Z) :=
  let fgbg := if is_bg then bg_id else fg_id in
  (* case 1: `color in _COLORS`, guarded by isinstance(color, str) or not *)
  let unhashable := match c with CSeq true _ | CUnhash => true | _ => false end in
  if negb name_lookup_guarded && unhashable then Err TypeErr else
  match c with
  | CStr s =>
      match lookup s colors_tbl with
      | Some d => Ok (fgbg ++ d)
      | None =>
          if starts_with gray_prefix s then
            let shade := match py_int (skipn (length gray_prefix) s) with
                         | Some v => v | None => gray_except end in
            if (shade <? gray_lo) || (shade >? gray_hi) then Err ValueErr
            else int_branch fgbg (gray_base + shade)
          else Err ValueErr
      end
  | CSeq _ l =>
      if negb (Nat.eqb (length l) seq_len) then Err ValueErr
      else match any_out l with
           | Err e => Err e
           | Ok true => Err ValueErr
           | Ok false =>
               match l with
               | [EInt r; EInt g; EInt b] =>
                   int_branch fgbg (cube_base + r * cube_r + g * cube_g + b * cube_b)
               | _ => Err ValueErr      (* a float component: the sum is a float *)
               end
           end
  | CInt n => int_branch fgbg n
  | CBool b =>
      (* True / False pass the range check as 1 / 0; f"{int(color)}" emits the
         number, f"{color}" (before the repair) the word *)
      if idx_int_conv then int_branch fgbg (if b then 1 else 0)
      else if ((if b then 1 else 0) <? int_lo) || ((if b then 1 else 0) >? int_hi) then Err ValueErr
      else Ok (fgbg ++ idx_infix ++ (if b then [84;114;117;101] else [70;97;108;115;101]))
  | CNone | COther | CUnhash => Err ValueErr
  end.

(* ------------------------------------------------------------------ *)
(* _ColorSequences.make                                                 *)

Record fmtargs := mkArgs {
  a_color : color; a_bg : color;
  a_bold : bool; a_faint : bool; a_underline : bool; a_blink : bool; a_crossed : bool;
  a_nocolor : bool }.

Fixpoint join (sep : list Z) (l : list (list Z)) : list Z :=
  match l with
  | [] => []
  | [x] => x
  | x :: r => x ++ sep ++ join sep r
  end.

(* effect_codes is in the order bold, faint, underline, blink, crossed
   (checked by the extractor) *)
Definition eff_codes (a : fmtargs) : list (list Z) :=
  map snd (filter (fun p => fst p)
    (combine [a_bold a; a_faint a; a_underline a; a_blink a; a_crossed a] effect_codes)).

Definition opt_code (c : color) (is_bg : bool) : res (list (list Z)) :=
  match c with
  | CNone => Ok []
  | _ => bind (make_seq_element c is_bg) (fun p => Ok [p])
  end.

Definition color_codes (a : fmtargs) : res (list (list Z)) :=
  if a_nocolor a then Ok [] else
  bind (opt_code (a_color a) false) (fun l1 =>
  bind (opt_code (a_bg a) true) (fun l2 =>
  Ok (l1 ++ l2 ++ eff_codes a))).

(* str.encode(): UTF-8 (lone surrogates are never produced here) *)
Definition utf8_char (c : Z) : list Z :=
  if c <? 128 then [c]
  else if c <? 2048 then [192 + c / 64; 128 + c mod 64]
  else if c <? 65536 then [224 + c / 4096; 128 + (c / 64) mod 64; 128 + c mod 64]
  else [240 + c / 262144; 128 + (c / 4096) mod 64; 128 + (c / 64) mod 64; 128 + c mod 64].
Definition utf8 (s : list Z) : list Z := flat_map utf8_char s.

Definition make (a : fmtargs) (mk_bytes : bool) : res (list Z * list Z) :=
  bind (color_codes a) (fun codes =>
    let ps := match codes with
              | [] => ([], [])
              | _ => (seq_open ++ join seq_sep codes ++ seq_close, seq_reset)
              end in
    if mk_bytes then Ok (utf8 (fst ps), utf8 (snd ps)) else Ok ps).

(* ------------------------------------------------------------------ *)
(* chunks, CHText, rendering                                            *)

Record chunk := mkChunk { c_prefix : list Z; c_text : list Z; c_suffix : list Z }.

Definition chunk_str (c : chunk) : list Z := c_prefix c ++ c_text c ++ c_suffix c.

(* ColorFmt(...)(text) *)
Definition fmt_call (ps : list Z * list Z) (text : list Z) : chunk :=
  mkChunk (fst ps) text (snd ps).
Definition plain_chunk (text : list Z) : chunk := mkChunk [] text [].

(* CHText( *chunks ): _append_chunk drops empty texts and merges a chunk into the
   previous one when the prefixes are equal.  [cur] is the last element of
   self.chunks (None = the list is empty); the chunks before it are final. *)
Fixpoint norm (cur : option chunk) (cs : list chunk) : list chunk :=
  match cs with
  | [] => match cur with Some l => [l] | None => [] end
  | c :: r =>
      match c_text c with
      | [] => norm cur r
      | _ :: _ =>
          match cur with
          | None => norm (Some c) r
          | Some l =>
              if str_eqb (c_prefix c) (c_prefix l)
              then norm (Some (mkChunk (c_prefix l) (c_text l ++ c_text c) (c_suffix l))) r
              else l :: norm (Some c) r
          end
      end
  end.
Definition chtext_of (cs : list chunk) : list chunk := norm None cs.

Definition chtext_str (chunks : list chunk) : list Z := flat_map chunk_str chunks.
Definition plain_text (chunks : list chunk) : list Z := flat_map c_text chunks.
Definition scrlen (chunks : list chunk) : Z := Z.of_nat (length (plain_text chunks)).

(* ------------------------------------------------------------------ *)
(* strip_colors: re.sub(<strip_open>[<class>]*<strip_close>, "", text)  *)

(* \d of a str pattern also matches non-ASCII decimal digits; only ASCII ones
   are modelled (they are the only ones that can follow ESC [ in emitted text) *)
Definition in_class (c : Z) : bool :=
  existsb (fun r => (fst r <=? c) && (c <=? snd r)) strip_ranges || (strip_d && is_digit c).

(* greedy [class]* with backtracking, then the closing character: the match
   ends behind the LAST closing character that is preceded by class
   characters only.  [pos] = characters consumed so far. *)
Fixpoint scan (s : list Z) (pos : nat) (last : option nat) : option nat :=
  match s with
  | [] => last
  | c :: r =>
      let last' := if c =? strip_close then Some (S pos) else last in
      if in_class c then scan r (S pos) last' else last'
  end.

Fixpoint match_lit (lit s : list Z) : option (list Z) :=
  match lit, s with
  | [], _ => Some s
  | x :: lit', y :: s' => if x =? y then match_lit lit' s' else None
  | _ :: _, [] => None
  end.

(* length of the match starting at the head of s *)
Definition match_len (s : list Z) : option nat :=
  match match_lit strip_open s with
  | None => None
  | Some rest => scan rest (length strip_open) None
  end.

(* [k] = characters of the current match still to be dropped *)
Fixpoint strip_k (s : list Z) (k : nat) : list Z :=
  match s with
  | [] => []
  | c :: r =>
      match k with
      | S k' => strip_k r k'
      | O => match match_len s with
             | Some n => strip_k r (pred n)
             | None => c :: strip_k r O
             end
      end
  end.
Definition strip (s : list Z) : list Z := strip_k s O.
