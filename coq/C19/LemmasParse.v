(* C19/LemmasParse.v -- parse_args: sub-command dispatch, option scope as
   acceptance, default command; the concrete stand-in for argparse meets the
   hypotheses made about argparse. *)
From Coq Require Import ZArith List Bool Lia.
From AK Require Import gen.C19_Consts C19.Model C19.Lemmas C19.LemmasOps.
Import ListNotations.
Open Scope Z_scope.

Definition accepted (r : res' ns) : Prop := exists n, r = Ret n.

(* ------------------------------------------------------------------ *)
(* what is assumed about argparse (one command parser with the flags F
   and the positionals P added to it, beside the standard options)       *)

Record sub_spec (sub : subparser) : Prop := {
  (* "a parser accepts an option iff it was added to it" *)
  ss_flag : forall nl F P V o,
      mem (flag_str o) (std_option_strings nl) = false -> ~ In ch_eq o ->
      (sub nl F P V [flag_str o] <> None <-> In o F);
  ss_color : forall nl F P V,
      sub nl F P V [opt_color] <> None /\ sub nl F P V [opt_no_color] <> None /\
      forall v, In v color_choices -> sub nl F P V [opt_color ++ ch_eq :: v] <> None;
  ss_verbose : forall F P V,
      sub false F P V [opt_verbose_short] <> None /\ sub false F P V [opt_verbose_long] <> None;
  ss_empty : forall nl F P V, sub nl F P V [] <> None
}.

(* ------------------------------------------------------------------ *)
(* dispatch to a command                                                *)

Lemma parse_args_command sub c0 (st : state) dflt c rest pa :
  starts_dash c = false -> lookup c st = Some pa -> p_internal pa = false ->
  parse_args sub c0 st dflt (c :: rest) =
  match sub (c_no_log c0) (p_flags pa) (p_poss pa) (p_vals pa) rest with
  | Some s => Ret (finish c0 c s)
  | None => Raise SystemExit
  end.
Proof.
  intros Hd L Hi. unfold parse_args.
  assert (mem c (keys st) = true) as ->.
  { apply mem_In. apply lookup_some_in in L. unfold keys. apply (in_map fst) in L. exact L. }
  rewrite orb_true_r. unfold main_parse. rewrite Hd, L, Hi. reflexivity.
Qed.

Lemma accepted_command sub c0 (st : state) dflt c rest pa :
  starts_dash c = false -> lookup c st = Some pa -> p_internal pa = false ->
  (accepted (parse_args sub c0 st dflt (c :: rest)) <->
   sub (c_no_log c0) (p_flags pa) (p_poss pa) (p_vals pa) rest <> None).
Proof.
  intros Hd L Hi. rewrite (parse_args_command sub c0 st dflt c rest pa Hd L Hi).
  destruct (sub (c_no_log c0) (p_flags pa) (p_poss pa) (p_vals pa) rest) as [s|].
  - split; [discriminate|]. intros _. eexists. reflexivity.
  - split; [intros (n & E); discriminate|congruence].
Qed.

Lemma command_of_accepted sub c0 (st : state) dflt c rest pa n :
  starts_dash c = false -> lookup c st = Some pa -> p_internal pa = false ->
  parse_args sub c0 st dflt (c :: rest) = Ret n -> ns_command n = c.
Proof.
  intros Hd L Hi. rewrite (parse_args_command sub c0 st dflt c rest pa Hd L Hi).
  destruct (sub _ _ _ _ rest); [|discriminate]. intros [= <-]. reflexivity.
Qed.

Lemma NoDup_map_inj {A B} (f : A -> B) l a b :
  NoDup (map f l) -> In a l -> In b l -> f a = f b -> a = b.
Proof.
  induction l as [|x r IH]; intros ND Ha Hb E; [destruct Ha|].
  cbn [map] in ND. inversion ND as [|y l' Hy ND']. subst.
  destruct Ha as [->|Ha]; destruct Hb as [->|Hb]; auto.
  - exfalso. apply Hy. rewrite E. apply in_map. exact Hb.
  - exfalso. apply Hy. rewrite <- E. apply in_map. exact Ha.
Qed.

(* the state after the declarations and the add_argument calls *)
Definition configured (ds : list decl) (nl : bool) (ops : list op) (st' : state) : Prop :=
  exists st, build ds = Ret st /\ ops_ok ds nl ops /\ apply_ops nl st ops = Ret st'.

Lemma configured_command ds nl ops st' d :
  configured ds nl ops st' -> In d ds -> d_internal d = false ->
  exists pa, lookup (d_name d) st' = Some pa /\ p_internal pa = false /\
    forall t k o, In (t, k, o) ops ->
      (In o (p_list k pa) <-> in_scope ds t (d_name d)).
Proof.
  intros (st & B & OK & A) Hd Hi.
  destruct (option_scope_state_l ds st nl ops B OK) as (st2 & A2 & K & S).
  rewrite A in A2. inversion A2. subst st2. clear A2.
  assert (In (d_name d) (map fst st')) as Hk by (fold (keys st'); rewrite K; apply in_map; exact Hd).
  destruct (lookup_in_some _ _ Hk) as (pa & L). exists pa. split; [exact L|].
  apply lookup_some_in in L. destruct (S _ _ L) as ((d' & Hd' & En & Ei) & Sc).
  split; [|exact Sc].
  destruct (build_ret_wf ds st B) as (W & _).
  destruct (wf_from_facts [] ds W (NoDup_nil _)) as (ND & _). cbn [app] in ND.
  rewrite (NoDup_map_inj d_name ds d' d ND Hd' Hd En) in Ei. congruence.
Qed.

(* option scope, stated on what parse_args returns *)
Lemma option_scope_l sub : sub_spec sub ->
  forall ds c0 ops st' dflt d,
  configured ds (c_no_log c0) ops st' ->
  In d ds -> d_internal d = false -> starts_dash (d_name d) = false ->
  forall t o, In (t, KFlag, o) ops -> ~ In ch_eq o ->
  (accepted (parse_args sub c0 st' dflt [d_name d; flag_str o]) <-> in_scope ds t (d_name d)).
Proof.
  intros SS ds c0 ops st' dflt d C Hd Hi Hdash t o Ho Heq.
  destruct (configured_command ds _ ops st' d C Hd Hi) as (pa & L & Pi & Sc).
  rewrite (accepted_command sub c0 st' dflt _ _ pa Hdash L Pi).
  destruct C as (st & _ & (_ & F) & _).
  assert (mem (flag_str o) (std_option_strings (c_no_log c0)) = false) as Hstd.
  { rewrite Forall_forall in F. destruct (F _ Ho) as (_ & H). apply H. reflexivity. }
  rewrite (ss_flag sub SS _ _ _ _ o Hstd Heq). apply (Sc t KFlag o Ho).
Qed.

Lemma std_options_l sub : sub_spec sub ->
  forall ds c0 ops st' dflt d,
  configured ds (c_no_log c0) ops st' ->
  In d ds -> d_internal d = false -> starts_dash (d_name d) = false ->
  accepted (parse_args sub c0 st' dflt [d_name d]) /\
  accepted (parse_args sub c0 st' dflt [d_name d; opt_color]) /\
  accepted (parse_args sub c0 st' dflt [d_name d; opt_no_color]) /\
  (forall v, In v color_choices -> accepted (parse_args sub c0 st' dflt [d_name d; opt_color ++ ch_eq :: v])) /\
  (c_no_log c0 = false ->
   accepted (parse_args sub c0 st' dflt [d_name d; opt_verbose_short]) /\
   accepted (parse_args sub c0 st' dflt [d_name d; opt_verbose_long])).
Proof.
  intros SS ds c0 ops st' dflt d C Hd Hi Hdash.
  destruct (configured_command ds _ ops st' d C Hd Hi) as (pa & L & Pi & _).
  pose proof (fun rest => accepted_command sub c0 st' dflt _ rest pa Hdash L Pi) as AC.
  destruct (ss_color sub SS (c_no_log c0) (p_flags pa) (p_poss pa) (p_vals pa)) as (C1 & C2 & C3).
  split; [apply AC; apply (ss_empty sub SS)|].
  split; [apply AC; exact C1|]. split; [apply AC; exact C2|].
  split; [intros v Hv; apply AC; apply C3; exact Hv|].
  intros Hnl. rewrite Hnl in *.
  destruct (ss_verbose sub SS (p_flags pa) (p_poss pa) (p_vals pa)) as (V1 & V2).
  split; apply AC; assumption.
Qed.

(* ------------------------------------------------------------------ *)
(* default command                                                      *)

Lemma main_parse_unknown sub c0 (st : state) a r1 r2 :
  ~ In a (keys st) -> main_parse sub c0 st a r1 = main_parse sub c0 st a r2.
Proof.
  intros H. unfold main_parse. destruct (starts_dash a); [reflexivity|].
  apply lookup_none in H. rewrite H. reflexivity.
Qed.

(* arguments whose first element is neither a help option nor the name of a
   declared parser (command or internal set) are parsed as [d :: argv] *)
Lemma default_command_guarded_l sub c0 (st : state) d argv :
  ~ (argv = [] /\ c_help_if_no_args c0 = true) ->
  (forall a, hd_error argv = Some a -> ~ In a help_choices /\ ~ In a (keys st)) ->
  parse_args sub c0 st (Some d) argv = parse_args sub c0 st (Some d) (d :: argv).
Proof.
  intros Hh G. unfold parse_args at 2.
  destruct (mem d help_choices || mem d (keys st)) eqn:Ed.
  - (* d is known: no second insertion *)
    unfold parse_args. destruct argv as [|a r].
    + destruct (c_help_if_no_args c0); [exfalso; apply Hh; auto|reflexivity].
    + destruct (G a eq_refl) as (G1 & G2). apply mem_false in G1, G2. rewrite G1, G2. reflexivity.
  - apply orb_false_elim in Ed as (_ & Ed). apply mem_false in Ed.
    rewrite (main_parse_unknown sub c0 st d (d :: argv) argv Ed).
    unfold parse_args. destruct argv as [|a r].
    + destruct (c_help_if_no_args c0); [exfalso; apply Hh; auto|].
      apply main_parse_unknown. exact Ed.
    + destruct (G a eq_refl) as (G1 & G2). apply mem_false in G1, G2. rewrite G1, G2. reflexivity.
Qed.

(* ... i.e. by the parser of the default command *)
Lemma default_command_subparse_l sub c0 (st : state) d argv pa :
  ~ (argv = [] /\ c_help_if_no_args c0 = true) ->
  (forall a, hd_error argv = Some a -> ~ In a help_choices /\ ~ In a (keys st)) ->
  starts_dash d = false -> lookup d st = Some pa -> p_internal pa = false ->
  parse_args sub c0 st (Some d) argv =
  match sub (c_no_log c0) (p_flags pa) (p_poss pa) (p_vals pa) argv with
  | Some s => Ret (finish c0 d s)
  | None => Raise SystemExit
  end.
Proof.
  intros Hh G Hd L Hi. rewrite (default_command_guarded_l sub c0 st d argv Hh G).
  apply parse_args_command; assumption.
Qed.

(* the default is the first declared command that is not an internal set *)
Lemma init_default_l cmds st d :
  init_multicmd cmds None = Ret (st, d) -> d = hd_error (command_names st).
Proof.
  unfold init_multicmd. destruct cmds; [discriminate|].
  destruct (build _); cbn [bind']; [|discriminate]. intros [= <- <-]. reflexivity.
Qed.

Lemma init_ok_l cmds dflt :
  cmds <> [] -> wf (map parse_decl cmds) ->
  exists st d, init_multicmd cmds dflt = Ret (st, d) /\ build (map parse_decl cmds) = Ret st.
Proof.
  intros Hn W. destruct (build_ok _ W) as (st & E & _).
  unfold init_multicmd. destruct cmds; [congruence|]. rewrite E. cbn [bind']. eauto.
Qed.

Lemma init_raise_l cmds dflt x :
  init_multicmd cmds dflt = Raise x -> x = AssertionError /\ (cmds = [] \/ ~ wf (map parse_decl cmds)).
Proof.
  unfold init_multicmd. destruct cmds as [|c r]; [intros [= <-]; auto|].
  destruct (build (map parse_decl (c :: r))) eqn:E; cbn [bind']; [discriminate|].
  intros [= <-]. destruct (build_raise _ _ E) as (-> & N). auto.
Qed.

(* ------------------------------------------------------------------ *)
(* the concrete stand-in satisfies the hypotheses made about argparse    *)

Lemma mem_false_each x l : mem x l = false -> forall s, In s l -> str_eqb x s = false.
Proof.
  intros H s Hs. apply str_eqb_neq. intros ->. apply mem_false in H. contradiction.
Qed.

Lemma strip_prefix_some p : forall s r, strip_prefix p s = Some r -> s = p ++ r.
Proof.
  induction p as [|x p IH]; intros s r; cbn [strip_prefix app].
  - intros [= ->]. reflexivity.
  - destruct s as [|y s]; [discriminate|].
    destruct (Z.eqb_spec x y) as [->|N]; [|discriminate]. intros H. rewrite (IH _ _ H). reflexivity.
Qed.

Lemma strip_prefix_app p r : strip_prefix p (p ++ r) = Some r.
Proof. induction p as [|x p IH]; cbn [strip_prefix app]; [reflexivity|]. rewrite Z.eqb_refl. exact IH. Qed.

Lemma opt_color_dashes : exists w, opt_color = ch_dash :: ch_dash :: w.
Proof. eexists. reflexivity. Qed.

Lemma verbose_letter_not_dash : (verbose_letter =? ch_dash) = false.
Proof. vm_compute. reflexivity. Qed.

Lemma std_strings_have nl :
  In opt_color (std_option_strings nl) /\ In opt_no_color (std_option_strings nl) /\
  (nl = false -> In opt_verbose_long (std_option_strings nl)).
Proof.
  unfold std_option_strings. destruct nl; cbn [app In]; repeat split; auto 10. discriminate.
Qed.

Definition acc0 : acc := mkAcc 0 (CStr color_default) false false [] [] BNone [].

(* a flag name that add_argument accepts: not a standard option string, no '=' *)
Definition user_flag (nl : bool) (o : str) : Prop :=
  mem (flag_str o) (std_option_strings nl) = false /\ ~ In ch_eq o.

Definition push_flag (o : str) (a : acc) : acc :=
  mkAcc (a_verbose a) (a_color a) (a_seen_color a) (a_no_color a) (o :: a_set a) (a_words a)
        (match a_blk a with BOpen => BClosed | b => b end) (a_given a).

Lemma split_first_absent sep s : ~ In sep s -> split_first sep s = None.
Proof.
  induction s as [|c r IH]; intros H; cbn [split_first]; [reflexivity|].
  destruct (Z.eqb_spec c sep) as [->|N]; [exfalso; apply H; left; reflexivity|].
  rewrite IH; [reflexivity|]. intros Hi. apply H. right. exact Hi.
Qed.

(* one token '--o' where o is not a standard option and has no '=':
   a flag of the parser, a value option (takes the next argument), or an error *)
Lemma mini_go_opt_step nl F P V o r a :
  user_flag nl o ->
  mini_go nl F P V (flag_str o :: r) a =
  if mem o F then mini_go nl F P V r (push_flag o a)
  else if mem o V
       then match r with
            | y :: r' => if starts_dash y then None else mini_go nl F P V r' (give o y (close_blk a))
            | [] => None
            end
       else None.
Proof.
  intros (Hstd & Heq).
  destruct (std_strings_have nl) as (I1 & I2 & I3).
  pose proof (mem_false_each _ _ Hstd) as E.
  assert (strip_prefix (opt_color ++ [ch_eq]) (flag_str o) = None) as Hsp.
  { destruct (strip_prefix (opt_color ++ [ch_eq]) (flag_str o)) as [r0|] eqn:Es; [|reflexivity].
    exfalso. apply strip_prefix_some in Es. destruct opt_color_dashes as (w & Ew).
    rewrite Ew in Es. unfold flag_str in Es. cbn [app] in Es. inversion Es as [Eo].
    apply Heq. rewrite Eo. rewrite <- app_assoc. apply in_or_app. right. left. reflexivity. }
  cbn [mini_go]. replace (starts_dash (flag_str o)) with true by reflexivity. cbn [negb].
  rewrite (E _ I1), Hsp, (E _ I2).
  assert ((negb nl && str_eqb (flag_str o) opt_verbose_long) = false) as ->.
  { destruct nl; [reflexivity|]. cbn [negb andb]. apply E. apply I3. reflexivity. }
  assert ((if nl then None else short_verbose_count (flag_str o)) = None) as ->.
  { destruct nl; [reflexivity|]. unfold short_verbose_count, flag_str.
    replace (ch_dash =? ch_dash) with true by reflexivity. cbn [andb forallb].
    rewrite verbose_letter_not_dash. reflexivity. }
  replace (strip_prefix [ch_dash; ch_dash] (flag_str o)) with (Some o)
    by (symmetry; apply (strip_prefix_app [ch_dash; ch_dash] o)).
  destruct (mem o F); [reflexivity|]. destruct (mem o V); [reflexivity|].
  rewrite (split_first_absent ch_eq o Heq). reflexivity.
Qed.

Lemma mini_go_flag nl F P V o a :
  mem (flag_str o) (std_option_strings nl) = false -> ~ In ch_eq o ->
  mini_go nl F P V [flag_str o] a <> None <-> In o F.
Proof.
  intros Hstd Heq. rewrite (mini_go_opt_step nl F P V o [] a (conj Hstd Heq)).
  destruct (mem o F) eqn:Em.
  - split; [intros _; apply mem_In; exact Em|discriminate].
  - assert ((if mem o V then @None acc else None) = None) as -> by (destruct (mem o V); reflexivity).
    split; [congruence|]. intros H. apply mem_In in H. congruence.
Qed.

Lemma mini_sub_some nl F P V args : mini_sub nl F P V args <> None <-> mini_go nl F P V args acc0 <> None.
Proof.
  unfold mini_sub. fold acc0. destruct (mini_go nl F P V args acc0); split; congruence.
Qed.

Lemma mini_sub_spec : sub_spec mini_sub.
Proof.
  constructor.
  - intros nl F P V o H1 H2. rewrite mini_sub_some. apply mini_go_flag; assumption.
  - intros nl F P V. split; [|split].
    + destruct nl; vm_compute; discriminate.
    + destruct nl; vm_compute; discriminate.
    + intros v Hv. unfold color_choices in Hv. cbn [In] in Hv.
      repeat (destruct Hv as [<-|Hv]; [destruct nl; vm_compute; discriminate|]). destruct Hv.
  - intros F P V. split; vm_compute; discriminate.
  - intros nl F P V. vm_compute. discriminate.
Qed.

(* obligations on the literals read from the source *)
Lemma help_choices_dashed : forallb starts_dash help_choices = true.
Proof. vm_compute. reflexivity. Qed.

Lemma help_appended_is_help : mem help_appended help_choices = true.
Proof. vm_compute. reflexivity. Qed.

Lemma color_default_is_choice : mem color_default color_choices = true.
Proof. vm_compute. reflexivity. Qed.

(* ------------------------------------------------------------------ *)
(* the unguarded default-command statement is false for the current code *)

Definition w_cmds : list str := [[99; 97]; [33; 115; 97]].            (* 'ca', '!sa' *)
Definition w_ops : list op := [(TCmd [99; 97], KPos, [112; 97; 97])]. (* get_cmd_parser('ca').add_argument('paa', nargs='*') *)
Definition w_argv : list str := [[115; 97]].                          (* ['sa'] *)
Definition cfg0 : cfg := mkCfg false false false.

Lemma default_internal_name_refuted_l :
  exists st d st',
    init_multicmd w_cmds None = Ret (st, Some d) /\
    apply_ops false st w_ops = Ret st' /\
    (forall a, hd_error w_argv = Some a -> ~ In a help_choices /\ ~ In a (command_names st')) /\
    parse_args mini_sub cfg0 st' (Some d) w_argv = Raise SystemExit /\
    accepted (parse_args mini_sub cfg0 st' (Some d) (d :: w_argv)).
Proof.
  eexists. eexists. eexists. split; [vm_compute; reflexivity|]. split; [vm_compute; reflexivity|].
  split; [|split].
  - intros a [= <-]. split; vm_compute; intros H; repeat (destruct H as [H|H]; [discriminate|]); exact H.
  - vm_compute. reflexivity.
  - eexists. vm_compute. reflexivity.
Qed.
