"""C02  Conflict-free (LL(1)) grammars are parsed exactly (ak/llparser.py)"""
import itertools
import json
import re

from harness.lib import sx as SX
from harness.props import llp_common as L
from harness.props import c01 as _C01     # LINE_BREAKISH / ODD_SPACE / _odd_core / _odd_trail: the odd-character lexemes of C01's texts

ID = "C02"
COQ_DIR = "C02"
EXTRA_COQ_DIRS = ["LLP", "C01"]
RUN_MOD = "C02.Run"
MODEL_TARGETS = ["C02/Run.vo"]
PROOF_TARGETS = ["C02/Lemmas.vo"]
PROPS = ["C02/Props.v", "C02/PropsTok.v", "C02/PropsAny.v"]
ALLOWED_AXIOMS = []
IMPL_TIMEOUT = 30.0
COQ_SHARD = 6
FUEL = L.FUEL

RULE = ("grammars: (a) generator biased to LL(1) (distinct leading terminals, at most one nullable alternative, nullable "
        "chains), rejection-sampled by an independent FIRST/FOLLOW/PREDICT computation; (b) the family 'nullable symbol "
        "followed by a nullable symbol that has foreign followers' (E->s S|t T; S->X N a; T->N b; X->eps|b q; N->n|eps "
        "with random names, order of alternatives, extra nullable links, LL(1) and non-LL(1) members), chains of 'last symbol' FOLLOW dependencies in random key order, LL(1) grammars with one injected conflict (FIRST/FIRST, FIRST/FOLLOW, two nullable alternatives); (c) the general "
        "C01 generator (common prefixes, ambiguity) for the clause 'whenever is_ambiguous() is False'; never left "
        "recursive (independent check); (d) LL(1) grammars in which one alternative got an adjacent sibling with a common prefix so "
        "that the left-factored grammar is LL(1) (prefix of one terminal: the shape smart_factorization undoes, the two settings "
        "then build different tables; or longer / starting with a non-terminal).  Every case carries a PROGRAM over two parser "
        "objects that are constructed from ONE productions dict with smart_factorization False and True (random order; one after "
        "the other, both first and interleaved, the second in the middle of the first one's life, or the first one re-built at the "
        "end): is_ambiguous() is asked right after construction, between parse() calls (after accepted and after rejected texts) "
        "and at the end, every input is parsed once and some again (one of them twice in a row) on each object, one or two "
        "parse(text, start_symbol_name=<a symbol>) calls in between (the debugging aid must not redirect later calls), every returned "
        "tree is taken apart by the caller before the next call.  Inputs per "
        "grammar: sampled sentences, sentences with one token inserted/deleted/replaced, random and short token strings; "
        "membership decided by an Earley recogniser, the expected tree by an independent enumeration of derivations.  "
        "(e) TOKENIZER CONFIGURATIONS (family tok, 110 quick / 700 thorough; in (a)-(d) every parser is built with the plain "
        "tokenizer of llp_common, where SPACE is skipped by default and never a terminal, so that skip_tokens cannot matter): a random "
        "configuration in the pattern language of coq/C04/Model.v -- white space as group SPACE / WS renamed to SPACE by synonyms / WS "
        "not renamed, end-of-line comments as COMMENT / REM renamed to COMMENT / REM / none, WORD, NUM, one-character literals (some "
        "renamed to themselves), optionally the keyword (WORD, if) -> IF; in half of the configurations the names of pattern groups, "
        "synonym targets and keyword tokens OVERLAP (words from groups LW / UW renamed to WORD with keywords keyed by the synonym target "
        "WORD and decoy entries keyed by the renamed group; a keyword token named like the renamed group; the synonym chain "
        "CAP -> NUM, NUM -> INT, which is applied once) and the grammar uses such names -- and a skip_tokens argument whose MEANING is: None (20%), "
        "an EMPTY collection = skip nothing (30%), the white-space class, the comment class, the default spelled out, ANOTHER class "
        "only (blanks and comments stay), white space + another class; PASSED as omitted / None / list / set / tuple / frozenset; "
        "synonyms / keywords / span_matchers omitted, None or a dict ({} when there are none), keep_symbols omitted / None / set() / [], "
        "start_symbol_name passed, or omitted with a start symbol named 'E' (20%), or a symbol named '' (30%: the start symbol -- then "
        "another symbol is named 'E' -- or another symbol, which is then also used in parse(text, start_symbol_name='')).  The grammar: "
        "blank- / comment-significant LL(1) shapes (E -> ITEM TAIL; TAIL -> SPACE ITEM TAIL | eps; optional blanks around separators; "
        "lines ended by comments) or a grammar of (a), (b), (d) / with one injected conflict whose terminals are renamed injectively "
        "to the token names that are NOT skipped, white space and comments first.  Texts are rendered from a KNOWN token sequence "
        "(sentences, perturbed sentences, random strings, blanks inserted where the grammar has none; tokens of the skipped classes "
        "thrown in; newlines where two lexemes would merge; no white-space token at the end of a line, where the tokenizer strips it); "
        "the expected token sequence after skipping is the generator's own, never the library's; membership and the expected tree "
        "are computed from it (Earley, enumeration of derivations).  The same programs over two objects as above, all constructor "
        "calls with the SAME argument objects (which must be unchanged afterwards).  ODD CHARACTERS INSIDE TOKENS (since round 4b): "
        "the white-space class has lexemes with the characters at which str.splitlines() but not split('\\n') cuts (VT, FF, FS, GS, "
        "RS, NEL, U+2028, U+2029, a lone CR) and other non-ASCII white space; 55% of the configurations have a free-text class "
        "(REST / renamed TEXT: marker and the rest of the line), 45% a quoted-string class (DQ / renamed STRING), comments get such "
        "lexemes too (C01's _odd_core / _odd_trail: the characters inside the token, white space of any kind at the line end where "
        "rstrip() removes it); free-text classes are preferred when the grammar's terminals are renamed to token names.  "
        "(f) ANYTOKENEXCEPT / SHARED PRODUCTIONS (family any, 28 quick / 200 thorough): a tok grammar gets one or two "
        "AnyTokenExcept(*excluded) items (excluded: at least the leading terminals of the symbol's other productions -- then the "
        "set order of the produced rules is unobservable --, mostly also their FIRST / FOLLOW so that the expanded grammar is LL(1); "
        "equal items of two symbols are one object); TWO tokenizer configurations that differ in one or two token names which "
        "neither the grammar nor an item mentions (the richer one's items produce them); ONE productions dict with the same item "
        "objects for all parsers; per configuration a program over two objects (as above) on texts rendered from ITS expanded "
        "grammar; the two programs are executed poorer-first or richer-first, one after the other, the first one continued after "
        "the second, or interleaved in chunks.  Every session is judged against the grammar expanded with its own token names.  "
        "Non-trivial = distinct case, both constructors succeed, is_ambiguous() False for at least one setting, the grammar has a "
        "nullable symbol, at least one member and one non-member among the inputs.")
TRUSTED_BASE = [
    "plain cases (a)-(d): tokenisation is outside the model: the model's parse receives the generator's token list (names, "
    "values); the implementation tokenises the rendered text itself.  tok cases (e): the model tokenises the text itself with the "
    "tokenizer model coq/C04/Model.v (owned by C04; patterns restricted to its pattern language) inside C01's end-to-end model "
    "C01/RunTok.v (build_cfg, text_tokens, parse_text; read-only here), and its token sequence is compared with the generator's",
    "re (CPython): pattern.match(line, col) returns the first alternative that matches at col; gen/C04_Consts.v (white space "
    "table, the default skip list and the test `skip_tokens is None` in front of it, $END$ name) is regenerated from the current "
    "source by harness/props/c04.py:gen_consts, fail closed",
    "which Python values of the constructor's optional arguments mean 'not given' is not part of the Coq model (the model has "
    "skip : option (list sym) and an explicit start symbol): that None and only None selects a default -- for skip_tokens=[] / set() / "
    "() / frozenset(), synonyms={}, keywords={}, span_matchers={}, keep_symbols=set() / [], start_symbol_name='' , "
    "parse(text, start_symbol_name='') -- is what the harness's translation of the case into both worlds asserts and the "
    "correspondence + oracle of the tok cases test on every run",
    "AnyTokenExcept: the ORDER of the produced one-token rules (iteration order of a Python set) is not modelled -- the model takes the "
    "order of cfg_terminals; the generated cases keep to grammars where it is unobservable (no other production of the symbol starts with "
    "a produced terminal; no internal tables are compared for these cases); the item's two GrammarErrors are in the model "
    "(Example ex_any_expansions) but not generated; an item is a VALUE in the model (C02/AnyExcept.v) -- that the implementation's item "
    "objects and the shared productions dict carry nothing from one constructor call to the next is what the Phases cases check per run",
    "GrammarError checks of _verify_grammar_structure_part1 are outside the model; the model-side validator wf_grammar "
    "(keys distinct and no terminals, rules stored under their own symbol, only known symbols, start symbol is a key, "
    "$END$ is a terminal) is evaluated on every built grammar by C02.Run and must be true (it is the hypothesis of the theorems)",
    "a parser OBJECT is a parser VALUE in the model (C02/Session.v: the methods take the parser and hand it back unchanged, "
    "parse_does_not_change_tables; session_history_independent: every observation of a program equals the one a never-used object "
    "gives).  That the implementation's objects have no other state (parse_table, prods_map, tokenizer, the productions dict are "
    "left as they were found by parse(), is_ambiguous() and by a second constructor call) is not proved: it is what the per-run "
    "correspondence of whole programs checks",
    "ll1_reject / parse_returns_derivation import C01.Props.parse_sound_constructor (proved in coq/C01 for every parser the "
    "constructor model accepts, checked by C01's own run); hyps_ok is still evaluated by C02.Run on every grammar as a cross-check",
]
ASSUMPTIONS = ["grammars use plain productions (templates are C05's subject)",
               "grammars are not left recursive (C03's subject); the generator filters with an independent check"]
MODELLED = ("ak/llparser.py: _get_nullables, _calc_first_sets, _calc_follow_sets, _make_llone_table, is_ambiguous "
            "(coq/LLP/Table.v), together with the shared models of factorization, recursion check and the parse loop; "
            "programs of constructor / is_ambiguous / parse calls on two objects built from one productions dict (coq/C02/Session.v); "
            "the same programs on parsers built with a tokenizer configuration and a skip_tokens argument and used on texts "
            "(coq/C02/SessionTok.v over C01/RunTok.v: LLParser.__init__ 1574-1587 default / explicit skip_tokens, the filter of "
            "parse() 1654-1657, _Tokenizer.tokenize incl. the cut into lines at '\\n' only); AnyTokenExcept.get_tokens 1356-1370 + "
            "_make_prod_rules_list 2389-2422 (coq/C02/AnyExcept.v: expand_ug, t_build_any; several sessions on one productions value)")


def gen_consts(repo):
    """C02/SessionTok.v and C02/PropsTok.v import C01's end-to-end model (C01/RunTok.v) over the tokenizer model
    coq/C04/Model.v.  Both need constants read from the current source, fail closed: gen/C04_Consts.v by C04's extractor
    ($END$ name, the default skip list and the shape `if skip_tokens is None:` in front of it, white space table) and
    gen/C01_Consts.v by C01's (how the tokenizer stores the synonyms / keywords dicts); C01's gen_consts delivers both"""
    from harness.props import c01
    return c01.gen_consts(repo)


# ------------------------------------------------------------------ reference: derivation trees (independent)
def ref_trees(prods, start, toks, limit=2):
    """up to `limit` derivation trees of the token list `toks` ([name, value]) from `start`,
    in the observation format of llp_common.tree_obs.  Needs a grammar without left recursion."""
    n = len(toks)
    memo = {}
    active = set()

    def sym_trees(sym, i, j):
        if sym not in prods:
            if j == i + 1 and toks[i][0] == sym:
                return [[0, sym, toks[i][1]]]
            return []
        key = (sym, i, j)
        if key in memo:
            return memo[key]
        if key in active:      # cannot happen without left recursion
            return []
        active.add(key)
        out = []
        for alt in prods[sym]:
            for kids in seq_trees(tuple(alt), i, j):
                out.append([1, sym, kids])
                if len(out) >= limit:
                    break
            if len(out) >= limit:
                break
        active.discard(key)
        memo[key] = out
        return out

    def seq_trees(alt, i, j):
        if not alt:
            return [[]] if i == j else []
        out = []
        if len(alt) == 1:
            return [[t] for t in sym_trees(alt[0], i, j)]
        for k in range(i, j + 1):
            heads = sym_trees(alt[0], i, k)
            if not heads:
                continue
            tails = seq_trees(alt[1:], k, j)
            for h in heads:
                for t in tails:
                    out.append([h] + t)
                    if len(out) >= limit:
                        return out
        return out
    return sym_trees(start, 0, n)


def ref_tables(prods, start):
    """independent nullable / FIRST / FOLLOW / PREDICT"""
    nul, first, follow, first_seq = L.ref_first_follow(prods, start)
    predict = {}
    for nt, alts in prods.items():
        for k, a in enumerate(alts):
            f, alln = first_seq(a)
            p = set(f)
            if alln:
                p |= follow[nt]
            predict[(nt, k)] = p
    return nul, first, follow, predict


# ------------------------------------------------------------------ generators
NT_POOL = [chr(c) for c in range(ord("A"), ord("Z") + 1)] + ["AA", "AB", "ZA", "E1", "Q_R"]


def _mk(nts, terms, prods, start):
    return {"nts": list(nts), "terms": list(terms),
            "prods": [[nt, [list(a) for a in prods[nt]]] for nt in nts], "start": start, "smart": False}


def gen_ll1_candidate(rng):
    n_nt = rng.randint(2, 6)
    n_t = rng.randint(2, 6)
    nts = rng.sample(NT_POOL, n_nt)
    terms = list(L.T_NAMES[:n_t])
    prods = {}
    for idx, nt in enumerate(nts):
        later = nts[idx + 1:]
        n_alts = rng.randint(1, 4)
        lead_terms = list(terms)
        rng.shuffle(lead_terms)
        alts = []
        have_nullable = False
        for _ in range(n_alts):
            r = rng.random()
            if r < 0.55 and lead_terms:
                head = [lead_terms.pop()]
            elif r < 0.8 and later:
                head = [rng.choice(later)]
            elif not have_nullable:
                have_nullable = True
                # empty alternative or a chain of later (possibly nullable) symbols
                head = [] if (rng.random() < 0.6 or not later) else [rng.choice(later) for _ in range(rng.randint(1, 2))]
                alts.append(tuple(head))
                continue
            elif lead_terms:
                head = [lead_terms.pop()]
            else:
                continue
            tail = []
            for _ in range(rng.randint(0, 3)):
                tail.append(rng.choice(terms) if rng.random() < 0.5 else rng.choice(nts))
            if later and rng.random() < 0.25:
                # a (possibly nullable) prefix of later symbols in front of the leading symbol
                head = [rng.choice(later) for _ in range(rng.randint(1, 2))] + head
            alt = tuple(head + tail)
            if alt not in alts:
                alts.append(alt)
        if not alts:
            alts = [(rng.choice(terms),)]
        prods[nt] = alts
    return _mk(nts, terms, prods, nts[0])


def gen_follow_family(rng):
    """nullable symbol X followed by a nullable symbol N; N has a follower (b) elsewhere that X starts with."""
    names = rng.sample(NT_POOL, 7)
    E, S, T, X, N, M, U = names
    letters = list(L.T_NAMES)
    rng.shuffle(letters)
    s, t, a, b, q, n = letters
    terms = sorted(letters)
    x_alts = [(), (b, q)] if rng.random() < 0.7 else [(), (b,)]
    if rng.random() < 0.5:
        x_alts.reverse()
    n_alts = [(n,), ()]
    if rng.random() < 0.5:
        n_alts.reverse()
    prods = {}
    variant = rng.choice(["plain", "plain", "extra_null", "via_follow", "legit_conflict", "tail"])
    prods[E] = [(s, S), (t, T)]
    if variant == "plain":
        prods[S] = [(X, N, a)]
        prods[T] = [(N, b)]
        nts = [E, S, T, X, N]
    elif variant == "extra_null":
        prods[S] = [(X, N, M, a)]
        prods[T] = [(N, b)]
        prods[M] = [(), (q,)] if rng.random() < 0.5 else [()]
        nts = [E, S, T, X, N, M]
    elif variant == "via_follow":
        # b follows N only through FOLLOW(T): U -> T b
        prods[E] = [(s, S), (t, U)]
        prods[U] = [(T, b)]
        prods[S] = [(X, N, a)]
        prods[T] = [(a, N)]
        nts = [E, S, U, T, X, N]
    elif variant == "legit_conflict":
        # here b really follows X: not LL(1)
        prods[S] = [(X, N, b)]
        prods[T] = [(N, b)]
        nts = [E, S, T, X, N]
    else:
        # X N at the very end: FOLLOW(X) includes FOLLOW(S)
        prods[E] = [(s, S, a), (t, T)]
        prods[S] = [(X, N)]
        prods[T] = [(N, b)]
        nts = [E, S, T, X, N]
    prods[X] = x_alts
    prods[N] = n_alts
    if rng.random() < 0.5:
        head, rest = nts[0], nts[1:]
        rng.shuffle(rest)
        nts = [head] + rest
    if rng.random() < 0.3:
        rng.shuffle(nts)
    return _mk(nts, terms, prods, E)


def gen_follow_chain(rng):
    """FOLLOW must travel along a chain of 'last symbol' dependencies:  S -> A x ; A -> y B ; B -> z C ; C -> eps | w
    (random depth, random order of the keys, optional nullable tails behind the last symbol)."""
    depth = rng.randint(2, 4)
    names = rng.sample(NT_POOL, depth + 3)
    S, chain, Z = names[0], names[1:depth + 2], names[depth + 2]
    letters = list(L.T_NAMES)
    rng.shuffle(letters)
    x, w = letters[0], letters[1]
    lead = letters[2:]
    prods = {S: [(chain[0], x)] if rng.random() < 0.7 else [(chain[0], x), (x, S)]}
    use_z = rng.random() < 0.4
    for i in range(depth):
        a, b = chain[i], chain[i + 1]
        t = lead[i % len(lead)]
        alt = (t, b, Z) if (use_z and rng.random() < 0.5) else (t, b)
        alts = [alt]
        if rng.random() < 0.3:
            alts.append((w, w))
        prods[a] = alts
    prods[chain[-1]] = [(), (w,)] if rng.random() < 0.5 else [(w,), ()]
    nts = [S] + chain
    if use_z:
        prods[Z] = [()]
        nts.append(Z)
    head, rest = nts[0], nts[1:]
    rng.shuffle(rest)
    nts = [head] + rest
    if rng.random() < 0.5:
        rng.shuffle(nts)
    return _mk(nts, sorted(letters), prods, S)


def gen_one_conflict(rng):
    """an LL(1) grammar with one injected conflict: FIRST/FIRST through a helper symbol, FIRST/FOLLOW through an
    added empty alternative, or two nullable alternatives (conflict in the FOLLOW columns, e.g. $END$ only)."""
    for _ in range(200):
        g = gen_ll1_candidate(rng)
        p = _plain(g)
        if L.ref_left_recursive(p) or not L.ref_is_ll1(p, g["start"]):
            continue
        prods = {nt: [tuple(a) for a in alts] for nt, alts in g["prods"]}
        nts = list(g["nts"])
        kind_ = rng.choice(["first_first", "first_follow", "two_nullable"])
        free = [n for n in NT_POOL if n not in nts]
        if kind_ == "first_first":
            cands = [(nt, a) for nt, alts in prods.items() for a in alts if a and a[0] in g["terms"]]
            if not cands:
                continue
            nt, a = rng.choice(cands)
            z = rng.choice(free)
            prods[z] = [(a[0], rng.choice(g["terms"]))]
            prods[nt] = prods[nt] + [(z, rng.choice(g["terms"]))]
            nts.insert(rng.randint(0, len(nts)), z)
        elif kind_ == "first_follow":
            nul, first, follow, _ = L.ref_first_follow(p, g["start"])
            cands = [nt for nt in nts if nt not in nul and first[nt] & follow[nt]]
            if not cands:
                continue
            nt = rng.choice(cands)
            prods[nt] = prods[nt] + [()]
        else:
            nul = L.ref_nullable(p)
            cands = [nt for nt in nts if nt in nul]
            if not cands:
                continue
            nt = rng.choice(cands)
            z = rng.choice(free)
            prods[z] = [()]
            prods[nt] = prods[nt] + [(z,)]
            nts.append(z)
        g2 = _mk(nts, g["terms"], prods, g["start"])
        if L.ref_left_recursive(_plain(g2)) or _has_duplicate_alts(g2):
            continue
        return g2
    return gen_follow_family(rng)


def _left_factor(prods):
    """textbook left factoring of ADJACENT alternatives with the same first symbol (used by the generator for rejection
    sampling only, never as an oracle): A -> p x | p y  becomes  A -> p A'k ; A'k -> x | y, recursively."""
    out = {}
    counter = [0]

    def factor(nt, alts):
        res = []
        i = 0
        while i < len(alts):
            j = i + 1
            while j < len(alts) and alts[i] and alts[j] and alts[j][0] == alts[i][0]:
                j += 1
            chunk = alts[i:j]
            if len(chunk) == 1:
                res.append(chunk[0])
            else:
                n = 0
                while all(len(a) > n for a in chunk) and len({a[n] for a in chunk}) == 1:
                    n += 1
                counter[0] += 1
                z = f"{nt}'{counter[0]}"
                res.append(chunk[0][:n] + (z,))
                factor(z, [a[n:] for a in chunk])
            i = j
        out[nt] = res
    for nt, alts in prods.items():
        factor(nt, [tuple(a) for a in alts])
    return out


def gen_common_prefix(rng):
    """an LL(1) grammar in which one alternative got one or two adjacent siblings with a common prefix, chosen so that the
    LEFT-FACTORED grammar is LL(1) (independent check): not LL(1) as written, conflict-free once the constructor has
    factorized it.  Prefix of one terminal (the shape smart_factorization undoes again, so the two settings build
    different tables from the one productions dict) or longer / starting with a non-terminal; with two siblings the
    three alternatives share prefixes of different lengths, in every order (the one that diverges first in the middle,
    first or last); half of those are kept even when the factored grammar still has a conflict."""
    for _ in range(900):
        g = gen_ll1_candidate(rng)
        p = _plain(g)
        if L.ref_left_recursive(p) or not L.ref_is_ll1(p, g["start"]):
            continue
        cands = [(nt, k) for nt, alts in p.items() for k, a in enumerate(alts) if a]
        if not cands:
            continue
        nt, k = rng.choice(cands)
        alts = p[nt]
        alt = alts[k]

        def rand_tail():
            return tuple((rng.choice(g["terms"]) if rng.random() < 0.7 else rng.choice(g["nts"]))
                         for _ in range(rng.randint(0, 2)))
        j = rng.randint(1, len(alt))
        if alt[0] in g["terms"] and rng.random() < 0.6:
            j = 1
        if rng.random() < 0.4:
            if len(alt) < 2:
                continue
            j = rng.randint(1, len(alt) - 1)               # one sibling leaves the common prefix early,
            group = [alt, alt[:j] + rand_tail(), alt[:rng.randint(j + 1, len(alt))] + rand_tail()]     # the other late
        else:
            group = [alt, alt[:j] + rand_tail()]
        if len(set(group)) != len(group) or any(a in alts for a in group[1:]):
            continue
        rng.shuffle(group)
        prods = dict(p)
        prods[nt] = alts[:k] + group + alts[k + 1:]
        g2 = _mk(g["nts"], g["terms"], prods, g["start"])
        if L.ref_left_recursive(_plain(g2)) or _has_duplicate_alts(g2):
            continue
        if len(group) == 3 and rng.random() < 0.5:
            # prefixes of different lengths inside one group: whatever the (adjacent-only) factorization makes of it,
            # is_ambiguous() and the language are compared with the model and judged by the oracle
            return g2
        fact = _left_factor(prods)
        if L.ref_left_recursive(fact) or not L.ref_is_ll1(fact, g["start"]):
            continue
        return g2
    return gen_ll1_candidate(rng)


def _has_duplicate_alts(g):
    return any(len(set(map(tuple, alts))) != len(alts) for _, alts in g["prods"])


def _plain(g):
    return {nt: [tuple(a) for a in alts] for nt, alts in g["prods"]}


def gen_inputs(rng, g, n_base=13, n_short=7):
    inputs = L.gen_inputs(rng, g, n_base)
    terms = g["terms"]
    for _ in range(n_short):
        s = [rng.choice(terms) for _ in range(rng.randint(0, 3))]
        inputs.append([[t, t + (str(rng.randint(0, 9)) if rng.random() < 0.3 else "")] for t in s])
    seen, out = set(), []
    for s in inputs:
        k = tuple(map(tuple, s))
        if k not in seen:
            seen.add(k)
            out.append(s)
    return out


# ------------------------------------------------------------------ family "tok": the tokenizer configuration is part of the case
# The plain cases above build every parser with llp_common.tokenizer_str (SPACE skipped by default, never a terminal of the
# grammar), so "the token sequence of the text" never depends on skip_tokens there.  A tok case carries
#   case["tok"]   = {"lex": [[group, kind, arg], ...]  pattern alternatives in the pattern language of coq/C04/Model.v,
#                    "syn": [[group, name], ...], "kw": [[name, value, keyword token], ...],
#                    "skip": None | [token names],                                  the MEANING of the skip_tokens argument
#                    "skip_form": "omitted" | "none" | "list" | "set" | "tuple" | "frozenset",   how it is passed
#                    "syn_form" / "kw_form" / "spans_form": "omitted" | "none" | "dict"  ({} when there are none),
#                    "keep_form": "omitted" | "none" | "set" | "list"  (keep_symbols, always empty: cleanup is C05's subject),
#                    "start_kw": bool   False: start_symbol_name is left to the constructor's default (the start symbol is 'E')}
#   case["texts"] = the texts handed to parse();  case["inputs"][i] = the token sequence (names, values) of texts[i] AFTER THE
#                   GENERATOR'S OWN skip filtering -- known by construction (the text is rendered from it), never taken from
#                   the library's tokenizer; membership / the expected tree are computed from it by the oracle.
TOK_COLL = {"list": list, "set": set, "tuple": tuple, "frozenset": frozenset}
DEFAULT_SKIP = ["SPACE", "COMMENT"]       # the documented default of skip_tokens


def _tok_pattern(entry):
    name, kind_, arg = entry
    if kind_ == "lit":
        return f"(?P<{name}>{re.escape(arg)})"
    if kind_ == "range":
        return f"(?P<{name}>[{arg[0]}-{arg[1]}]+)"
    if kind_ == "space":
        return f"(?P<{name}>\\s+)"
    if kind_ == "eol":
        return f"(?P<{name}>{re.escape(arg)}.*)"
    if kind_ == "quoted":
        q = re.escape(arg)
        return f"{q}(?P<{name}>[^{q}]*){q}"
    raise ValueError(kind_)


def _tok_str(tk):
    return "\n|".join(_tok_pattern(e) for e in tk["lex"])


def _tok_terminals(tk):
    """token names as the documentation of LLParser defines them: pattern groups, renamed by synonyms, plus keyword tokens"""
    syn = dict(tk["syn"])
    t = set(e[0] for e in tk["lex"]) - set(syn)
    t |= set(syn.values())
    t |= set(k[2] for k in tk["kw"])
    return sorted(t)


def _tok_skipset(tk):
    """what the skip_tokens argument MEANS (documentation): None = SPACE and COMMENT; a collection = its members, also when empty"""
    if tk["skip"] is None:
        terms = _tok_terminals(tk)
        return [t for t in DEFAULT_SKIP if t in terms]
    return list(tk["skip"])


def gen_tokcfg(rng):
    """-> (tk, info); info["prod"]: final token name -> [[lexeme, value, ends_the_line], ...]"""
    lex, syn, kw, prod = [], [], [], {}

    def add(name, lexeme, value=None, eol=False):
        prod.setdefault(name, []).append([lexeme, lexeme if value is None else value, eol])
    # white space: a group SPACE, a group WS renamed to SPACE by synonyms, or a group WS that is not renamed
    r = rng.random()
    if r < 0.55:
        lex.append(["SPACE", "space", ""])
        space = "SPACE"
    elif r < 0.85:
        lex.append(["WS", "space", ""])
        syn.append(["WS", "SPACE"])
        space = "SPACE"
    else:
        lex.append(["WS", "space", ""])
        space = "WS"
    for lx in (" ", " ", "  ", "\t", " \t"):
        add(space, lx)
    # white space that is a line end for str.splitlines() but not for the tokenizer (which cuts at '\n' only): when white
    # space is a terminal of the grammar the token must stay ONE token
    for _ in range(rng.randint(1, 3)):
        add(space, rng.choice(["", " ", "\t"]) + rng.choice(_C01.LINE_BREAKISH + _C01.ODD_SPACE)
            + rng.choice(["", " ", rng.choice(_C01.LINE_BREAKISH)]))
    # comments to the end of the line: group COMMENT, REM renamed to COMMENT, REM not renamed, or none
    comment = None
    r = rng.random()
    if r < 0.8:
        marker = rng.choice(["#", "//"])
        if r < 0.4:
            cg = comment = "COMMENT"
        elif r < 0.65:
            cg, comment = "REM", "COMMENT"
            syn.append(["REM", "COMMENT"])
        else:
            cg = comment = "REM"
        lex.append([cg, "eol", marker])
        for c in ("", "c", " x y", " if 1"):
            add(comment, marker + c, eol=True)
        for _ in range(rng.randint(1, 2)):
            v = marker + _C01._odd_core(rng, True)
            add(comment, v + _C01._odd_trail(rng), v, eol=True)      # the line is rstripped before it is matched
    # free text: the rest of the line as ONE token / a quoted string (the value excludes the quotes).  Never skipped by
    # default; any character but the newline (resp. the quote) is part of the token: form feed, vertical tab, FS / GS / RS,
    # NEL, U+2028, U+2029, a lone carriage return -- the characters at which str.splitlines() but not split('\n') cuts
    free = []
    if rng.random() < 0.55:
        marker = rng.choice(["=", ":", "!"])
        rn = "REST"
        lex.append(["REST", "eol", marker])
        if rng.random() < 0.4:
            syn.append(["REST", "TEXT"])
            rn = "TEXT"
        free.append(rn)
        for c in ("", "on", " a b"):
            add(rn, marker + c, eol=True)
        for _ in range(rng.randint(2, 4)):
            v = marker + _C01._odd_core(rng, True)
            add(rn, v + _C01._odd_trail(rng), v, eol=True)
    if rng.random() < 0.45:
        dn = "DQ"
        lex.append(["DQ", "quoted", '"'])
        if rng.random() < 0.5:
            syn.append(["DQ", "STRING"])
            dn = "STRING"
        free.append(dn)
        for v in ["", "x y", "if"] + [_C01._odd_core(rng, True) + _C01._odd_trail(rng) for _ in range(rng.randint(2, 4))]:
            add(dn, '"' + v + '"', v)
    # words and numbers.  Round 5: the name spaces of pattern groups, synonym targets and keyword tokens OVERLAP.
    # Synonyms rename a pattern group ONCE (no chains are followed), keywords are looked up under the token name AFTER the
    # renaming, and the terminals are (groups - renamed groups) + synonym targets + keyword tokens:
    #   wmode "ren"/"two": words come from group LW (and UW) renamed to WORD; keywords are keyed by the synonym TARGET
    #                ('WORD', 'if') and fire; an entry keyed by the renamed GROUP ('LW', 'zz') is a decoy and never fires;
    #   "kwgroup":   a keyword token is NAMED like the renamed group ('WORD', 'x') -> 'LW': LW is a terminal again;
    #   nmode "chain": {'CAP': 'NUM', 'NUM': 'INT'}: capitals are NUM tokens, digits are INT tokens, NUM stays a terminal.
    hot = []          # names that are a renamed group AND a token the tokenizer emits: the grammar should use them
    wmode = rng.choice(["plain", "plain", "plain", "ren", "ren", "two"])
    nmode = "chain" if wmode != "two" and rng.random() < 0.3 else "plain"
    wg = "WORD" if wmode == "plain" else "LW"
    lex.append([wg, "range", "az"])
    if wg != "WORD":
        syn.append([wg, "WORD"])
    words, wkw = ["a", "bc", "x", "zz", "if"], {}
    if rng.random() < (0.45 if wmode == "plain" else 0.8):
        kw.append(["WORD", "if", "IF"])
        wkw["if"] = "IF"
    if wg != "WORD":
        if rng.random() < 0.4:
            kw.append([wg, "zz", "ZZK"])                    # decoy: 'zz' stays a WORD ('ZZK' is a terminal nothing produces)
        if rng.random() < 0.35:
            kw.append(["WORD", "x", wg])
            wkw["x"] = wg
            hot.append(wg)
    for v in words:
        add(wkw.get(v, "WORD"), v)
    if wmode == "two":
        lex.append(["UW", "range", "AZ"])
        syn.append(["UW", "WORD"])
        if rng.random() < 0.5:
            kw.append(["WORD", "IF", "IF"])
        for v in ("A", "XY", "IF"):
            add("IF" if v == "IF" and ["WORD", "IF", "IF"] in kw else "WORD", v)
    if nmode == "chain":
        lex += [["CAP", "range", "AZ"], ["NUM", "range", "09"]]
        syn += [["CAP", "NUM"], ["NUM", "INT"]]
        hot.append("NUM")
        for v in ("A", "XY", "IF"):
            add("NUM", v)
        if rng.random() < 0.4:
            kw.append(["NUM", "7", "SEVEN"])                # decoy: digits are INT tokens when the keywords are looked up
        if rng.random() < 0.4:
            kw.append(["INT", "0", "NUM"])                  # ... and this one fires: the digit 0 is a NUM token
        for v in ("0", "12", "7"):
            add("NUM" if v == "0" and ["INT", "0", "NUM"] in kw else "INT", v)
    else:
        lex.append(["NUM", "range", "09"])
        for v in ("0", "12", "7"):
            add("NUM", v)
    for g, ch in (("COMMA", ","), ("SEMI", ";"), ("PLUS", "+")):
        if rng.random() < 0.7:
            lex.append([g, "lit", ch])
            n = g
            if rng.random() < 0.3:
                syn.append([g, ch])
                n = ch
            add(n, ch)
    rng.shuffle(lex)
    tk = {"lex": lex, "syn": syn, "kw": kw, "skip": None}
    terms = _tok_terminals(tk)
    default = [t for t in DEFAULT_SKIP if t in terms]
    other = sorted(n for n in prod if n != space and n != comment)
    r = rng.random()
    if r < 0.2:
        skip = None
    elif r < 0.5:
        skip = []                                           # given, and empty: skip nothing
    elif r < 0.6:
        skip = [space]
    elif r < 0.68:
        skip = [comment] if comment else [space]
    elif r < 0.76:
        skip = list(default) or [space]                     # the default, spelled out
    elif r < 0.9:
        skip = [rng.choice(other)]                          # another class only: blanks and comments stay
    else:
        skip = [space, rng.choice(other)]
    tk["skip"] = skip
    tk["skip_form"] = rng.choice(["omitted", "none"]) if skip is None else rng.choice(sorted(TOK_COLL))
    tk["syn_form"] = "dict" if syn else rng.choice(["omitted", "none", "dict"])
    tk["kw_form"] = "dict" if kw else rng.choice(["omitted", "none", "dict"])
    tk["spans_form"] = rng.choice(["omitted", "none", "dict"])
    tk["keep_form"] = rng.choice(["omitted", "none", "set", "list"])
    tk["start_kw"] = True
    info = {"prod": prod, "space": space, "comment": comment, "skipset": _tok_skipset(tk), "free": free, "hot": hot}
    return tk, info


def _blank_grammar(rng, info, avail):
    """blank- / comment-significant LL(1) shapes (None when white space and comments are all skipped)"""
    sp = info["space"] if info["space"] in avail else None
    cm = info["comment"] if info["comment"] in avail else None
    subst = [n for n in avail if n not in (info["space"], info["comment"])]
    if len(subst) < 2 or (sp is None and cm is None):
        return None
    rng.shuffle(subst)
    w1, w2 = subst[0], subst[1]
    sep = subst[2] if len(subst) > 2 else w2
    E, T, I, O, M = rng.sample(NT_POOL, 5)
    shapes = []
    if sp:
        shapes.append({E: [(I, T)], T: [(sp, I, T), ()], I: [(w1,), (w2,)]})
        if sep != w2:
            shapes.append({E: [(O, I, T)], O: [(sp,), ()], T: [(sep, O, I, T), ()], I: [(w1,), (w2,)]})
        shapes.append({E: [(w1, T)], T: [(sp, M), ()], M: [(w1, T), (w2,)]})
    if cm:
        shapes.append({E: [(I, T)], T: [(cm, I, T), ()], I: [(w1, I), ()]})
    if sp and cm:
        shapes.append({E: [(w1, T)], T: [(sp, M), ()], M: [(w1, T), (cm,)]})
        shapes.append({E: [(I, O, T)], O: [(sp,), ()], T: [(cm, I, O, T), ()], I: [(w1,), (w2, w1)]})
    prods = rng.choice(shapes)
    nts = list(prods)
    if rng.random() < 0.5:
        rng.shuffle(nts)
    return _mk(nts, sorted(avail), prods, E)


def _tok_grammar(rng, info):
    skip = set(info["skipset"])
    avail = sorted(n for n in info["prod"] if n not in skip)
    g = _blank_grammar(rng, info, avail) if rng.random() < 0.35 else None
    if g is None:
        for _ in range(400):
            r = rng.random()
            if r < 0.65:
                c = gen_ll1_candidate(rng)
                if L.ref_left_recursive(_plain(c)) or not L.ref_is_ll1(_plain(c), c["start"]):
                    continue
            elif r < 0.75:
                c = gen_one_conflict(rng)
            elif r < 0.9:
                c = gen_common_prefix(rng)
            else:
                c = gen_follow_family(rng)
            used = sorted({s for _, alts in c["prods"] for a in alts for s in a if s in c["terms"]})
            if len(used) <= len(avail) and not _has_duplicate_alts(c) and not L.ref_left_recursive(_plain(c)):
                break
        else:
            raise RuntimeError("no grammar fits the configuration")
        # rename the letter terminals (injectively) to token names that are not skipped; white space and comments first
        pref = [n for n in (info["space"], info["comment"]) if n in avail]
        if rng.random() < 0.6:
            pref += [n for n in info.get("free", []) if n in avail]       # free-text classes (odd characters inside tokens)
        rest = [n for n in avail if n not in pref]
        rng.shuffle(rest)
        rng.shuffle(pref)
        pool = (pref + rest) if rng.random() < 0.8 else (rest + pref)
        hotp = [n for n in info.get("hot", []) if n in avail]
        if hotp and rng.random() < 0.85:
            # names that are a renamed pattern group AND an emitted token: terminals the grammar must be allowed to use
            pool = hotp + [n for n in pool if n not in hotp]
        rng.shuffle(used)
        m = dict(zip(used, pool))
        g = dict(c)
        g["prods"] = [[nt, [[m.get(x, x) for x in a] for a in alts]] for nt, alts in c["prods"]]
        g["terms"] = sorted(avail)
    # symbol names: a symbol named '' (a falsy name), the start symbol left to the constructor's default 'E'
    nts = list(g["nts"])
    ren = {}
    r = rng.random()
    if r < 0.2:
        # the start symbol is named 'E' and start_symbol_name is NOT passed
        if "E" in nts and g["start"] != "E":
            ren["E"] = g["start"]
        ren[g["start"]] = "E"
        start_kw = False
    else:
        start_kw = True
        if r < 0.5:
            # a symbol named '': the start symbol (then, if possible, another symbol is named 'E') or another one
            if rng.random() < 0.6:
                victim = g["start"]
                others = [n for n in nts if n != victim and n != "E"]
                if "E" not in nts and others:
                    ren[rng.choice(others)] = "E"
            else:
                victim = rng.choice(nts)
            ren[victim] = ""
    if ren:
        f = lambda x: ren.get(x, x)   # noqa: E731
        g = dict(g, nts=[f(n) for n in nts], start=f(g["start"]),
                 prods=[[f(nt), [[f(x) for x in a] for a in alts]] for nt, alts in g["prods"]])
        assert len(set(g["nts"])) == len(g["nts"])
    return g, start_kw


def _char_class(c):
    if c.islower():
        return "l"
    if c.isupper():
        return "u"
    if c.isdigit():
        return "d"
    return c


def _glue_ok(a, b):
    """may lexeme b follow lexeme a directly so that they stay the same two tokens"""
    if a[-1] in "/#" or b[0] in "/#":
        return False
    return _char_class(a[-1]) != _char_class(b[0])


def _render_tok(rng, info, names):
    """token names (what the parser is to see) -> (text, ALL tokens of the text [[name, value], ...] in order), or None.
    Tokens of the skipped classes are thrown in at random.  Lines are split at newlines and right-stripped by the
    tokenizer: a newline separates two tokens without being one, a white-space token can neither end a line nor follow
    another one (such tokens are dropped from the sequence BEFORE the text is rendered)."""
    prod, space = info["prod"], info["space"]
    if any(n not in prod for n in names):
        return None

    def pick(n):
        lx, v, eol = rng.choice(prod[n])
        return [n, v, lx, eol]
    deco = [n for n in info["skipset"] if n in prod]
    if space in deco:
        deco += [space] * 2
    items = []
    for n in list(names) + [None]:
        k = 0
        while deco and k < 3 and rng.random() < 0.4:
            items.append(pick(rng.choice(deco)))
            k += 1
        if n is not None:
            items.append(pick(n))
    out = []
    for it in items:
        if it[0] == space and out and out[-1][0] == space:
            continue
        out.append(it)
    while out and out[-1][0] == space:
        out.pop()
    text, prev = "", None
    for it in out:
        if prev is None:
            sep = ""
        elif prev[3]:
            sep = "\n"
        elif prev[0] == space or it[0] == space:
            sep = ""
        elif _glue_ok(prev[2], it[2]) and rng.random() < 0.5:
            sep = ""
        else:
            sep = "\n"
        text += sep + it[2]
        prev = it
    if out and rng.random() < 0.15:
        text += "\n"
    return text, [[it[0], it[1]] for it in out]


def gen_tok_case(rng, diag):
    tk, info = gen_tokcfg(rng)
    g, start_kw = _tok_grammar(rng, info)
    tk["start_kw"] = start_kw
    skip = set(info["skipset"])
    texts, inputs, seen = [], [], set()
    names_list = [[n for n, _ in inp] for inp in gen_inputs(rng, g, 12, 5)]
    if info["space"] not in skip:
        # white space where the grammar has none (in front, doubled, between any two tokens): usually no sentence
        for names in list(names_list[:4]):
            k = rng.randint(0, len(names))
            names_list.append(names[:k] + [info["space"]] + names[k:])
    for names in names_list:
        r = _render_tok(rng, info, names)
        if r is None:
            continue
        text, full = r
        if text in seen:
            continue
        seen.add(text)
        texts.append(text)
        inputs.append([t for t in full if t[0] not in skip])
    prog = make_prog(rng, len(inputs), g["nts"])
    if inputs and ("" in g["nts"] or rng.random() < 0.3):
        # parse(text, start_symbol_name=''): a falsy name that IS given (a symbol of the grammar, or an unknown name: refused)
        for w in (0, 1):
            prog.insert(rng.randint(2, len(prog)), ["parse_from", w, rng.randrange(len(inputs)), ""])
    if rng.random() < 0.5:
        # after the last constructor call the caller re-uses / changes the collections it passed (skip_tokens list or set,
        # synonyms, keywords dicts): the parsers must have kept their own copies
        last = max(k for k, op in enumerate(prog) if op[0] == "build")
        prog.insert(rng.randint(last + 1, max(last + 1, (last + 1 + len(prog)) // 2)), ["touch", 0])
    return {"g": g, "inputs": inputs, "texts": texts, "tok": tk, "diag": diag, "src": "tok", "prog": prog}


# ------------------------------------------------------------------ family "any": AnyTokenExcept items, one productions dict for parsers with DIFFERENT tokenizers
# case["any"]    = [[nt, position in nt's productions list, [excluded token names]], ...]   AnyTokenExcept(*excluded) items; the
#                  SAME Python object is used in every constructor call of the case (a grammar fragment kept by the caller)
# case["g"]      = the grammar without the items ("prods" as always)
# case["phases"] = [{"tok", "texts", "inputs", "prog"}, ...]   one session per TOKENIZER CONFIGURATION (different token-name sets):
#                  all parsers of all phases are built from the one productions dict
# case["schedule"] = [[phase, number of operations], ...]   the order in which the implementation executes the phases' programs
# What an item MEANS (documentation of AnyTokenExcept): the one-token productions of every token of THAT parser's tokenizer
# that is not excluded -- `_expand_any` (independent of ak); the oracle judges every phase against the grammar expanded with
# the phase's own token names, the Coq model (C02/AnyExcept.v) expands the item itself.
ANY_VARIABLE = ["NUM", "COMMA", ",", "SEMI", ";", "PLUS", "+", "REST", "TEXT", "DQ", "STRING"]


def _expand_any(g, any_items, terminals):
    items = {nt: (pos, excl) for nt, pos, excl in any_items}
    prods = []
    for nt, alts in g["prods"]:
        alts = [list(a) for a in alts]
        if nt in items:
            pos, excl = items[nt]
            alts = alts[:pos] + [[t] for t in sorted(terminals) if t not in excl] + alts[pos:]
        prods.append([nt, alts])
    return dict(g, prods=prods)


def _tok_without(tk, info, names):
    """the configuration without the pattern groups of the token names `names` (and what the generator knows about it)"""
    syn = dict(map(tuple, tk["syn"]))
    tk0 = dict(tk, lex=[e for e in tk["lex"] if syn.get(e[0], e[0]) not in names],
               syn=[[a, b] for a, b in tk["syn"] if b not in names])
    info0 = dict(info, prod={n: v for n, v in info["prod"].items() if n not in names},
                 free=[n for n in info.get("free", []) if n not in names])
    return tk0, info0


def _phase_texts(rng, g, info, skip, n_base, n_short):
    texts, inputs, seen = [], [], set()
    for names in [[n for n, _ in inp] for inp in gen_inputs(rng, g, n_base, n_short)]:
        r = _render_tok(rng, info, names)
        if r is None or r[0] in seen:
            continue
        seen.add(r[0])
        texts.append(r[0])
        inputs.append([t for t in r[1] if t[0] not in skip])
    return texts, inputs


def gen_any_case(rng):
    for _ in range(300):
        tk, info = gen_tokcfg(rng)
        g, start_kw = _tok_grammar(rng, info)
        tk["start_kw"] = start_kw
        terms_all = _tok_terminals(tk)
        skip = set(info["skipset"])
        prods = _plain(g)
        used = {x for alts in prods.values() for a in alts for x in a}
        nul, first, follow, first_seq = L.ref_first_follow(prods, g["start"])
        items, excluded = [], set()
        nts = list(g["nts"])
        rng.shuffle(nts)
        for nt in nts[:rng.choice([1, 2])]:
            alts = prods[nt]
            heads = {a[0] for a in alts if a and a[0] in terms_all}
            excl = set(heads)        # needed: the order of the produced rules is then unobservable (C02/AnyExcept.v)
            if rng.random() < 0.75:
                # ... and whatever the other productions of nt may start with: the expanded grammar stays LL(1) at nt
                for a in alts:
                    f, alln = first_seq(a)
                    excl |= set(f) | (follow[nt] if alln else set())
            excl &= set(terms_all)
            others = [t for t in terms_all if t not in excl]
            if len(others) > 2:
                excl |= set(rng.sample(others, rng.randint(0, len(others) - 2)))
            items.append([nt, rng.randint(0, len(alts)), sorted(excl)])
            excluded |= excl
        if len(items) == 2 and rng.random() < 0.5:
            items[0][2] = items[1][2] = sorted(excluded)      # equal items: ONE object in the lists of two symbols (impl_run)
        skip_arg = set(tk["skip"] or [])
        variable = [n for n in ANY_VARIABLE if n in info["prod"] and n in terms_all and n not in used and n not in excluded
                    and n not in skip_arg and n not in skip]
        if not variable:
            continue
        gone = rng.sample(variable, rng.randint(1, min(2, len(variable))))
        # at least one item must produce a token that only the richer tokenizer has
        tk0, info0 = _tok_without(tk, info, gone)
        phases = []
        for tk_i, info_i in ((tk, info), (tk0, info0)):
            g_i = _expand_any(g, items, _tok_terminals(tk_i))
            g_i["terms"] = sorted(n for n in info_i["prod"] if n not in skip)
            if _has_duplicate_alts(g_i) or L.ref_left_recursive(_plain(g_i)):
                break
            texts, inputs = _phase_texts(rng, g_i, info_i, skip, 8, 3)
            phases.append({"tok": tk_i, "texts": texts, "inputs": inputs, "prog": make_prog(rng, len(inputs), g["nts"])})
        if len(phases) < 2:
            continue
        g_rich = _expand_any(g, items, _tok_terminals(tk))
        if not L.ref_is_ll1(_plain(g_rich), g["start"]) and rng.random() < 0.85:
            continue                  # mostly grammars that are LL(1) with the items expanded
        if rng.random() < 0.5:
            phases.reverse()          # the poorer tokenizer first / the richer one first
        n0, n1 = len(phases[0]["prog"]), len(phases[1]["prog"])
        mode = rng.choice(["seq", "split", "interleave"])
        if mode == "seq":
            schedule = [[0, n0], [1, n1]]
        elif mode == "split":
            # the first parsers are used again after the others have been built (and must be what they were)
            k = rng.randint(2, max(2, n0 - 4))
            schedule = [[0, k], [1, n1], [0, n0 - k]]
        else:
            schedule, left = [], [n0, n1]
            while left[0] or left[1]:
                i = rng.randint(0, 1)
                if not left[i]:
                    i = 1 - i
                k = min(left[i], rng.randint(1, 12))
                schedule.append([i, k])
                left[i] -= k
        return {"g": g, "any": items, "phases": phases, "schedule": schedule, "diag": False, "src": "any"}
    raise RuntimeError("no AnyTokenExcept case found")


def _views(case):
    """a case with phases as the list of its sessions: each one an ordinary tok case whose grammar is the case's grammar
    EXPANDED with the token names of the session's own tokenizer"""
    out = []
    for ph in case["phases"]:
        g_i = _expand_any(case["g"], case["any"], _tok_terminals(ph["tok"]))
        out.append({"g": g_i, "inputs": ph["inputs"], "texts": ph["texts"], "tok": ph["tok"], "prog": ph["prog"],
                    "diag": False, "src": "any"})
    return out


# ------------------------------------------------------------------ programs over two parser objects
# op = ["build", w] | ["amb", w] | ["parse", w, i] | ["parse_from", w, i, s]
#      (w: 0 = smart_factorization False, 1 = True; i: index into inputs; s: parse(text, start_symbol_name=s))
N_AGAIN = 5       # inputs parsed a second time on every object


def _life(rng, w, n, nts, amb_p=0.5):
    """one object's use: every input once, is_ambiguous() asked in between, then some inputs AGAIN (shuffled, one of
    them twice in a row), is_ambiguous() at the end; in between one or two parse(text, start_symbol_name=<some symbol>)
    calls (the debugging aid must not redirect the parse() calls that follow)."""
    ops = [["amb", w]]
    order = list(range(n))
    if rng.random() < 0.3:
        rng.shuffle(order)
    for i in order:
        ops.append(["parse", w, i])
        if rng.random() < amb_p:
            ops.append(["amb", w])
    again = rng.sample(range(n), min(n, N_AGAIN)) if n else []
    if again:
        again.insert(rng.randrange(len(again)), again[rng.randrange(len(again))])
        j = rng.randrange(len(again))
        again.insert(j, again[j])          # the same text twice in a row
    for k, i in enumerate(again):
        ops.append(["parse", w, i])
        if rng.random() < amb_p or k == len(again) - 1:
            ops.append(["amb", w])
    if not again:
        ops.append(["amb", w])
    if n:
        for _ in range(rng.randint(1, 2)):
            ops.insert(rng.randint(1, len(ops) - 1), ["parse_from", w, rng.randrange(n), rng.choice(nts)])
    return ops


def _interleave(rng, a, b):
    a, b = list(a), list(b)
    out = []
    while a or b:
        src = a if (a and (not b or rng.random() < 0.5)) else b
        out.append(src.pop(0))
    return out


def make_prog(rng, n, nts):
    """a program: both objects are built from the one productions dict, in random order, one after the other's life
    ('seq'), both first ('interleave'), the second in the middle of the first one's life ('late'), or the first one
    re-built after everything else ('rebuild'); every object is asked is_ambiguous() right after construction, between
    parses and at the end, and parses every input once and some again."""
    a = rng.randint(0, 1)
    b = 1 - a
    mode = rng.choice(["seq", "interleave", "late", "rebuild"])
    la, lb = _life(rng, a, n, nts), _life(rng, b, n, nts)
    tail = [["amb", a]]
    if n:
        tail += [["parse", a, rng.randrange(n)], ["amb", a]]
    if mode == "seq":
        ops = [["build", a]] + la + [["build", b]] + lb + tail
    elif mode == "interleave":
        ops = [["build", a], ["build", b]] + _interleave(rng, la, lb) + tail + [["amb", b]]
    elif mode == "late":
        k = rng.randint(1, max(1, len(la) - 1))
        ops = [["build", a]] + la[:k] + [["build", b]] + _interleave(rng, la[k:], lb) + tail + [["amb", b]]
    else:
        ops = [["build", a]] + la + [["build", b]] + lb + [["amb", a], ["build", a], ["amb", a]]
        if n:
            for i in rng.sample(range(n), min(n, 3)):
                ops += [["parse", a, i], ["amb", a]]
        ops += [["amb", b]]
        if n:
            ops += [["parse", b, rng.randrange(n)], ["amb", b]]
    return ops


def _prog_full(case):
    """the program of a case (cases written before programs existed get a fixed pseudo-random one), including the
    harness-only operation ["touch", w]: the CALLER changes the argument objects it gave to the constructor (see impl_run)"""
    if case.get("prog") is not None:
        return case["prog"]
    import random
    return make_prog(random.Random(20261001 + len(case["inputs"])), len(case["inputs"]), case["g"]["nts"])


def _prog(case):
    """the operations the model knows (a parser is a value there: what the caller does to the argument objects after the
    constructor returned is no operation of the model, and must not be one of the implementation's objects either)"""
    return [op for op in _prog_full(case) if op[0] != "touch"]


def gen_cases(rng, tier):
    thorough = tier == "thorough"
    n_ll1, n_family, n_general = (2400, 400, 700) if thorough else (300, 60, 100)
    n_chain, n_conflict = (400, 600) if thorough else (50, 80)
    n_prefix = 500 if thorough else 60
    cases = []

    def add(g, src, diag):
        inputs = gen_inputs(rng, g)
        cases.append({"g": g, "inputs": inputs, "diag": diag, "src": src, "prog": make_prog(rng, len(inputs), g["nts"])})
    got = 0
    tries = 0
    while got < n_ll1 and tries < n_ll1 * 60:
        tries += 1
        g = gen_ll1_candidate(rng)
        p = _plain(g)
        if L.ref_left_recursive(p) or not L.ref_is_ll1(p, g["start"]):
            continue
        got += 1
        add(g, "ll1", thorough)
    for _ in range(n_family):
        g = gen_follow_family(rng)
        add(g, "family", thorough)
    for _ in range(n_chain):
        add(gen_follow_chain(rng), "chain", thorough)
    for _ in range(n_conflict):
        add(gen_one_conflict(rng), "conflict", thorough)
    for _ in range(n_prefix):
        add(gen_common_prefix(rng), "prefix", thorough)
    got = 0
    while got < n_general:
        g = L.gen_grammar(rng, allow_leftrec=0.05)
        if L.ref_left_recursive(_plain(g)) or _has_duplicate_alts(g):
            continue
        got += 1
        add(g, "general", thorough)
    # tokenizer configurations: white space / comments as ordinary terminals, the skip_tokens argument in every form
    for _ in range(700 if thorough else 100):
        cases.append(gen_tok_case(rng, thorough))
    # AnyTokenExcept items; ONE productions dict (the same item objects) for parsers with different tokenizers
    # (spread over the list: such a case prints two sessions, and coqc's stack is short -- see COQ_SHARD)
    n_any = 200 if thorough else 28
    step = max(COQ_SHARD, len(cases) // n_any)
    for k in range(n_any):
        cases.insert(min(len(cases), k * (step + 1) + 3), gen_any_case(rng))
    return cases


def kind(case):
    if case.get("phases"):
        v = _views(case)
        n = len(case["schedule"])
        return (f"src=any phases={len(v)} schedule={'seq' if n == 2 else 'split' if n == 3 else 'interleave'} "
                f"ll1={''.join(str(int(L.ref_is_ll1(_plain(x['g']), x['g']['start']))) for x in v)}")
    g = case["g"]
    p = _plain(g)
    ll1 = L.ref_is_ll1(p, g["start"])
    nul = bool(L.ref_nullable(p))
    extra = ""
    if case.get("tok"):
        tk = case["tok"]
        meaning = "default" if tk["skip"] is None else ("nothing" if not tk["skip"] else "explicit")
        blanks = int(any(n in ("SPACE", "WS", "COMMENT", "REM") for _, alts in g["prods"] for a in alts for n in a))
        extra = f" skip={meaning}/{tk['skip_form']} blanks_in_grammar={blanks}"
    return f"src={case.get('src', 'corpus')} ll1={int(ll1)} nullable={int(nul)}{extra}"


# ------------------------------------------------------------------ implementation side
def _diag_obs(p):
    """internal sets and the table of a parser object AS IT IS NOW (every cell, also an empty one)"""
    summ = p._summary
    nulls = sorted(summ.nullables)
    first = [[k, sorted(v)] for k, v in sorted(summ.first_sest.items())]
    follow = [[k, sorted(v)] for k, v in sorted(summ.follow_sets.items())]
    table = [[nt, tok, [r.sort_n for r in rs]] for (nt, tok), rs in sorted(p.parse_table.items())]
    return [nulls, first, follow, table]


def _clobber(t):
    """what a caller may do with a tree it was given: take it apart.  A later parse must not be affected."""
    todo = [t]
    while todo:
        x = todo.pop()
        v = x.value
        if isinstance(v, list):
            todo.extend(v)
            v.clear()
        x.value = None
        x.name = "#clobbered"


def _tok_kwargs(tk, g):
    """the keyword arguments of the constructor as the case wants them passed (falsy-but-given values included)"""
    kwargs = {}
    if tk["skip_form"] == "none":
        kwargs["skip_tokens"] = None
    elif tk["skip_form"] != "omitted":
        kwargs["skip_tokens"] = TOK_COLL[tk["skip_form"]](tk["skip"])
    for key, form, val in (("synonyms", tk["syn_form"], dict(map(tuple, tk["syn"]))),
                           ("keywords", tk["kw_form"], {(n, v): k for n, v, k in tk["kw"]}),
                           ("span_matchers", tk["spans_form"], {})):
        if form == "none":
            kwargs[key] = None
        elif form == "dict":
            kwargs[key] = val
    if tk["keep_form"] == "none":
        kwargs["keep_symbols"] = None
    elif tk["keep_form"] != "omitted":
        kwargs["keep_symbols"] = set() if tk["keep_form"] == "set" else []
    if tk.get("start_kw", True):
        kwargs["start_symbol_name"] = g["start"]
    else:
        assert g["start"] == "E"        # left to the constructor's default
    return kwargs


def _touch_args(kwargs, case):
    """the caller changes the mutable collections it handed to the constructor: the skip collection gets every token name
    the texts use, the synonyms / keywords dicts are emptied (or, when empty, get entries that would rename the tokens)"""
    names = sorted({n for inp in case["inputs"] for n, _ in inp} | {"SPACE", "WS", "WORD"})
    sk = kwargs.get("skip_tokens")
    if isinstance(sk, list):
        sk.extend(names)
    elif isinstance(sk, set):
        sk.update(names)
    syn = kwargs.get("synonyms")
    if isinstance(syn, dict):
        if syn:
            syn.clear()
        else:
            syn.update({"WORD": "NUM", "SPACE": "WORD", "WS": "WORD"})
    kw = kwargs.get("keywords")
    if isinstance(kw, dict):
        if kw:
            kw.clear()
        else:
            kw.update({("WORD", v): "NUM" for _, v in [t for inp in case["inputs"] for t in inp if t[0] == "WORD"]})


def _args_repr(kwargs):
    return sorted((k, type(v).__name__, repr(sorted(v, key=repr)) if isinstance(v, (set, frozenset)) else repr(v))
                  for k, v in kwargs.items())


class _Session:
    """the parser objects of ONE tokenizer configuration and what the program's operations on them gave"""

    def __init__(self, llparser, prods, tok, texts, kwargs, case):
        self.llparser, self.prods, self.tok, self.texts, self.kwargs, self.case = llparser, prods, tok, texts, kwargs, case
        self.args_before = _args_repr(kwargs)
        self.args_after = None
        self.objs = {0: None, 1: None}
        self.out = []

    def run(self, ops):
        llparser, objs, out, texts, kwargs = self.llparser, self.objs, self.out, self.texts, self.kwargs
        for op in ops:
            w = op[1]
            if op[0] == "touch":
                self.args_after = _args_repr(kwargs)
                _touch_args(kwargs, self.case)
                continue
            if op[0] == "build":
                objs[w] = None
                try:
                    objs[w] = llparser.LLParser(self.tok, productions=self.prods, smart_factorization=bool(w), **kwargs)
                    out.append(["built"])
                except BaseException as e:  # noqa
                    if type(e).__name__ == "Hang":
                        raise
                    out.append(["built", SX.exc_name(e)])
                continue
            p = objs[w]
            if p is None or (op[0] != "amb" and not 0 <= op[2] < len(texts)):
                out.append(["none"])
            elif op[0] == "amb":
                try:
                    out.append(["amb", bool(p.is_ambiguous())])
                except BaseException as e:  # noqa
                    if type(e).__name__ == "Hang":
                        raise
                    out.append(["amb", SX.exc_name(e)])
            else:
                try:
                    if op[0] == "parse_from":
                        t = p.parse(texts[op[2]], do_cleanup=False, start_symbol_name=op[3])
                    else:
                        t = p.parse(texts[op[2]], do_cleanup=False)
                    out.append(["parse", "ok", L.tree_obs(t)])
                    _clobber(t)
                except BaseException as e:  # noqa
                    if type(e).__name__ == "Hang":
                        raise
                    out.append(["parse", "err", SX.exc_name(e)])

    def obs(self):
        obs = {"ops": self.out}
        if self.case.get("diag"):
            obs["diag"] = [_diag_obs(self.objs[w]) if self.objs[w] is not None else None for w in (0, 1)]
        after = self.args_after if self.args_after is not None else _args_repr(self.kwargs)
        if after != self.args_before:
            obs["args_changed"] = [self.args_before, after]
        return obs


def impl_run(case):
    """runs the case's program: all constructor calls get THE SAME productions dict; the objects live as long as the
    program says; every returned tree is observed and then taken apart.  A case with phases: the same productions dict --
    with the same AnyTokenExcept objects in it -- for the parsers of every phase (= tokenizer configuration); the phases'
    programs are executed in the order of the schedule."""
    from ak import llparser
    g = case["g"]
    prods = {nt: [tuple(a) if a else None for a in alts] for nt, alts in g["prods"]}
    if case.get("phases"):
        by_excl = {}
        for nt, pos, excl in case["any"]:
            key = tuple(excl)
            if key not in by_excl:       # equal items of two symbols are ONE object, too
                by_excl[key] = llparser.AnyTokenExcept(*excl)
            prods[nt].insert(pos, by_excl[key])
        sessions = [_Session(llparser, prods, _tok_str(ph["tok"]), list(ph["texts"]), _tok_kwargs(ph["tok"], g), ph)
                    for ph in case["phases"]]
        done = [0] * len(sessions)
        for i, n in case["schedule"]:
            sessions[i].run(case["phases"][i]["prog"][done[i]:done[i] + n])
            done[i] += n
        for i, ses in enumerate(sessions):        # whatever the schedule left out
            ses.run(case["phases"][i]["prog"][done[i]:])
        return {"phases": [ses.obs() for ses in sessions]}
    tk = case.get("tok")
    if tk:
        # the tokenizer configuration and the skip_tokens argument are the case's; ONE object per argument for all
        # constructor calls of the program
        tok = _tok_str(tk)
        texts = list(case["texts"])
        kwargs = _tok_kwargs(tk, g)
    else:
        tok = L.tokenizer_str(g["terms"])
        texts = [" ".join(v for _, v in inp) for inp in case["inputs"]]
        kwargs = {"start_symbol_name": g["start"]}
    ses = _Session(llparser, prods, tok, texts, kwargs, case)
    ses.run(_prog_full(case))
    return ses.obs()


# ------------------------------------------------------------------ model side
def coq_op(op):
    w = SX.cbool(bool(op[1]))
    if op[0] == "build":
        return f"OBuild {w}"
    if op[0] == "amb":
        return f"OAmb {w}"
    if op[0] == "parse_from":
        return f"OParseFrom {w} {int(op[2])}%nat {L.coq_sym(op[3])}"
    return f"OParse {w} {int(op[2])}%nat"


def _c_sx(x):
    if isinstance(x, bool):
        return "SZ 1" if x else "SZ 0"
    if isinstance(x, int):
        return f"SZ {SX.cZ(x)}"
    return "SL [" + "; ".join(_c_sx(e) for e in x) + "]"


def _c_pat(kind_, arg):
    if kind_ == "lit":
        return f"TLit {SX.cstr(arg)}"
    if kind_ == "range":
        return f"TRange {ord(arg[0])} {ord(arg[1])}"
    if kind_ == "space":
        return "TSpace"
    if kind_ == "eol":
        return f"TEol {SX.cstr(arg)}"
    if kind_ == "quoted":
        return f"TQuoted {ord(arg)}"
    raise ValueError(kind_)


def _c_list(items, ty):
    items = list(items)
    return SX.clist(items) if items else f"(@nil {ty})"


def _coq_tok_case(case, obs):
    g, tk = case["g"], case["tok"]
    cs = L.coq_sym
    ug = SX.clist(
        "(" + cs(nt) + ", " + SX.clist(SX.clist(cs(s) for s in alt) if alt else "(@nil (list Z))" for alt in alts) + ")"
        for nt, alts in g["prods"])
    lex = _c_list((f"({cs(n)}, {_c_pat(k, a)})" for n, k, a in tk["lex"]), "(list Z * C04.Model.pat)")
    syn = _c_list((f"({cs(a)}, {cs(b)})" for a, b in tk["syn"]), "(list Z * list Z)")
    kw = _c_list((f"({cs(n)}, ({SX.cstr(v)}, {cs(k)}))" for n, v, k in tk["kw"]), "(list Z * (list Z * list Z))")
    cfg = f"(tk_cfg {lex} (@nil (list Z * list Z)) {syn} {kw})"
    skip = "(@None (list (list Z)))" if tk["skip"] is None else "(Some " + _c_list((cs(x) for x in tk["skip"]), "(list Z)") + ")"
    texts = _c_list((SX.cstr(t) for t in case["texts"]), "(list Z)")
    # the token sequence of every text as the GENERATOR knows it (the model tokenises the text itself)
    expected = _c_list((_c_sx(SX.ok([[SX.s(n), SX.s(v)] for n, v in inp])) for inp in case["inputs"]), "sx")
    prog = _prog(case)
    ops = SX.clist(coq_op(o) for o in prog) if prog else "(@nil op)"
    return (f"SessionTok {cfg} {skip} {ug} {cs(g['start'])} {FUEL}%nat {texts} {expected} {ops} "
            f"{SX.cbool(bool(case.get('diag')))}")


def _coq_any_case(case, view):
    g, tk = case["g"], view["tok"]
    cs = L.coq_sym
    items = {nt: (pos, excl) for nt, pos, excl in case["any"]}

    def alts_term(nt, alts):
        out = ["UAlt " + (SX.clist(cs(x) for x in a) if a else "(@nil (list Z))") for a in alts]
        if nt in items:
            pos, excl = items[nt]
            out.insert(pos, "UAny " + _c_list((cs(x) for x in excl), "(list Z)"))
        return _c_list(out, "ualt")
    ug = SX.clist("(" + cs(nt) + ", " + alts_term(nt, alts) + ")" for nt, alts in g["prods"])
    lex = _c_list((f"({cs(n)}, {_c_pat(k, a)})" for n, k, a in tk["lex"]), "(list Z * C04.Model.pat)")
    syn = _c_list((f"({cs(a)}, {cs(b)})" for a, b in tk["syn"]), "(list Z * list Z)")
    kw = _c_list((f"({cs(n)}, ({SX.cstr(v)}, {cs(k)}))" for n, v, k in tk["kw"]), "(list Z * (list Z * list Z))")
    cfg = f"(tk_cfg {lex} (@nil (list Z * list Z)) {syn} {kw})"
    skip = "(@None (list (list Z)))" if tk["skip"] is None else "(Some " + _c_list((cs(x) for x in tk["skip"]), "(list Z)") + ")"
    texts = _c_list((SX.cstr(t) for t in view["texts"]), "(list Z)")
    expected = _c_list((_c_sx(SX.ok([[SX.s(n), SX.s(v)] for n, v in inp])) for inp in view["inputs"]), "sx")
    prog = _prog(view)
    ops = SX.clist(coq_op(o) for o in prog) if prog else "(@nil op)"
    return f"SessionAny {cfg} {skip} {ug} {cs(g['start'])} {FUEL}%nat {texts} {expected} {ops}"


def coq_case(case, obs):
    if case.get("phases"):
        return "Phases [" + "; ".join(_coq_any_case(case, v) for v in _views(case)) + "]"
    if case.get("tok"):
        return _coq_tok_case(case, obs)
    g = case["g"]
    cs = L.coq_sym
    ug = SX.clist(
        "(" + cs(nt) + ", " + SX.clist(SX.clist(cs(s) for s in alt) if alt else "(@nil (list Z))" for alt in alts) + ")"
        for nt, alts in g["prods"])
    terms = SX.clist(cs(t) for t in g["terms"])
    inputs = SX.clist(
        (SX.clist("(" + cs(n) + ", " + SX.cstr(v) + ")" for n, v in inp) if inp else "(@nil (list Z * list Z))")
        for inp in case["inputs"]) if case["inputs"] else "(@nil (list (list Z * list Z)))"
    prog = _prog(case)
    ops = SX.clist(coq_op(o) for o in prog) if prog else "(@nil op)"
    return f"Session2 {ug} {terms} {cs(g['start'])} {FUEL}%nat {inputs} {ops} {SX.cbool(bool(case.get('diag')))}"


def _diag_sx(d):
    if d is None:
        return []
    nulls, first, follow, table = d
    return [[SX.s(x) for x in nulls],
            [[SX.s(k), [SX.s(x) for x in v]] for k, v in first],
            [[SX.s(k), [SX.s(x) for x in v]] for k, v in follow],
            [[SX.s(nt), SX.s(tok), list(ns)] for nt, tok, ns in table]]


def _ctor_outcomes(case, obs):
    """per smart value: None (never constructed in this program) | 'ok' | exception class, of the FIRST constructor call"""
    res = {0: None, 1: None}
    for op, o in zip(_prog(case), obs["ops"]):
        if op[0] == "build" and res[op[1]] is None:
            res[op[1]] = "ok" if len(o) == 1 else o[1]
    return res


def expected_sx(case, obs):
    if case.get("phases"):
        return "(" + " ".join(expected_sx(v, o) for v, o in zip(_views(case), obs["phases"])) + ")"
    ops = []
    for o in obs["ops"]:
        if o[0] == "built":
            ops.append([0] if len(o) == 1 else SX.err(o[1]))
        elif o[0] == "amb":
            ops.append([2, o[1]] if isinstance(o[1], bool) else [2, SX.err(o[1])])
        elif o[0] == "parse":
            ops.append([3, SX.ok(L.tree_sx(o[2])) if o[1] == "ok" else SX.err(o[2])])
        else:
            ops.append([4])
    ctor = _ctor_outcomes(case, obs)
    vals = []
    for w in (0, 1):
        # the validators wf_grammar / hyps_ok must be true on everything the constructor model accepts; a smart value
        # the program never constructs is taken from the model as it is (then the line is not compared: see in_model)
        if ctor[w] in (None, "ok"):
            vals.append([0, True, True])
        else:
            vals.append(SX.err(ctor[w]))
    diag = [_diag_sx(d) for d in obs["diag"]] if case.get("diag") else []
    if case.get("tok"):
        # last part: per text () = the model tokenizer's token sequence is the generator's
        return SX.dumps([ops, vals[0], vals[1], diag, [[] for _ in case["texts"]]])
    return SX.dumps([ops, vals[0], vals[1], diag])


def in_model(case, obs):
    # programs construct both objects (the generator's do); a hand-written program that leaves one out cannot be
    # compared on the validators of the missing one
    if "__hang__" in obs:
        return False
    if case.get("phases"):
        return all(in_model(v, o) for v, o in zip(_views(case), obs["phases"]))
    built = {op[1] for op in _prog(case) if op[0] == "build"}
    return built == {0, 1}


# ------------------------------------------------------------------ oracle: the property statement itself
def _lives(case, obs):
    """the program's observations per OBJECT: [(w, [(op, obs)] in program order)], a new object at every build"""
    cur = {}
    lives = []
    for op, o in zip(_prog(case), obs["ops"]):
        w = op[1]
        if op[0] == "build":
            cur[w] = []
            lives.append((w, cur[w]))
        if w in cur:
            cur[w].append((op, o))
    return lives


def oracle(case, obs):
    if "__hang__" in obs:
        return [("hang", "constructor or parse did not return for a grammar that is not left recursive: "
                 f"{case['g']['prods']} start {case['g']['start']}")]
    if case.get("phases"):
        # every session is judged on its own, against the grammar in which the AnyTokenExcept items stand for the tokens of
        # the session's OWN tokenizer; that the parsers share the productions dict and the item objects must not show
        out, seen = [], set()
        what = (f"AnyTokenExcept items {case['any']} (symbol, position, excluded) in ONE productions dict for "
                f"{len(case['phases'])} tokenizers, schedule {case['schedule']}; ")
        for k, (v, o) in enumerate(zip(_views(case), obs["phases"])):
            for sig, msg in oracle(v, o):
                if sig not in seen:
                    seen.add(sig)
                    out.append((sig, what + f"tokenizer {k}, expanded {msg}"))
        return out
    g = case["g"]
    prods = _plain(g)
    start = g["start"]
    if L.ref_left_recursive(prods) or _has_duplicate_alts(g):
        return []       # outside the quantifier (C03 / malformed grammar)
    ll1 = L.ref_is_ll1(prods, start)
    out = []
    desc = f"grammar {g['prods']} start {start!r}"
    tk = case.get("tok")
    if tk:
        desc += (f" tokenizer {json.dumps(tk['lex'])} synonyms {json.dumps(tk['syn'])} keywords {json.dumps(tk['kw'])} "
                 f"skip_tokens={'None' if tk['skip'] is None else tk['skip_form'] + '(' + json.dumps(tk['skip']) + ')'}"
                 f"{'' if tk.get('start_kw', True) else ' start_symbol_name left to the default'}")
        if obs.get("args_changed"):
            out.append(("ctor-argument-mutated", f"{desc}: the constructor's arguments were {obs['args_changed'][0]} and are "
                        f"{obs['args_changed'][1]} after the program"))

    def shown(i):
        toks = [t for t, _ in case["inputs"][i]]
        if tk:
            return f"text {case['texts'][i]!r} (token sequence after skip_tokens {toks})"
        return f"{toks}"
    members = {}
    trees = {}

    def member(i):
        if i not in members:
            members[i] = L.earley_recognize(prods, start, [t for t, _ in case["inputs"][i]])
        return members[i]

    def the_trees(i):
        if i not in trees:
            trees[i] = ref_trees(prods, start, case["inputs"][i], limit=2)
        return trees[i]

    per_setting = {0: {}, 1: {}}       # smart value -> input index -> set of results over all objects and moments
    amb_setting = {0: set(), 1: set()}
    from_setting = {0: {}, 1: {}}
    for w, life in _lives(case, obs):
        tag = f"smart_factorization={bool(w)}"
        if len(life[0][1]) != 1:
            out.append(("ctor-error", f"{desc} {tag}: constructor raised {life[0][1][1]} for a grammar without left recursion"))
            continue
        answers = []      # is_ambiguous() answers of this object, in order
        reported_free = any(q[0] == "amb" and r[1] is False for q, r in life[1:])
        n_parsed = 0
        for op, o in life[1:]:
            if op[0] == "amb":
                when = f"after {n_parsed} parse() calls on the object"
                if not isinstance(o[1], bool):
                    out.append(("is-ambiguous-raised", f"{desc} {tag}: is_ambiguous() raised {o[1]} {when}"))
                    continue
                if ll1 and o[1]:
                    out.append(("ll1-reported-ambiguous", f"{desc} {tag}: predict sets are pairwise disjoint (independent "
                                f"computation) but is_ambiguous() is True {when}"))
                if answers and answers[-1] != o[1]:
                    out.append(("is-ambiguous-changed", f"{desc} {tag}: is_ambiguous() was {answers[-1]} and is {o[1]} {when}; "
                                "the grammar of a parser object does not change"))
                answers.append(o[1])
                amb_setting[w].add(o[1])
                continue
            if o[0] != "parse":
                continue
            n_parsed += 1
            if op[0] == "parse_from":
                # parse(text, start_symbol_name=s): the property says nothing about the fragment's verdict; the same call
                # must give the same result at every moment
                k2 = (op[2], op[3])
                from_setting[w].setdefault(k2, [])
                if o[1:] not in from_setting[w][k2]:
                    from_setting[w][k2].append(o[1:])
                # ... and an ACCEPTED fragment is a sentence of the symbol that was asked for, rooted there (also when the
                # name is a falsy one: '' is a name like any other), a name that is no symbol of the grammar is refused
                sym = op[3]
                if o[1] == "ok":
                    ftoks = [t for t, _ in case["inputs"][op[2]]]
                    if sym not in prods:
                        out.append(("fragment-not-from-symbol", f"{desc} {tag}: parse({shown(op[2])}, start_symbol_name={sym!r}) "
                                    f"returned a tree although {sym!r} is no symbol of the grammar"))
                    elif o[2][1] != sym or not L.earley_recognize(prods, sym, ftoks):
                        out.append(("fragment-not-from-symbol", f"{desc} {tag}: parse({shown(op[2])}, start_symbol_name={sym!r}) "
                                    f"returned a tree rooted at {o[2][1]!r}; the token sequence is "
                                    f"{'a' if L.earley_recognize(prods, sym, ftoks) else 'no'} sentence of {sym!r}"))
                continue
            i = op[2]
            inp = case["inputs"][i]
            toks = [t for t, _ in inp]
            x = o[1:]
            key = repr(x)
            per_setting[w].setdefault(i, [])
            if key not in [k for k, _ in per_setting[w][i]]:
                per_setting[w][i].append((key, x))
            # the property's clause: whenever is_ambiguous() is False (asked at any moment of this object's life;
            # for an LL(1) grammar in any case) the language is exact
            if not ll1 and not reported_free:
                continue
            mem = member(i)
            if mem and x[0] != "ok":
                out.append(("sentence-rejected", f"{desc} {tag}: sentence {shown(i)} raised {x[1]} (parse() call number {n_parsed} on the object)"))
            elif not mem and x[0] == "ok":
                out.append(("nonsentence-accepted", f"{desc} {tag}: non-sentence {shown(i)} was accepted (parse() call number {n_parsed} on the object)"))
            elif not mem and x[1] != "ParsingError":
                out.append(("nonsentence-other-error", f"{desc} {tag}: non-sentence {shown(i)} raised {x[1]}, not ParsingError"))
            elif mem:
                tr = the_trees(i)
                if len(tr) != 1:
                    if reported_free:
                        out.append(("conflict-free-but-ambiguous", f"{desc} {tag}: is_ambiguous() is False but {shown(i)} "
                                    f"has {len(tr)}+ derivations"))
                elif tr[0] != x[1]:
                    out.append(("wrong-tree", f"{desc} {tag}: {shown(i)} parsed to {x[1]}, the unique derivation is {tr[0]} "
                                f"(parse() call number {n_parsed} on the object)"))
    # a parser's answer depends on the grammar and the text, not on what the object (or another object built from the
    # same productions dict) did before
    for w in (0, 1):
        tag = f"smart_factorization={bool(w)}"
        if len(amb_setting[w]) > 1:
            out.append(("is-ambiguous-changed", f"{desc} {tag}: is_ambiguous() answered both True and False for the same "
                        "productions dict (different moments / objects)"))
        for i, results in per_setting[w].items():
            if len(results) > 1:
                out.append(("parse-history-dependent", f"{desc} {tag}: {[t for t, _ in case['inputs'][i]]} gave "
                            f"{results[0][1]} at one moment and {results[1][1]} at another"))
                break
        for (i, sym), results in from_setting[w].items():
            if len(results) > 1:
                out.append(("parse-history-dependent", f"{desc} {tag}: {[t for t, _ in case['inputs'][i]]} parsed with "
                            f"start_symbol_name={sym!r} gave {results[0]} at one moment and {results[1]} at another"))
                break
    # both settings conflict-free => identical verdicts (follows from the above; reported separately for readability)
    if amb_setting[0] == {False} and amb_setting[1] == {False}:
        for i in sorted(set(per_setting[0]) & set(per_setting[1])):
            xa, xb = per_setting[0][i][0][1], per_setting[1][i][0][1]
            if xa != xb:
                out.append(("smart-differs", f"{desc}: {[t for t, _ in case['inputs'][i]]} gives {xa} without and {xb} with smart_factorization"))
                break
    # first failure per signature
    seen, res = set(), []
    for sig, msg in out:
        if sig not in seen:
            seen.add(sig)
            res.append((sig, msg))
    return res


def _first_answers(case, obs):
    """per smart value: None (not constructed) | exception class | (first is_ambiguous() answer, [parse results])"""
    res = {}
    for w, life in _lives(case, obs):
        if w in res:
            continue
        if len(life[0][1]) != 1:
            res[w] = life[0][1][1]
            continue
        ambs = [o[1] for op, o in life[1:] if op[0] == "amb"]
        parses = [o for op, o in life[1:] if op[0] == "parse" and o[0] == "parse"]
        res[w] = (ambs[0] if ambs else None, parses)
    return res


def nontrivial(case, obs):
    if "__hang__" in obs:
        return False
    if case.get("phases"):
        return all(nontrivial(v, o) for v, o in zip(_views(case), obs["phases"]))
    fa = _first_answers(case, obs)
    if len(fa) < 2 or any(not isinstance(v, tuple) for v in fa.values()):
        return False
    free = [v for v in fa.values() if v[0] is False]
    if not free:
        return False
    if not L.ref_nullable(_plain(case["g"])):
        return False
    r = free[0][1]
    return any(x[1] == "ok" for x in r) and any(x[1] != "ok" for x in r)


def outcome(case, obs):
    if "__hang__" in obs:
        return "hang"
    if case.get("phases"):
        return " || ".join(outcome(v, o) for v, o in zip(_views(case), obs["phases"]))
    fa = _first_answers(case, obs)
    parts = []
    for w in (0, 1):
        v = fa.get(w)
        if v is None:
            parts.append("not-built")
        elif not isinstance(v, tuple):
            parts.append("ctor:" + v)
        else:
            n_ok = sum(1 for x in v[1] if x[1] == "ok")
            parts.append(f"amb={int(bool(v[0]))} parsed={'some' if n_ok else 'none'}")
    return " | ".join(parts)


def _restrict(case, keep):
    """the case with only the inputs `keep` (indices), the program's parse ops re-numbered / dropped accordingly"""
    idx = {i: k for k, i in enumerate(keep)}
    prog = []
    for op in _prog_full(case):
        if op[0] in ("parse", "parse_from"):
            if op[2] in idx:
                prog.append([op[0], op[1], idx[op[2]]] + list(op[3:]))
        else:
            prog.append(list(op))
    c = dict(case, inputs=[case["inputs"][i] for i in keep], prog=prog)
    if "texts" in case:
        c["texts"] = [case["texts"][i] for i in keep]
    return c


def shrink_candidates(case):
    if case.get("phases"):
        # fewer operations per phase (never a constructor call); the schedule is re-cut proportionally
        for i, ph in enumerate(case["phases"]):
            for k, op in enumerate(ph["prog"]):
                if op[0] != "build":
                    phases = [dict(q) for q in case["phases"]]
                    phases[i]["prog"] = ph["prog"][:k] + ph["prog"][k + 1:]
                    sched, pos = [], [0] * len(phases)
                    for j, n in case["schedule"]:
                        n2 = n - 1 if (j == i and pos[j] <= k < pos[j] + n) else n
                        pos[j] += n
                        if n2:
                            sched.append([j, n2])
                    yield dict(case, phases=phases, schedule=sched)
        return
    g = case["g"]
    n = len(case["inputs"])
    prog = _prog_full(case)
    if n > 1:
        for i in range(n):
            yield _restrict(case, [i])
        for i in range(n):
            for j in range(n):
                if i != j:
                    yield _restrict(case, [i, j])
    # drop one operation (never a constructor call)
    for k, op in enumerate(prog):
        if op[0] != "build":
            yield dict(case, prog=prog[:k] + prog[k + 1:])
    for i, (nt, alts) in enumerate(g["prods"]):
        if len(alts) > 1:
            for j in range(len(alts)):
                g2 = dict(g)
                g2["prods"] = [list(x) for x in g["prods"]]
                g2["prods"][i] = [nt, alts[:j] + alts[j + 1:]]
                yield dict(case, g=g2, prog=prog)


TECHNIQUE = ("Coq proof (fixpoint iterations shown sound by invariant and complete by 'closed + enough fuel'; table by "
             "membership characterisation; big-step simulation of the parser's stack machine on a derivation tree) over the "
             "hand-written Gallina model coq/LLP + per-run correspondence (vm_compute vs implementation) of whole programs over two "
             "parser objects (both smart_factorization values, one productions dict; is_ambiguous() and parse() at many moments; "
             "with the plain tokenizer on token lists, and with generated tokenizer configurations / skip_tokens arguments on texts) "
             "+ independent LL(1)/Earley/derivation-enumeration oracle")
LEVEL_TEXT = ("Partial.  Full theorems (model level, all grammars accepted by the shape validator wf_grammar, all tokens): "
              "nullable_exact, first_exact, follow_exact (the three fuelled fixpoints of _get_nullables/_calc_first_sets/"
              "_calc_follow_sets equal the inductive Nullable/First/Follow; fixpoints_reached: the fuel suffices), predict_exact, "
              "table_complete, table_sound, is_ambiguous_spec (False iff no cell holds two rules), ll1_iff_not_ambiguous (the table "
              "of a grammar is conflict-free iff that grammar is LL(1)), ll1_reject + parse_returns_derivation (a non-sentence of the "
              "USER's grammar is never accepted, an accepted text is a sentence and the tree its derivation; for any table, both "
              "smart values; by C01.parse_sound_constructor, not re-proved); at any moment of an object's life (model of programs, "
              "C02/Session.v): parse_does_not_change_tables, is_ambiguous_does_not_change_tables, session_history_independent, "
              "is_ambiguous_any_moment, parse_any_moment, objects_stay_as_constructed, built_object_answers (all trivial in the model, "
              "where a parser is a value: they say what the correspondence of programs checks about the implementation's objects), "
              "ll1_reported_any_moment_partial and ll1_complete_any_moment_partial (the partial theorems below lifted to every moment of every "
              "program).  PropsTok.v, for parsers built with a tokenizer configuration and used on texts (full, by "
              "C01.PropsTok.parse_text_sound, imported): skip_tokens_explicit, skip_tokens_default, empty_skip_tokens_skips_nothing "
              "(an explicitly empty collection: the token sequence is everything the tokenizer delivers), token_sequence_is_filtered, "
              "parse_text_is_parse_of_tokens, parse_text_returns_derivation + ll1_reject_text (any configuration, any skip_tokens "
              "argument: an accepted text's tree is a derivation of ITS token sequence = tokenizer output minus the skipped names; a "
              "text whose token sequence is no sentence is never accepted), build_with_tokenizer (the table does not depend on "
              "skip_tokens), session_text_history_independent, is_ambiguous_any_moment_text, parse_text_any_moment, "
              "parse_text_from_any_moment, objects_stay_as_constructed_text, parse_text_returns_derivation_any_moment; partial (as "
              "ll1_complete_partial): ll1_complete_text_partial; examples ex_blank_significant / ex_blank_skipped (E -> WORD TAIL; "
              "TAIL -> SPACE WORD TAIL | eps with skip_tokens [] / [COMMA] resp. None / [SPACE], group SPACE resp. WS renamed by "
              "synonyms), ex_skip_unknown_name.  PropsAny.v, productions with AnyTokenExcept items (full): any_item_tokens, any_item_means, "
              "any_expansion_exact (the expanded productions of a symbol are exactly the written ones and (t,) for every terminal of THIS "
              "parser that is not excluded), plain_productions_unchanged, any_constructor_uses_own_terminals, "
              "shared_productions_two_tokenizers (one productions value, any two configurations: each parser is the parser of the "
              "expansion with its own terminals), session_any_is_session_of_expansion, parse_text_returns_derivation_any, "
              "ll1_reject_text_any (soundness w.r.t. the expanded grammar); examples ex_any_expansions, ex_any_two_tokenizers (the seed's "
              "bracket grammar with and without quoted strings).  Partial: ll1_reported_partial / "
              "ll1_reported_no_common_prefix (LL(1) as written => is_ambiguous() False) only when the factorization is the identity "
              "(factorization_identity: no two adjacent alternatives with the same first symbol), for other grammars only "
              "ll1_reported_factorized (conflict-free iff the FACTORIZED grammar is LL(1)); ll1_complete_partial + "
              "derivation_unique_partial + ll1_language_exact_partial (every sentence is accepted with any large enough budget and "
              "the result is its unique derivation tree) only when the factorization introduced no suffix symbols.  Statement only "
              "(ll1_reported_statement, ll1_complete_statement, c02_statement): the same for factorized grammars (needs "
              "'factorization preserves LL(1)' and the un-splicing of suffix nodes) and 'a non-sentence ends in ParsingError' "
              "(termination, C03).  Those clauses are tested on every run by the correspondence and the oracle "
              "(both smart values, members and non-members, at every moment of the generated programs: oracle signatures "
              "is-ambiguous-changed, parse-history-dependent beside the language ones).")
LEVEL_NOTE = ("Trusted: Coq kernel + vm_compute; fidelity of the hand model coq/LLP (checked by correspondence on every run, incl. the "
              "internal nullable/FIRST/FOLLOW sets and the table in the thorough tier); wf_grammar is "
              "evaluated on every generated grammar (translation validation of the theorems' hypothesis); the tokenizer model of C04 "
              "(compared with the generator's token sequences on every tok case); the harness.")
DESIGN_REF = "DESIGN.md section 8, C02"
