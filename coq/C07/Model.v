(* C07/Model.v -- executable model of the parts of ak/ghist.py that decide
   "component builds are reported at the first parent build that ships them".

   Part 1  ReposCollection.__init__ (ghist.py:1837-1896): components-before-owners
           ordering, an explicit-stack DFS, modelled as the same stack machine
           ([ostep] is one iteration of the while loop) + make_reports_data (1949-1968).
   Part 2  ComponentBump.is_trivial / get_rbuilds_in_bump (ghist.py:135-203): the set of the
           from-builds' ancestors (work list with a visited set), then the DFS from the to-build.
   Part 3  RGraph.__init__ / _read_branch / _mk_rcommits / _find_new_rcommits_in_build /
           _mk_bumps_info / the "not merged" pseudo build / included_at registration
           (ghist.py:532-1125) for ONE parent repository that pins SEVERAL components
           (the per-component loop of _mk_bumps_info, the per-component pending bumps and
           the per-component registration loop; a component is its position in the list of
           component graphs handed to RGraph).  The finished RGraph of each component (its
           RBuilds with parents, its bn_map, its branches) is an input ([cinfo]); how it is
           built is property C06's business (for a component that pins sub-components itself:
           this very model, one level down).

   Conventions: commits of the parent are numbered by position in a list; RCommit /
   RBuild iids of the parent are [Z] (the pseudo builds start at 10^9 as in the code);
   the component's RBuild iids are [nat] ranks (order-preserving renumbering done by
   the harness: the code only ever compares iids).  Python dicts keyed by iid are kept
   as duplicate-free lists sorted by iid (the observables do not depend on dict order:
   the harness sorts from_build_nums).  A build number is (major, minor, build); tags
   and pins never give patch <> build.  Explicit DFS stacks over the commit graphs are
   fuelled recursion (post-order, last parent first, exactly as the stacks are walked);
   running out of fuel is reported as [Err Hang], never as a result.
   No proofs in this file. *)
From Coq Require Import ZArith List Bool Arith.
From AK Require Import Common.Sx Common.Err.
Import ListNotations.

(* ================================================================== *)
(* helpers                                                             *)

Definition nmem (x : nat) (l : list nat) : bool := existsb (Nat.eqb x) l.
Definition zmem (x : Z) (l : list Z) : bool := existsb (Z.eqb x) l.

Fixpoint ninsert (x : nat) (l : list nat) : list nat :=
  match l with
  | [] => [x]
  | y :: r => if x <=? y then x :: l else y :: ninsert x r
  end.
(* python sorted() on a list *)
Definition nsort (l : list nat) : list nat := fold_right ninsert [] l.

(* sets of nat / Z as sorted duplicate-free lists *)
Fixpoint nadd (x : nat) (l : list nat) : list nat :=
  match l with
  | [] => [x]
  | y :: r => if x =? y then l else if x <? y then x :: l else y :: nadd x r
  end.
Definition nunion (a b : list nat) : list nat := fold_left (fun acc x => nadd x acc) a b.

Fixpoint zadd (x : Z) (l : list Z) : list Z :=
  match l with
  | [] => [x]
  | y :: r => if Z.eqb x y then l else if Z.ltb x y then x :: l else y :: zadd x r
  end.
Definition zunion (a b : list Z) : list Z := fold_left (fun acc x => zadd x acc) a b.

Definition nfind {V} (k : nat) (m : list (nat * V)) : option V :=
  match find (fun p => fst p =? k) m with Some p => Some (snd p) | None => None end.
Definition zfind {V} (k : Z) (m : list (Z * V)) : option V :=
  match find (fun p => Z.eqb (fst p) k) m with Some p => Some (snd p) | None => None end.
(* dict[k] = v on a map kept sorted by key *)
Fixpoint zput {V} (k : Z) (v : V) (m : list (Z * V)) : list (Z * V) :=
  match m with
  | [] => [(k, v)]
  | (k', v') :: r => if Z.eqb k k' then (k, v) :: r
                     else if Z.ltb k k' then (k, v) :: m else (k', v') :: zput k v r
  end.

Definition nonempty {A} (l : list A) : bool := match l with [] => false | _ => true end.
Fixpoint nmax (l : list nat) : option nat :=
  match l with [] => None | x :: r => match nmax r with None => Some x | Some m => Some (Nat.max x m) end end.
Fixpoint zmax (l : list Z) : option Z :=
  match l with [] => None | x :: r => match zmax r with None => Some x | Some m => Some (Z.max x m) end end.

(* ================================================================== *)
(* Part 1: repository ordering                                         *)

Notation deps_t := (list (nat * list nat)).

(* cur_repo._COMPONENTS_VERSIONS_LOCATIONS (its keys, in declaration order) *)
Definition comps_of (deps : deps_t) (x : nat) : list nat :=
  match nfind x deps with Some l => l | None => [] end.

(* One level of dfs_stack together with its dfs_sp is kept as the list of the
   entries still to be looked at, current one first:  rev (level[0 .. sp]). *)
Record ost := mkO {
  o_stack : list (list nat);
  o_path : list (option nat);      (* dfs_path_names, top first *)
  o_done : list nat;               (* done_repos *)
  o_sorted : list nat }.           (* self.sorted_repos, newest first *)

Inductive ores := OCont (s : ost) | OFin (out : list nat) | ORaise (e : err).

Definition omem (x : option nat) (l : list (option nat)) : bool :=
  existsb (fun y => match x, y with Some a, Some b => a =? b | _, _ => false end) l.

(* sorted(repo_id for repo_id in cur_repo._COMPONENTS... if repo_id in self.repos and repo_id not in done_repos) *)
Definition todo (repos : list nat) (deps : deps_t) (done : list nat) (cur : nat) : list nat :=
  nsort (filter (fun c => nmem c repos && negb (nmem c done)) (comps_of deps cur)).

(* one iteration of `while dfs_stack:` *)
Definition ostep (repos : list nat) (deps : deps_t) (s : ost) : ores :=
  match o_stack s with
  | [] => OFin (rev (o_sorted s))
  | [] :: rest => OCont (mkO rest (tl (o_path s)) (o_done s) (o_sorted s))
  | (cur :: more) :: rest =>
      if nmem cur (o_done s) then
        OCont (mkO (more :: rest) (hd_error more :: tl (o_path s)) (o_done s) (o_sorted s))
      else
        let nps := todo repos deps (o_done s) cur in
        match nps with
        | [] => OCont (mkO (more :: rest) (hd_error more :: tl (o_path s))
                           (cur :: o_done s) (cur :: o_sorted s))
        | _ => if existsb (fun c => omem (Some c) (o_path s)) nps then ORaise ValueErr
               else OCont (mkO (rev nps :: (cur :: more) :: rest)
                               (hd_error (rev nps) :: o_path s) (o_done s) (o_sorted s))
        end
  end.

Fixpoint orun (fuel : nat) (repos : list nat) (deps : deps_t) (s : ost) : res (list nat) :=
  match fuel with
  | O => Err Hang
  | S f => match ostep repos deps s with
           | OCont s' => orun f repos deps s'
           | OFin out => (* assert len(self.sorted_repos) == len(self.repos) *)
               if length out =? length repos then Ok out else Err AssertErr
           | ORaise e => Err e
           end
  end.

Definition oinit (repos : list nat) : ost :=
  let l := nsort repos in
  match l with
  | [] => mkO [] [] [] []
  | _ => mkO [rev l] [hd_error (rev l)] [] []
  end.

Definition total_deps (repos : list nat) (deps : deps_t) : nat :=
  fold_right (fun x acc => length (comps_of deps x) + acc) 0 repos.

(* number of loop iterations allowed: 3 per repository + 2 per declared dependency + 2 *)
Definition ofuel (repos : list nat) (deps : deps_t) : nat :=
  3 * length repos + 2 * total_deps repos deps + 3.

(* ReposCollection(repos).sorted_repos ; [repos] = keys in supply order *)
Definition sort_repos (repos : list nat) (deps : deps_t) : res (list nat) :=
  orun (ofuel repos deps) repos deps (oinit repos).

(* make_reports_data: the order of analysis and the components handed to each
   build_report_rgraph call; the result list is reversed at the end *)
Fixpoint analyse (deps : deps_t) (prev : list nat) (l : list nat) : list (nat * list nat) :=
  match l with
  | [] => []
  | x :: r => (x, filter (fun p => nmem p (comps_of deps x)) prev) :: analyse deps (prev ++ [x]) r
  end.
Definition reports_order (repos : list nat) (deps : deps_t) : res (list (nat * list nat)) :=
  bind (sort_repos repos deps) (fun out => Ok (rev (analyse deps [] out))).

(* ================================================================== *)
(* Part 2: ComponentBump                                               *)

Notation bn := (Z * Z * Z)%type.

Definition bn_eqb (a b : bn) : bool :=
  let '(a1, a2, a3) := a in let '(b1, b2, b3) := b in
  Z.eqb a1 b1 && Z.eqb a2 b2 && Z.eqb a3 b3.
(* A version component is an integer >= 0, or the string '?' that get_saved_build_number
   (ghist.py:1496) uses when no saved version can be read: [qm].  BuildNumData.cmp
   (ghist.py:329-351, _cmp_opt_ints): two integers compare numerically, an integer is
   smaller than a non-integer, two non-integers are equal. *)
Definition qm : Z := (-1)%Z.
Definition is_int (x : Z) : bool := Z.leb 0 x.
Definition cmp_opt_ints (a b : Z) : Z :=
  if is_int a && is_int b then (a - b)%Z
  else if is_int a then (-1)%Z else if is_int b then 1%Z else 0%Z.
(* BuildNumData.cmp <= 0 *)
Definition bn_leb (a b : bn) : bool :=
  let '(a1, a2, a3) := a in let '(b1, b2, b3) := b in
  let r1 := cmp_opt_ints a1 b1 in
  if negb (Z.eqb r1 0) then Z.ltb r1 0
  else let r2 := cmp_opt_ints a2 b2 in
       if negb (Z.eqb r2 0) then Z.ltb r2 0
       else Z.leb (cmp_opt_ints a3 b3) 0.

(* ---- from a build tag to a build number (ghist.py:1413-1438, 1734-1770) ----
   A tag is  build_<n>_<branch text>_success.  The harness tells the model which of the three
   routes of RepoBuildsByTagDetector.finalize_build_tag_info the tag takes:
     TagFull M m     parse_buildtag already delivered major and minor (overridden tag format);
     TagRelease M m  the branch text is release_<M>_<m>: guess_major_minor_build_by_tag_substr
                     returns (M, m) and the test is `major is not None`  -- M = 0 is a version;
     TagWord         any other branch text: major and minor come from the version file saved in
                     the commit ([Some (M, m)]), or are '?' when there is none / it is unreadable.
   patch = build = n on all three routes. *)
Inductive tagsrc := TagFull (M m : Z) | TagRelease (M m : Z) | TagWord.
Notation rawtag := (tagsrc * Z)%type.
Definition guess_by_tag (s : tagsrc) : option (Z * Z) :=
  match s with TagRelease M m => Some (M, m) | _ => None end.
Definition finalize_tag (saved : option (Z * Z)) (t : rawtag) : bn :=
  let n := snd t in
  match fst t with
  | TagFull M m => (M, m, n)
  | s => match guess_by_tag s with
         | Some (M, m) => (M, m, n)
         | None => match saved with Some (M, m) => (M, m, n) | None => (qm, qm, n) end
         end
  end.
Fixpoint bn_insert (x : bn) (l : list bn) : list bn :=
  match l with
  | [] => [x]
  | y :: r => if bn_leb x y then x :: l else y :: bn_insert x r
  end.
Definition bn_sort (l : list bn) : list bn := fold_right bn_insert [] l.
(* get_builds_numbers: the finalized build numbers of a commit, ascending (stable) *)
Definition builds_numbers (saved : option (Z * Z)) (tags : list rawtag) : list bn :=
  bn_sort (map (finalize_tag saved) tags).
Definition fake_not_built : bn := (8888, 8888, 8888)%Z.
Definition fake_not_merged : bn := (9999, 9999, 9999)%Z.

(* the component's RBuild graph: iid -> parent_rbuilds keys *)
Notation cgraph := (list (nat * list nat)).
Definition cparents (cg : cgraph) (x : nat) : list nat :=
  match nfind x cg with Some l => l | None => [] end.

Record bump := mkB {
  b_from_bns : list bn;        (* from_build_nums *)
  b_to_bn : bn;                (* to_buildnum *)
  b_from : list nat;           (* from_rbuilds (keys) *)
  b_to : option nat }.         (* to_rbuild *)

Definition is_trivial (b : bump) : bool :=
  match b_to b with
  | None => negb (nonempty (b_from b))
  | Some t => nmem t (b_from b)
  end.

(* get_rbuilds_in_bump, first loop: excluded_iids = the from-builds and all their ancestors.
   The code keeps a work list (a Python list used as a stack: pop() takes the last entry,
   extend() appends the parents) and the set collected so far; here the head of [todo] is the
   top of the stack and the set is a sorted duplicate-free list.  One unit of fuel per
   iteration of `while todo:` (plus the final test); [None] = out of fuel, never a result. *)
Fixpoint excl_loop (fuel : nat) (cg : cgraph) (todo ex : list nat) : option (list nat) :=
  match fuel with
  | O => None
  | S f =>
      match todo with
      | [] => Some ex
      | x :: r => if nmem x ex then excl_loop f cg r ex
                  else excl_loop f cg (rev (cparents cg x) ++ r) (nadd x ex)
      end
  end.

(* every entry is popped once: the from-builds and the parents of each build entered;
   parents have smaller iids than their children, so only builds <= max(from) are entered *)
Definition sum_parents (cg : cgraph) (n : nat) : nat :=
  fold_right (fun x a => length (cparents cg x) + a) 0 (seq 0 n).
Definition excl_fuel (cg : cgraph) (from : list nat) : nat :=
  S (length from + sum_parents cg (match nmax from with Some m => S m | None => 0 end)).
Definition excluded (cg : cgraph) (from : list nat) : option (list nat) :=
  excl_loop (excl_fuel cg from) cg (rev from) [].

(* the DFS of get_rbuilds_in_bump below one RBuild: an excluded build is not entered
   (and not reported); there is NO visited set; an RBuild is put into the result
   after its parents (sorted by iid, walked from the last).  [None] = out of fuel. *)
Fixpoint collect (fuel : nat) (cg : cgraph) (ex : list nat) (x : nat) : option (list nat) :=
  match fuel with
  | O => None
  | S f =>
      if nmem x ex then Some []
      else
        match fold_left (fun acc p => match acc, collect f cg ex p with
                                      | Some a, Some b => Some (a ++ b)
                                      | _, _ => None end)
                        (rev (nsort (cparents cg x))) (Some []) with
        | Some l => Some (l ++ [x])
        | None => None
        end
  end.

(* get_rbuilds_in_bump(): keys of the result dict (first insertion order);
   parents have smaller iids than their children, so fuel [S t] is enough *)
Definition rbuilds_in_bump (cg : cgraph) (b : bump) : option (list nat) :=
  match b_to b with
  | None => Some []
  | Some t => match excluded cg (b_from b) with
              | None => None
              | Some ex => match collect (S t) cg ex t with
                           | Some l => Some (nodup Nat.eq_dec l)
                           | None => None
                           end
              end
  end.

(* ================================================================== *)
(* Part 3: the parent repository                                       *)

Record cinfo := mkCI {
  ci_rbs : list (nat * (bn * list nat));   (* component RBuild iid -> (build_num, parent iids) *)
  ci_bnmap : list (bn * (nat * nat));      (* component bn_map: version -> (branch index, RBuild iid) *)
  ci_branches : list (list nat) }.         (* component RBranch index -> keys of its rbuilds *)

Definition ci_graph (ci : cinfo) : cgraph := map (fun p => (fst p, snd (snd p))) (ci_rbs ci).
Definition bnfind {V} (k : bn) (m : list (bn * V)) : option V :=
  match find (fun p => bn_eqb (fst p) k) m with Some p => Some (snd p) | None => None end.

Record commit := mkC {
  c_parents : list nat;
  c_expl : bool;            (* search_predicate(commit) *)
  c_tags : list bn;         (* successful-build tags on the commit *)
  c_pins : list (option bn) }.  (* per component: the pinned version (None: no version file for it) *)
Definition no_commit : commit := mkC [] false [] [].
(* the version of component k pinned by the commit *)
Definition c_pin (k : nat) (c : commit) : option bn := nth k (c_pins c) None.

(* map with the position: f k x_k :: f (k+1) x_(k+1) :: ... *)
Fixpoint mapi_from {A B} (f : nat -> A -> B) (k : nat) (l : list A) : list B :=
  match l with [] => [] | a :: r => f k a :: mapi_from f (S k) r end.

Record rcommit := mkRC { rc_commit : nat; rc_parents : list Z; rc_expl : bool }.
Definition no_rcommit : rcommit := mkRC 0 [] false.

Record rbuild := mkRB {
  rb_bn : bn;
  rb_type : Z;                 (* 0 NORMAL, 2 FAKE_NOT_MERGED *)
  rb_parents : list Z;         (* parent_rbuilds keys *)
  rb_rcommits : list Z;        (* rcommits keys *)
  rb_bumps : list (option bump) }.   (* bumps.get(component k), by position *)
(* rbuild.bumps.get(component k) *)
Definition rb_bump (k : nat) (rb : rbuild) : option bump := nth k (rb_bumps rb) None.

Record gst := mkG {
  g_done : list nat;               (* done_commits *)
  g_visited : list (nat * list Z); (* visited_commits *)
  g_selected : list (nat * Z);     (* selected_commits *)
  g_prev : list Z;                 (* prev_branches_builds (keys) *)
  g_rcs : list (Z * rcommit);      (* self.rcommits *)
  g_rbs : list (Z * rbuild);       (* self.brcommits *)
  g_cnt : Z;                       (* _rcommits_counter *)
  g_fcnt : Z;                      (* _brcommits_counter *)
  g_bpar : list (Z * list Z);      (* br_cache.rcommits_bparents *)
  g_anc : list (Z * list Z);       (* br_cache.rbuilds_ancestors *)
  g_cur : list (Z * rbuild);       (* cur_branch_rbuilds *)
  g_err : option err }.

Definition set_err (e : err) (g : gst) : gst :=
  mkG (g_done g) (g_visited g) (g_selected g) (g_prev g) (g_rcs g) (g_rbs g) (g_cnt g) (g_fcnt g)
      (g_bpar g) (g_anc g) (g_cur g) (match g_err g with Some e' => Some e' | None => Some e end).

Definition processed (c : nat) (g : gst) : bool :=
  nmem c (g_done g) || nonempty (filter (fun p => fst p =? c) (g_visited g))
  || nonempty (filter (fun p => fst p =? c) (g_selected g)).

Definition get_rc (g : gst) (i : Z) : rcommit :=
  match zfind i (g_rcs g) with Some r => r | None => no_rcommit end.
Definition zget (m : list (Z * list Z)) (i : Z) : list Z :=
  match zfind i m with Some l => l | None => [] end.

(* _is_cur_branch_build_iid *)
Definition is_cur_build (g : gst) (i : Z) : bool :=
  nonempty (filter (fun p => Z.eqb (fst p) i) (g_rbs g)) && negb (zmem i (g_prev g)).

(* "parent_rbuilds may contain unnecessary items": drop the builds that are
   ancestors of other members, until nothing changes *)
Fixpoint reduce (fuel : nat) (anc : list (Z * list Z)) (s : list Z) : list Z :=
  match fuel with
  | O => s
  | S f =>
      let extra := filter (fun i => existsb (fun j => zmem i (zget anc j)) s) s in
      match extra with
      | [] => s
      | _ => reduce f anc (filter (fun i => negb (zmem i extra)) s)
      end
  end.

(* parent RBuilds of all parents of one RCommit (or of the fake root) *)
Definition parent_builds_of (g : gst) (bpar : list (Z * list Z)) (parents : list Z) : list Z :=
  let raw := fold_left (fun acc p => if is_cur_build g p then zadd p acc else zunion acc (zget bpar p))
                       parents [] in
  reduce (S (length raw)) (g_anc g) raw.

(* inner DFS of _find_new_rcommits_in_build below one RCommit.
   acc = (rcommits_bparents, new_rcommits, out_of_fuel) *)
Fixpoint bp_visit (fuel : nat) (g : gst) (rc : Z)
         (acc : list (Z * list Z) * list Z * bool) : list (Z * list Z) * list Z * bool :=
  match fuel with
  | O => let '(bp, nw, _) := acc in (bp, nw, true)
  | S f =>
      let '(bp, nw, h) := acc in
      if is_cur_build g rc then acc
      else if nonempty (filter (fun p => Z.eqb (fst p) rc) bp) then acc
      else
        let r := get_rc g rc in
        let '(bp1, nw1, h1) := fold_left (fun a p => bp_visit f g p a) (rev (rc_parents r)) acc in
        let prb := parent_builds_of g bp1 (rc_parents r) in
        (zput rc prb bp1, if rc_expl r then zadd rc nw1 else nw1, h1)
  end.

(* _find_new_rcommits_in_build(heads, ...) -> (new_rcommits, head_rbuilds), updates the cache *)
Definition find_new (g : gst) (heads : list Z) : list Z * list Z * gst :=
  let fuel := S (S (Z.to_nat (g_cnt g))) in
  let '(bp, nw, h) := fold_left (fun a p => bp_visit fuel g p a) (rev heads) (g_bpar g, [], false) in
  let prb := parent_builds_of g bp heads in
  let g' := mkG (g_done g) (g_visited g) (g_selected g) (g_prev g) (g_rcs g) (g_rbs g) (g_cnt g)
                (g_fcnt g) bp (g_anc g) (g_cur g) (g_err g) in
  (nw, prb, if h then set_err Hang g' else g').

Definition get_rb (g : gst) (i : Z) : option rbuild :=
  match zfind i (g_cur g) with Some r => Some r | None => zfind i (g_rbs g) end.

(* _mk_bumps_info, the body of the loop over the components, for component k with version map
   [ci]: from_builnums and from_rbuilds are initialised INSIDE the loop body (the fold over the
   parent builds starts from ([], []) for every component) and only the parent builds' bumps of
   component k are looked at.  The keys of from_rbuilds are RBuild iids of component k's own
   repository (an iid is unique within one repository only). *)
Definition mk_bump (k : nat) (ci : cinfo) (g : gst) (cm : commit) (prb : list Z) : option bump :=
  if nonempty (ci_bnmap ci) then
    match c_pin k cm with
    | None => None
    | Some pin =>
        let to0 := match bnfind pin (ci_bnmap ci) with Some p => Some (snd p) | None => None end in
        let '(fbns, frbs) :=
          fold_left (fun acc p =>
                       match get_rb g p with
                       | Some rb => match rb_bump k rb with
                                    | Some pb => (fst acc ++ [b_to_bn pb],
                                                  match b_to pb with
                                                  | Some t => nadd t (snd acc)
                                                  | None => nunion (snd acc) (b_from pb)
                                                  end)
                                    | None => acc
                                    end
                       | None => acc
                       end) prb ([], []) in
        let to := match to0 with
                  | Some t => Some t
                  | None => nmax frbs      (* "references unknown version": keep the newest from-build *)
                  end in
        Some (mkB fbns pin frbs to)
    end
  else None.

(* _mk_bumps_info: {component: ComponentBump}, one entry per component, each computed by itself *)
Definition mk_bumps (cis : list cinfo) (g : gst) (cm : commit) (prb : list Z) : list (option bump) :=
  mapi_from (fun k ci => mk_bump k ci g cm prb) 0 cis.
Definition nontrivial_bump (ob : option bump) : bool :=
  match ob with Some b => negb (is_trivial b) | None => false end.

(* rc_parents accumulated for a commit from the caches of its parents (last parent first) *)
Definition rc_parents_of (g : gst) (parents : list nat) : list Z :=
  fold_left (fun acc p =>
               if nmem p (g_done g) then acc
               else match nfind p (g_visited g) with
                    | Some l => fold_left (fun a x => if zmem x a then a else a ++ [x]) l acc
                    | None => match nfind p (g_selected g) with
                              | Some i => if zmem i acc then acc else acc ++ [i]
                              | None => acc
                              end
                    end) (rev parents) [].

(* the part of the DFS loop that finishes a commit: _mk_rcommits + cache registration *)
Definition finalise (cis : list cinfo) (head : nat) (c : nat) (cm : commit) (g : gst) : gst :=
  let rcp := rc_parents_of g (c_parents cm) in
  (* accumdat.relevant_cmpnts: the components that have report-related builds at all *)
  let relevant := existsb (fun ci => nonempty (ci_bnmap ci)) cis in
  if negb (c_expl cm || relevant || nonempty rcp) then
    mkG (c :: g_done g) (g_visited g) (g_selected g) (g_prev g) (g_rcs g) (g_rbs g) (g_cnt g)
        (g_fcnt g) (g_bpar g) (g_anc g) (g_cur g) (g_err g)
  else
    let is_build := nonempty (c_tags cm) in
    let is_head := c =? head in
    let '(is_rbuild, bns, nw, prb, bmp, g1) :=
      if is_build || is_head then
        let '(nw, prb, g1) := find_new g rcp in
        let bns := match bn_sort (c_tags cm) with [] => [fake_not_built] | l => l end in
        let bmp := mk_bumps cis g1 cm prb in
        let nontriv := existsb nontrivial_bump bmp in
        (c_expl cm || nonempty nw || nontriv || (1 <? length prb), bns, nw, prb, bmp, g1)
      else (false, [], [], [], [], g) in
    if c_expl cm || is_rbuild then
      let iid := g_cnt g1 in
      let rcs := zput iid (mkRC c rcp (c_expl cm)) (g_rcs g1) in
      let sel := (c, iid) :: g_selected g1 in
      if is_rbuild then
        let rb := mkRB (hd fake_not_built bns) 0 prb (zadd iid nw) bmp in
        let anc := fold_left (fun acc p => zunion (zadd p acc) (zget (g_anc g1) p)) prb [] in
        mkG (g_done g1) (g_visited g1) sel (g_prev g1) rcs (zput iid rb (g_rbs g1)) (iid + 1)
            (g_fcnt g1) (g_bpar g1) (zput iid anc (g_anc g1)) (zput iid rb (g_cur g1)) (g_err g1)
      else
        mkG (g_done g1) (g_visited g1) sel (g_prev g1) rcs (g_rbs g1) (iid + 1)
            (g_fcnt g1) (g_bpar g1) (g_anc g1) (g_cur g1) (g_err g1)
    else
      match rcp with
      | [] => mkG (c :: g_done g1) (g_visited g1) (g_selected g1) (g_prev g1) (g_rcs g1) (g_rbs g1)
                  (g_cnt g1) (g_fcnt g1) (g_bpar g1) (g_anc g1) (g_cur g1) (g_err g1)
      | _ => mkG (g_done g1) ((c, rcp) :: g_visited g1) (g_selected g1) (g_prev g1) (g_rcs g1)
                 (g_rbs g1) (g_cnt g1) (g_fcnt g1) (g_bpar g1) (g_anc g1) (g_cur g1) (g_err g1)
      end.

(* outer DFS of _read_branch *)
Fixpoint visit (fuel : nat) (cis : list cinfo) (commits : list commit) (head : nat) (c : nat) (g : gst) : gst :=
  match fuel with
  | O => set_err Hang g
  | S f =>
      if processed c g then g
      else
        let cm := nth c commits no_commit in
        let g1 := fold_left (fun s p => visit f cis commits head p s) (rev (c_parents cm)) g in
        finalise cis head c cm g1
  end.

Definition ci_rb_bn (ci : cinfo) (i : nat) : bn :=
  match nfind i (ci_rbs ci) with Some p => fst p | None => fake_not_built end.

(* the pending bump of component k behind the latest build of the branch (None: nothing pending) *)
Definition pending_bump (k : nat) (ci : cinfo) (rb : rbuild) : option bump * option err :=
  match rb_bump k rb with
  | Some pb =>
      match b_to pb with
      | None => (None, None)
      | Some t =>
          match bnfind (ci_rb_bn ci t) (ci_bnmap ci) with
          | None => (None, Some KeyErr)
          | Some (bri, _) =>
              match nmax (nth bri (ci_branches ci) []) with
              | None => (None, Some AttrErr)
              | Some latest =>
                  let b := mkB [b_to_bn pb] (ci_rb_bn ci latest) [t] (Some latest) in
                  (if is_trivial b then None else Some b, None)
              end
          end
      end
  | None => (None, None)
  end.
Definition is_some {A} (o : option A) : bool := match o with Some _ => true | None => false end.
Definition first_some {A} (l : list (option A)) : option A :=
  fold_right (fun o acc => match o with Some x => Some x | None => acc end) None l.

(* _read_branch: DFS, then the fake "not merged" build.  [prev] = rbuilds of the
   previously read branch.  Returns the rbuilds of this branch. *)
Definition read_branch (cis : list cinfo) (commits : list commit) (prev : list (Z * rbuild)) (head : nat)
           (g0 : gst) : gst * list (Z * rbuild) :=
  let g := visit (S (length commits)) cis commits head head
                 (mkG (g_done g0) (g_visited g0) (g_selected g0) (g_prev g0) (g_rcs g0) (g_rbs g0)
                      (g_cnt g0) (g_fcnt g0) [] [] [] (g_err g0)) in
  let prev_commits := fold_left (fun acc p => zunion acc (rb_rcommits (snd p))) prev [] in
  let this_commits := fold_left (fun acc p => zunion acc (rb_rcommits (snd p))) (g_cur g) [] in
  let not_merged := filter (fun i => rc_expl (get_rc g i) && negb (zmem i this_commits)) prev_commits in
  let last := zmax (map fst (g_cur g)) in
  let parents := match last with Some i => [i] | None => [] end in
  (* pending_cmpnts_bumps: one loop iteration per component that has a bump in the latest build *)
  let pe :=
    match last with
    | None => []
    | Some i => match zfind i (g_cur g) with
                | Some rb => mapi_from (fun k ci => pending_bump k ci rb) 0 cis
                | None => []
                end
    end in
  let pending := map fst pe in
  let e := first_some (map snd pe) in
  let g := match e with Some e => set_err e g | None => g end in
  let '(cur, fcnt) :=
    if nonempty not_merged || existsb is_some pending then
      (zput (g_fcnt g) (mkRB fake_not_merged 2 parents not_merged pending) (g_cur g), (g_fcnt g + 1)%Z)
    else (g_cur g, g_fcnt g) in
  (mkG (g_done g) (g_visited g) (g_selected g) (zunion (g_prev g) (map fst (g_anc g))) (g_rcs g)
       (g_rbs g) (g_cnt g) fcnt (g_bpar g) (g_anc g) cur (g_err g), cur).

Definition g_init : gst := mkG [] [] [] [] [] [] 0 1000000000 [] [] [] None.

(* RGraph.__init__: read the branches in the given (already sorted) order;
   self.branches = reversed, without the branches that have no rbuilds *)
Fixpoint read_branches (cis : list cinfo) (commits : list commit) (heads : list (nat * nat))
         (prev : list (Z * rbuild)) (g : gst) (acc : list (nat * list (Z * rbuild)))
  : gst * list (nat * list (Z * rbuild)) :=
  match heads with
  | [] => (g, acc)
  | (name, head) :: r =>
      let '(g', rbs) := read_branch cis commits prev head g in
      read_branches cis commits r rbs g' ((name, rbs) :: acc)
  end.

(* "register 'included_at' buildnumbers in components", the loop of component k (the loop over the
   components is inside the loop over the branches, but an included_at list belongs to a build of
   ONE component, so the lists of different components do not interleave): list of
   (component RBuild iid, (parent branch, parent build number)) in registration order *)
Definition registrations (k : nat) (ci : cinfo) (branches : list (nat * list (Z * rbuild)))
  : option (list (nat * (nat * bn))) :=
  fold_left (fun acc br =>
     fold_left (fun acc p =>
        let rb := snd p in
        if bn_eqb (rb_bn rb) fake_not_merged then acc
        else match rb_bump k rb with
             | None => acc
             | Some b => match acc, rbuilds_in_bump (ci_graph ci) b with
                         | Some a, Some l => Some (a ++ map (fun x => (x, (fst br, rb_bn rb))) l)
                         | _, _ => None
                         end
             end) (snd br) acc) branches (Some []).

(* included_at of every RBuild of one component, from its registrations *)
Definition included_of (ci : cinfo) (regs : list (nat * (nat * bn))) : list (nat * list (nat * bn)) :=
  map (fun p => (fst p, map snd (filter (fun q => fst q =? fst p) regs))) (ci_rbs ci).

Fixpoint all_some {A} (l : list (option A)) : option (list A) :=
  match l with
  | [] => Some []
  | Some x :: r => match all_some r with Some a => Some (x :: a) | None => None end
  | None :: _ => None
  end.

Record report := mkR {
  r_branches : list (nat * list (Z * rbuild));     (* self.branches of the parent *)
  r_rcs : list (Z * rcommit);
  r_included : list (list (nat * list (nat * bn))) }.  (* component k -> RBuild iid -> included_at *)

Definition parent_report (cis : list cinfo) (commits : list commit) (heads : list (nat * nat)) : res report :=
  let '(g, acc) := read_branches cis commits heads [] g_init [] in
  match g_err g with
  | Some e => Err e
  | None =>
      let branches := filter (fun br => nonempty (snd br)) acc in
      match all_some (mapi_from (fun k ci => match registrations k ci branches with
                                             | Some regs => Some (included_of ci regs)
                                             | None => None end) 0 cis) with
      | None => Err Hang
      | Some inc => Ok (mkR branches (g_rcs g) inc)
      end
  end.
