(* C02/Run.v -- correspondence entry point: the user's grammar is built with
   both smart_factorization values; per build: is_ambiguous, the validators
   [wf_grammar] and [hyps_ok] the C02 theorems assume, the parse result of every token list
   and (thorough tier only) the internal sets as diagnostics. *)
From Coq Require Import ZArith List Bool.
From AK Require Export LLP.Build C02.Model.
From AK Require C01.Run.      (* hyps_ok: C01's validator of the factorization, hypothesis of ll1_reject *)
Import ListNotations.

Inductive case :=
| Grammar2 (ug : list (sym * list (list sym))) (terminals : list sym) (start : sym)
           (fuel : nat) (inputs : list (list (sym * list Z))) (diag : bool).

Definition sx_keyed_sets (keys : list sym) (m : setmap) : sx :=
  sx_list (fun k => SL [sx_str k; sx_list sx_str (sort_syms (sm_get m k))]) (sort_syms keys).

Definition sx_diag (p : parser) : sx :=
  let T := p_tables p in
  SL [sx_list sx_str (sort_syms (t_nulls T));
      sx_keyed_sets (gkeys (t_grammar T)) (t_first T);
      sx_keyed_sets (gkeys (t_grammar T)) (t_follow T);
      sx_list (fun c => SL [sx_str (fst (fst c)); sx_str (snd (fst c)); sx_list SZ (snd c)]) (diag_table T)].

Definition run_one (ug : list (sym * list (list sym))) (terminals : list sym) (start : sym)
           (fuel : nat) (inputs : list (list (sym * list Z))) (diag smart : bool) : sx :=
  match build ug terminals smart start with
  | Err e => SL [SZ 1; SZ (err_code e)]
  | Ok p =>
      SL [SZ 0; sx_bool (is_ambiguous (p_tables p));
          sx_bool (wf_grammar (p_grammar p) (p_terminals p) (p_start p));
          sx_bool (C01.Run.hyps_ok ug start p);
          SL (map (fun inp => sx_res sx_tree (p_parse p fuel (mk_toks inp))) inputs);
          if diag then sx_diag p else SL []]
  end.

Definition run (c : case) : sx :=
  match c with
  | Grammar2 ug terminals start fuel inputs diag =>
      SL [run_one ug terminals start fuel inputs diag false;
          run_one ug terminals start fuel inputs diag true]
  end.
