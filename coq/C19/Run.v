(* C19/Run.v -- entry point of the correspondence check.
   One case = one ArgParser: constructor arguments, a sequence of add_argument
   calls, a list of argument vectors.  Observation (API level only):
     constructor raised e                        (1 code)
     otherwise (0 keys default OPS) where keys = list(command_parsers), and
       OPS = (1 code i)       the i-th add_argument/get_cmd_parser call raised
           | (0 (r1 r2 ...))  every call returned; r_k = (0 hash of namespace) | (1 code)
   A namespace is the list of (attribute value) sorted by attribute name. *)
From Coq Require Import ZArith List Bool.
From AK Require Export Common.Sx C19.Model.
Import ListNotations.
Open Scope Z_scope.

Inductive case :=
| Case (c : cfg) (cmds : list str) (dflt : option str) (ops : list op) (argvs : list (list str)).

Definition exn_code (e : exn) : Z :=
  match e with
  | ValueError => 1 | AssertionError => 4 | AttributeError => 5
  | ArgumentError => 20 | SystemExit => 21
  end.

Definition sx_res' {A} (f : A -> sx) (r : res' A) : sx :=
  match r with
  | Ret a => SL [SZ 0; f a]
  | Raise e => SL [SZ 1; SZ (exn_code e)]
  end.

(* lexicographic order on code points = python's str order *)
Fixpoint str_leb (a b : str) : bool :=
  match a, b with
  | [], _ => true
  | _ :: _, [] => false
  | x :: a', y :: b' => if x <? y then true else if y <? x then false else str_leb a' b'
  end.

Fixpoint insert_sorted (e : str * sx) (l : list (str * sx)) : list (str * sx) :=
  match l with
  | [] => [e]
  | h :: t => if str_leb (fst e) (fst h) then e :: l else h :: insert_sorted e t
  end.
Definition sort_entries (l : list (str * sx)) : list (str * sx) := fold_right insert_sorted [] l.

Definition v_str (s : str) : sx := SL [SZ 0; sx_str s].
Definition v_none : sx := SL [SZ 1].
Definition v_bool (b : bool) : sx := SL [SZ 2; sx_bool b].
Definition v_int (n : nat) : sx := SL [SZ 3; sx_nat n].
Definition v_list (l : list str) : sx := SL [SZ 4; sx_list sx_str l].

Definition k_color : str := [99; 111; 108; 111; 114].
Definition k_command : str := [99; 111; 109; 109; 97; 110; 100].
Definition k_verbose : str := [118; 101; 114; 98; 111; 115; 101].
Definition k_no_log_file : str := [95; 110; 111; 95; 108; 111; 103; 95; 102; 105; 108; 101].

Definition sx_ns (n : ns) : sx :=
  let entries :=
    [(k_command, v_str (ns_command n));
     (k_color, match ns_color n with CStr s => v_str s | CNone => v_none | CFalse => v_bool false end)]
    ++ (match ns_verbose n with Some k => [(k_verbose, v_int k)] | None => [] end)
    ++ (if ns_no_log_file n then [(k_no_log_file, v_bool true)] else [])
    ++ map (fun e => (fst e, v_bool (snd e))) (ns_flags n)
    ++ map (fun e => (fst e, v_list (snd e))) (ns_poss n)
    ++ map (fun e => (fst e, match snd e with Some v => v_str v | None => v_none end)) (ns_vals n) in
  SL (map (fun e => SL [sx_str (fst e); snd e]) (sort_entries entries)).

(* a namespace is compared through a 31-bit hash of its canonical encoding (the
   full text of some 50 namespaces per case is more than coqc can print) *)
Definition hash_mod : Z := 2147483647.
Definition hash_mul : Z := 1000003.
Fixpoint hash_sx (s : sx) (h : Z) {struct s} : Z :=
  match s with
  | SZ z => (h * hash_mul + z + 7) mod hash_mod
  | SL l =>
      let fix go (l : list sx) (h : Z) : Z :=
        match l with
        | [] => h
        | x :: r => go r (hash_sx x h)
        end in
      (go l ((h * hash_mul + 1) mod hash_mod) * hash_mul + 2) mod hash_mod
  end.
Definition sx_ns_hash (n : ns) : sx := SZ (hash_sx (sx_ns n) 0).

(* add_argument calls until the first one that raises *)
Fixpoint run_ops (nl : bool) (st : state) (ops : list op) (i : nat) : state + (exn * nat) :=
  match ops with
  | [] => inl st
  | x :: r => match apply_op nl st x with
              | Ret st' => run_ops nl st' r (S i)
              | Raise e => inr (e, i)
              end
  end.

Definition run_with (enc : ns -> sx) (c : case) : sx :=
  match c with
  | Case c cmds dflt ops argvs =>
      match init_multicmd cmds dflt with
      | Raise e => SL [SZ 1; SZ (exn_code e)]
      | Ret (st, d) =>
          SL [SZ 0; sx_list sx_str (keys st); sx_option sx_str d;
              match run_ops (c_no_log c) st ops 0 with
              | inr (e, i) => SL [SZ 1; SZ (exn_code e); sx_nat i]
              | inl st' =>
                  SL [SZ 0; sx_list (fun argv => sx_res' enc (parse_args mini_sub c st' d argv)) argvs]
              end]
      end
  end.

Definition run : case -> sx := run_with sx_ns_hash.
(* for debugging by hand: the namespaces in full *)
Definition run_full : case -> sx := run_with sx_ns.
