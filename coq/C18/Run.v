(* C18/Run.v -- entry point of the correspondence check. *)
From Coq Require Import ZArith List Bool.
From AK Require Export Common.Sx Common.Err C18.Base C18.Model C18.Session.
Import ListNotations.

(* one call of read_table on a generated worksheet, then get_attr_origin on every
   produced object for every attribute, without key and with every key of [qkeys]
   (strict and non strict) *)
Inductive case :=
| Read (rows : list (list cval)) (rules : list rule) (nid : nat) (stop : str)
       (ladder : bool) (qkeys : list str)
(* a session: several readings in one process (any entry point: iter_table, read_table, a shared
   XlsObjReadRules, the TableReader mixin of a class hierarchy) and in-place modifications of
   values of produced objects in between; every object of every reading is observed at the END *)
| Session (ops : list op).

Definition sx_strs (l : list str) : sx := SL (map sx_str l).

Definition sx_sval (v : sval) : sx :=
  match v with
  | VNone => SL [SZ 0]
  | VInt z => SL [SZ 1; SZ z]
  | VBool b => SL [SZ 2; sx_bool b]
  | VStr s => SL [SZ 3; sx_str s]
  | VList l => SL [SZ 4; sx_strs l]
  | VSet l => SL [SZ 5; sx_strs l]
  end.

Definition kv_leb {A} (a b : str * A) : bool := str_leb (fst a) (fst b).

Definition sx_value (v : value) : sx :=
  match v with
  | VS v => sx_sval v
  | VDict d => SL [SZ 6; SL (map (fun kv => SL [sx_str (fst kv); sx_sval (snd kv)]) (sort_by kv_leb d))]
  | VTSet l => SL [SZ 7; sx_strs l]
  end.

Definition sx_obj (qkeys : list str) (o : obj) : sx :=
  SL (map (fun i =>
        SL [ match nth_error (o_attrs o) i with Some (v, _) => sx_value v | None => SL [] end;
             sx_res sx_str (get_attr_origin o (Some i) None true);
             SL (map (fun k => sx_res sx_str (get_attr_origin o (Some i) (Some k) true)) qkeys);
             SL (map (fun k => sx_res sx_str (get_attr_origin o (Some i) (Some k) false)) qkeys) ])
      (seq 0 (length (o_attrs o)))
      ++ [sx_res sx_str (get_attr_origin o None None true)]).

(* full observation (used when debugging a disagreement) *)
Definition run_full (c : case) : sx :=
  match c with
  | Read rows rules nid stop ladder qkeys =>
      let (items, e) := read_table (mkConfig rules nid stop ladder) rows in
      SL [ SL (map (sx_option (sx_obj qkeys)) items);
           sx_option (fun e => SZ (err_code e)) e ]
  | Session ops =>
      SL (map (fun rd => SL [ SL (map (sx_option (sx_obj (rd_qkeys rd))) (rd_items rd));
                              sx_option (fun e => SZ (err_code e)) (rd_err rd) ])
              (run_session ops))
  end.

(* The read-back of a vm_compute result is not tail recursive in coqc, so the text printed
   per shard has to stay small: every yielded object is reduced to a 61-bit polynomial digest
   of its full observation [sx_obj]; harness/props/c18.py computes the same digest of what
   the implementation did.  (0) stands for a row that yielded None. *)
Definition hP : Z := 2305843009213693951.
Definition hB : Z := 1000003.
Fixpoint hash_sx (s : sx) (h : Z) {struct s} : Z :=
  match s with
  | SZ z => ((h * hB + (z mod hP) + 7) mod hP)%Z
  | SL l =>
      let fix go (l : list sx) (h : Z) : Z :=
        match l with
        | [] => h
        | x :: r => go r (hash_sx x h)
        end in
      ((go l ((h * hB + 3) mod hP) * hB + 5) mod hP)%Z
  end.

Definition run (c : case) : sx :=
  match c with
  | Read rows rules nid stop ladder qkeys =>
      let (items, e) := read_table (mkConfig rules nid stop ladder) rows in
      SL [ SL (map (fun it => match it with
                              | None => SL [SZ 0]
                              | Some o => SZ (hash_sx (sx_obj qkeys o) 1)
                              end) items);
           sx_option (fun e => SZ (err_code e)) e ]
  | Session ops =>
      SL (map (fun rd => SL [ SL (map (fun it => match it with
                                                 | None => SL [SZ 0]
                                                 | Some o => SZ (hash_sx (sx_obj (rd_qkeys rd) o) 1)
                                                 end) (rd_items rd));
                              sx_option (fun e => SZ (err_code e)) (rd_err rd) ])
              (run_session ops))
  end.
