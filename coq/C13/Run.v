(* C13/Run.v -- entry point of the correspondence check.
   [Single]: life-cycle programs on one table (construct, then print / set fmt /
   set own fmt / remove columns / rebuild through the constructor / check the
   round trips).
   [Session]: several tables alive at once over record sets of one record
   structure; tables are created from fmt strings or with fmt_obj= from a
   shared PPTableFormat object / from another table's .fmt object; the same
   operations are applied to any of them in any order; after every operation
   the fmt strings of ALL tables and shared format objects are observed. *)
From Coq Require Import ZArith List Bool.
From AK Require Export Common.Sx Common.Err gen.C13_Consts C13.Model.
Import ListNotations.
Open Scope Z_scope.

Inductive op :=
| OPrint
| OSet (s : str)
| OSelf                       (* t.fmt = str(t.fmt) *)
| ORemove (names : list str)
| OLimits (lim : option limits)   (* t.fmt.set_limits(lim) *)
| ORebuild                    (* t = PPTable(records, fmt=str(t.fmt), fields=...) *)
| OCheck.                     (* round trips on copies of t, t itself untouched *)

Record case1 := mkCase {
  k_fields : list field;
  k_rows : list row;
  k_fmt : option str;
  k_lim : option limits;
  k_skip : option (list str);
  k_ops : list op
}.

Definition sx_view (v : view) : sx :=
  SL [sx_list SZ (vw_widths v); sx_nat (length (vw_lines v))].

(* print on a state: (view or error, str(fmt) afterwards) *)
Definition obs_print (rows : list row) (t : tstate) : tstate * sx :=
  let '(t', r) := print rows t in
  (t', SL [sx_res sx_view r; sx_str (fmt_to_str t')]).

Definition obs_then_print (rows : list row) (r : res tstate) : sx :=
  match r with
  | Err e => sx_res (fun x : sx => x) (Err e)
  | Ok t => SL [SZ 0; sx_str (fmt_to_str t); snd (obs_print rows t)]
  end.

Definition rebuild (t : tstate) : res tstate :=
  ctor (t_fields t) (Some (fmt_to_str t)) None None.

Definition step (rows : list row) (t : tstate) (o : op) : tstate * sx :=
  match o with
  | OPrint => obs_print rows t
  | OSet s =>
      match set_fmt t s with
      | Ok t' => (t', SL [SZ 0; sx_str (fmt_to_str t')])
      | Err e => (t, SL [SZ 1; SZ (err_code e)])
      end
  | OSelf =>
      match set_fmt t (fmt_to_str t) with
      | Ok t' => (t', SL [SZ 0; sx_str (fmt_to_str t')])
      | Err e => (t, SL [SZ 1; SZ (err_code e)])
      end
  | ORemove names =>
      let t' := remove_columns t names in (t', sx_str (fmt_to_str t'))
  | OLimits lim =>
      let t' := set_limits t lim in (t', sx_str (fmt_to_str t'))
  | ORebuild =>
      match rebuild t with
      | Ok t' => (t', SL [SZ 0; sx_str (fmt_to_str t')])
      | Err e => (t, SL [SZ 1; SZ (err_code e)])
      end
  | OCheck =>
      (t, SL [ snd (obs_print rows t);
               obs_then_print rows (set_fmt t (fmt_to_str t));
               obs_then_print rows (rebuild t);
               obs_then_print rows (set_fmt t []);
               obs_then_print rows (set_fmt t [ch_semi]);
               obs_then_print rows (set_fmt t [ch_semi; ch_semi]);
               obs_then_print rows (Ok (ctor_obj t None None)) ])   (* PPTable(records, fmt_obj=t.fmt) *)
  end.

Fixpoint steps (rows : list row) (t : tstate) (ops : list op) : list sx :=
  match ops with
  | [] => []
  | o :: r => let '(t', x) := step rows t o in x :: steps rows t' r
  end.

(* ------------------------------------------------------------------ *)
(* sessions: several tables and format objects alive at once *)
Inductive src :=
| SShared (i : nat)          (* the i-th PPTableFormat object made at the start *)
| STable (j : nat).          (* tables[j].fmt, the live format object of a table *)

Inductive mop :=
| MNew (k : nat) (fmt : option str) (lim : option limits) (skip : option (list str))
      (* tables.append(PPTable(records[k], fmt=.., fields=.., fields_types=.., limits=.., skip_columns=..)) *)
| MNewObj (k : nat) (s : src) (lim : option limits) (skip : option (list str))
      (* tables.append(PPTable(records[k], fmt_obj=<s>, limits=.., skip_columns=..)) *)
| MOp (j : nat) (o : op).    (* the operation on tables[j] *)

Record table := mkTab { tb_k : nat; tb_st : tstate }.
(* a failed construction leaves an empty slot, so that the numbering is static *)
Record sess := mkSess { ss_shared : list (option tstate); ss_tabs : list (option table) }.

Definition src_state (ss : sess) (s : src) : option tstate :=
  match s with
  | SShared i => nth i (ss_shared ss) None
  | STable j => match nth j (ss_tabs ss) None with Some tb => Some (tb_st tb) | None => None end
  end.

Definition add_tab (ss : sess) (x : option table) : sess :=
  mkSess (ss_shared ss) (ss_tabs ss ++ [x]).

Fixpoint set_nth {A} (l : list A) (j : nat) (x : A) : list A :=
  match l, j with
  | [], _ => []
  | _ :: r, O => x :: r
  | y :: r, S j' => y :: set_nth r j' x
  end.

Definition set_tab (ss : sess) (j : nat) (tb : table) : sess :=
  mkSess (ss_shared ss) (set_nth (ss_tabs ss) j (Some tb)).

Definition sx_absent : sx := SL [SZ 2].

Definition mstep (fs : list field) (rowsets : list (list row)) (ss : sess) (m : mop) : sess * sx :=
  match m with
  | MNew k fmt lim skip =>
      match ctor fs fmt lim skip with
      | Ok t => (add_tab ss (Some (mkTab k t)), SL [SZ 0; sx_str (fmt_to_str t)])
      | Err e => (add_tab ss None, SL [SZ 1; SZ (err_code e)])
      end
  | MNewObj k s lim skip =>
      match src_state ss s with
      | Some x => let t := ctor_obj x lim skip in
                  (add_tab ss (Some (mkTab k t)), SL [SZ 0; sx_str (fmt_to_str t)])
      | None => (add_tab ss None, sx_absent)
      end
  | MOp j o =>
      match nth j (ss_tabs ss) None with
      | Some tb =>
          let '(t', x) := step (nth (tb_k tb) rowsets []) (tb_st tb) o in
          (set_tab ss j (mkTab (tb_k tb) t'), x)
      | None => (ss, sx_absent)
      end
  end.

(* str(.fmt) of every table and str() of every shared format object *)
Definition sx_opt_fmt (o : option tstate) : sx :=
  match o with Some t => SL [SZ 0; sx_str (fmt_to_str t)] | None => sx_absent end.
Definition snapshot (ss : sess) : sx :=
  SL (map (fun o => sx_opt_fmt (match o with Some tb => Some (tb_st tb) | None => None end)) (ss_tabs ss)
      ++ map sx_opt_fmt (ss_shared ss)).

Fixpoint msteps (fs : list field) (rowsets : list (list row)) (ss : sess) (ops : list mop) : list sx :=
  match ops with
  | [] => []
  | m :: r => let '(ss', x) := mstep fs rowsets ss m in SL [x; snapshot ss'] :: msteps fs rowsets ss' r
  end.

(* PPTableFormat.make(fmt, fields, fields_types, None) *)
Definition make_shared (fs : list field) (f : option str) : option tstate :=
  match ctor fs f None None with Ok t => Some t | Err _ => None end.
Definition obs_shared (fs : list field) (f : option str) : sx :=
  match ctor fs f None None with
  | Ok t => SL [SZ 0; sx_str (fmt_to_str t)]
  | Err e => SL [SZ 1; SZ (err_code e)]
  end.
Definition init_sess (fs : list field) (shared : list (option str)) : sess :=
  mkSess (map (make_shared fs) shared) [].

Inductive case :=
| Single (c : case1)
| Session (fs : list field) (rowsets : list (list row)) (shared : list (option str)) (ops : list mop).

(* the complete observation of a program (used when debugging a disagreement) *)
Definition run_full (c : case) : sx :=
  match c with
  | Single c =>
      match ctor (k_fields c) (k_fmt c) (k_lim c) (k_skip c) with
      | Err e => SL [SZ 1; SZ (err_code e)]
      | Ok t => SL [SZ 0; sx_str (fmt_to_str t); SL (steps (k_rows c) t (k_ops c))]
      end
  | Session fs rowsets shared ops =>
      SL [SZ 0; SL (map (obs_shared fs) shared); SL (msteps fs rowsets (init_sess fs shared) ops)]
  end.

(* observations are long (every step carries fmt strings), so the check compares
   one 61-bit digest per step; harness/props/c13.py computes the same digest of
   what the implementation did *)
Definition hM : Z := 2305843009213693951.   (* 2^61 - 1, used as a bit mask *)
Fixpoint hash_sx (s : sx) : Z :=
  match s with
  | SZ z => Z.land (1000003 * z + 12345) hM
  | SL l =>
      (fix go (l : list sx) (acc : Z) : Z :=
         match l with
         | [] => acc
         | x :: r => go r (Z.land (acc * 1000003 + hash_sx x + 7) hM)
         end) l 98765
  end.

Definition run (c : case) : sx :=
  match c with
  | Single c =>
      match ctor (k_fields c) (k_fmt c) (k_lim c) (k_skip c) with
      | Err e => SL [SZ 1; SZ (err_code e)]
      | Ok t => SL [SZ 0; SZ (hash_sx (sx_str (fmt_to_str t)));
                    SL (map (fun x => SZ (hash_sx x)) (steps (k_rows c) t (k_ops c)))]
      end
  | Session fs rowsets shared ops =>
      SL [SZ 0; SZ (hash_sx (SL (map (obs_shared fs) shared)));
          SL (map (fun x => SZ (hash_sx x)) (msteps fs rowsets (init_sess fs shared) ops))]
  end.
