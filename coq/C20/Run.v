(* C20/Run.v -- entry point of the correspondence check.  Every case is evaluated twice:
   by the hand-written model (Model.v) and by the functions translated from the current
   source (gen/C20_Translated.v through TransInst.v); [run] prints the observation when
   the two agree and (99 model translated) otherwise, so that a line equal to the
   implementation's observation means that BOTH gave it.  When the source has left the
   translator's subset (gen/C20_Translated.v is then a stub with translation_available =
   false, and the proof step is already broken) the hand model is compared alone. *)
From Coq Require Import ZArith List Bool.
From AK Require Export Common.Sx Common.Err C20.Model C20.PyLib C20.TransInst.
From AK Require Import gen.C20_Translated.
Import ListNotations.

Inductive case :=
| ToShort (u : Z)
| FromShort (a : pyarg)
| FromStr (std : option Z) (s : list Z)
| Seq (l : list call)           (* several calls, in this order, in one process *)
| SeqCmp (l : list call) (seen : list outcome).
  (* a long history: what the implementation returned is passed in and compared
     here (printing thousands of numbers overflows coqc's stack) *)

Definition sx_outcome (o : outcome) : sx :=
  match o with
  | OStr s => sx_str s
  | ORes r => sx_res SZ r
  end.

Fixpoint zlist_eqb (a b : list Z) : bool :=
  match a, b with
  | [], [] => true
  | x :: a', y :: b' => Z.eqb x y && zlist_eqb a' b'
  | _, _ => false
  end.

Definition outcome_eqb (a b : outcome) : bool :=
  match a, b with
  | OStr s, OStr s' => zlist_eqb s s'
  | ORes (Ok n), ORes (Ok m) => Z.eqb n m
  | ORes (Err e), ORes (Err e') => err_eqb e e'
  | _, _ => false
  end.

(* (1) when the lists agree, else (0 index model's-outcome-there) *)
Fixpoint first_diff (i : Z) (model seen : list outcome) : sx :=
  match model, seen with
  | [], [] => SL [SZ 1]
  | m :: model', s :: seen' =>
      if outcome_eqb m s then first_diff (i + 1) model' seen' else SL [SZ 0; SZ i; sx_outcome m]
  | m :: _, [] => SL [SZ 0; SZ i; sx_outcome m]
  | [], _ :: _ => SL [SZ 0; SZ i]
  end.

Definition run_model (c : case) : sx :=
  match c with
  | ToShort u => sx_str (uuid_to_short_str u)
  | FromShort a => sx_res SZ (uuid_from_short_str a)
  | FromStr std s => sx_res SZ (uuid_from_str std s)
  | Seq l => sx_list sx_outcome (eval_seq l)
  | SeqCmp l seen => first_diff 0 (eval_seq l) seen
  end.

Definition run_translated (c : case) : sx :=
  match c with
  | ToShort u => sx_outcome (tr_eval_call (CToShort u))
  | FromShort a => sx_res SZ (tr_from_short a)
  | FromStr std s => sx_res SZ (tr_from_str std s)
  | Seq l => sx_list sx_outcome (tr_eval_seq l)
  | SeqCmp l seen => first_diff 0 (tr_eval_seq l) seen
  end.

Fixpoint sx_eqb (a b : sx) {struct a} : bool :=
  match a, b with
  | SZ x, SZ y => Z.eqb x y
  | SL l, SL m =>
      (fix go (l m : list sx) {struct l} : bool :=
         match l, m with
         | [], [] => true
         | x :: l', y :: m' => sx_eqb x y && go l' m'
         | _, _ => false
         end) l m
  | _, _ => false
  end.

Definition run (c : case) : sx :=
  let m := run_model c in
  if translation_available then
    let t := run_translated c in
    if sx_eqb m t then m else SL [SZ 99; m; t]
  else m.
