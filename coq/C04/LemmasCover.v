(* C04/LemmasCover.v -- the tokens (skipped ones included) cover every line:
   concatenating, for a line, the part of each token that lies on that line gives
   back the line (a multi-line span token contributes its part on every line it crosses). *)
From Coq Require Import ZArith List Bool Lia.
From AK Require Import Common.Err LLP.Base gen.C04_Consts C04.Model C04.LemmasText C04.LemmasLex.
Import ListNotations.
Open Scope Z_scope.

(* the characters of line T (0-based, content tx) that lie inside the span of token t *)
Definition part_on (T : nat) (tx : line) (t : token) : line :=
  let L := Z.of_nat T + 1 in
  if (L <? fst (tstart t)) || (fst (tend t) <? L) then []
  else slice tx (if fst (tstart t) =? L then Z.to_nat (snd (tstart t) - 1) else 0%nat)
                (if fst (tend t) =? L then Z.to_nat (snd (tend t) - 1) else length tx).

Lemma Zltb_P : forall a b, (Z.of_nat a + 1 <? Z.of_nat b + 1) = (a <? b)%nat.
Proof. intros. destruct (Z.ltb_spec (Z.of_nat a + 1) (Z.of_nat b + 1)), (Nat.ltb_spec a b); auto; lia. Qed.
Lemma Zeqb_P : forall a b, (Z.of_nat a + 1 =? Z.of_nat b + 1) = (a =? b)%nat.
Proof. intros. destruct (Z.eqb_spec (Z.of_nat a + 1) (Z.of_nat b + 1)), (Nat.eqb_spec a b); auto; lia. Qed.

Lemma part_P : forall T tx n v l0 c0 l1 c1,
  part_on T tx (mkTok n v (P l0 c0) (P l1 c1)) =
  if ((T <? l0) || (l1 <? T))%nat then []
  else slice tx (if (l0 =? T)%nat then c0 else 0%nat) (if (l1 =? T)%nat then c1 else length tx).
Proof.
  intros. unfold part_on, P. cbn [tstart tend fst snd].
  rewrite !Zltb_P, !Zeqb_P.
  replace (Z.to_nat (Z.of_nat c0 + 1 - 1)) with c0 by lia.
  replace (Z.to_nat (Z.of_nat c1 + 1 - 1)) with c1 by lia.
  reflexivity.
Qed.

Lemma part_empty_tok : forall T tx n v p, part_on T tx (mkTok n v p p) = [].
Proof.
  intros. unfold part_on. cbn [tstart tend].
  destruct (Z.eqb_spec (fst p) (Z.of_nat T + 1)) as [E|E].
  - destruct ((Z.of_nat T + 1 <? fst p) || (fst p <? Z.of_nat T + 1)); auto.
    unfold slice. rewrite Nat.sub_diag. reflexivity.
  - replace ((Z.of_nat T + 1 <? fst p) || (fst p <? Z.of_nat T + 1)) with true; auto.
    symmetry. apply orb_true_iff. destruct (Z.ltb_spec (Z.of_nat T + 1) (fst p)); auto.
    right. apply Z.ltb_lt. lia.
Qed.

Section Cover.
  Variable matcher : line -> nat -> option (sym * nat * list Z).
  Variable span_of : sym -> option bmatcher.
  Variable syn : sym -> sym.
  Variable kw : sym -> list Z -> option sym.
  Hypothesis Hm : matcher_ok matcher.
  Hypothesis Hs : spans_ok span_of.

  Notation lxl := (lxl matcher span_of syn kw).
  Notation lxd := (lxd matcher span_of syn kw).
  Notation mode_inv := (mode_inv matcher span_of).
  Notation dmode_inv := (dmode_inv matcher span_of).

  (* what of line T still has to be covered by the tokens emitted from now on *)
  Definition need (tx : line) (T ln col : nat) (m : mode) : line :=
    match m with
    | Norm => if (T <? ln)%nat then [] else if (T =? ln)%nat then skipn col tx else tx
    | InSpan _ _ l0 c0 _ _ => if (T <? l0)%nat then [] else if (T =? l0)%nat then skipn c0 tx else tx
    end.

  Definition needd (tx : line) (T ln : nat) (d : dmode) : line :=
    match d with
    | DNorm _ => if (T <? ln)%nat then [] else tx
    | DSpan _ _ l0 c0 _ _ => if (T <? l0)%nat then [] else if (T =? l0)%nat then skipn c0 tx else tx
    end.

  Lemma skipn_all' : forall (l : line) n, (length l <= n)%nat -> skipn n l = [].
  Proof. intros. apply skipn_all2. exact H. Qed.

  Lemma lxl_cover : forall ls T tx ln text col m toks col' m',
    lxl ln text col m toks col' m' -> nth_error ls ln = Some text -> tx = nth T ls [] ->
    mode_inv ls ln col m ->
    concat (map (part_on T tx) toks) ++ need tx T ln col' m' = need tx T ln col m.
  Proof.
    intros ls T tx ln text col m toks col' m' R N X. induction R; intros I.
    - reflexivity.
    - pose proof (Hm _ _ _ _ _ H0) as B. specialize (IHR I).
      cbn [map concat]. rewrite part_P. rewrite <- app_assoc, IHR. cbn [need].
      destruct (Nat.ltb_spec T ln) as [A|A].
      + replace (ln <? T)%nat with false by (symmetry; apply Nat.ltb_ge; lia). reflexivity.
      + destruct (Nat.eqb_spec T ln) as [->|A2].
        * rewrite Nat.ltb_irrefl, Nat.eqb_refl. cbn [orb]. apply slice_skipn. lia.
        * replace (ln <? T)%nat with true by (symmetry; apply Nat.ltb_lt; lia). reflexivity.
    - pose proof (Hm _ _ _ _ _ H0) as B.
      assert (I2 : mode_inv ls ln e (InSpan g bm ln col text [])).
      { cbn [LemmasLex.mode_inv]. split; [|lia]. unfold opened. repeat split; eauto. }
      rewrite (IHR I2). cbn [need]. reflexivity.
    - reflexivity.
    - cbn [LemmasLex.mode_inv] in I. destruct I as [[S [N0 [e0 [v0 M0]]]] L].
      pose proof (Hs _ _ _ _ _ _ S H H0) as B. specialize (IHR Logic.I).
      cbn [map concat]. rewrite part_P. rewrite <- app_assoc, IHR. cbn [need].
      assert (TX : T = ln -> tx = text). { intros ->. subst tx. apply nth_error_nth_line. exact N. }
      destruct (Nat.ltb_spec T l0) as [A|A].
      + replace (T <? ln)%nat with true by (symmetry; apply Nat.ltb_lt; lia). reflexivity.
      + destruct (Nat.ltb_spec ln T) as [A1|A1]; cbn [orb].
        * replace (T <? ln)%nat with false by (symmetry; apply Nat.ltb_ge; lia).
          replace (T =? ln)%nat with false by (symmetry; apply Nat.eqb_neq; lia).
          replace (T =? l0)%nat with false by (symmetry; apply Nat.eqb_neq; lia). reflexivity.
        * destruct (Nat.eqb_spec l0 T) as [E0|E0]; destruct (Nat.eqb_spec ln T) as [E1|E1].
          -- subst l0 ln. rewrite Nat.ltb_irrefl, Nat.eqb_refl. rewrite (TX eq_refl) in *.
             apply slice_skipn. lia.
          -- subst l0. rewrite Nat.eqb_refl.
             replace (T <? ln)%nat with true by (symmetry; apply Nat.ltb_lt; lia).
             rewrite app_nil_r. apply slice_to_end.
          -- subst ln. rewrite Nat.ltb_irrefl, Nat.eqb_refl.
             replace (T =? l0)%nat with false by (symmetry; apply Nat.eqb_neq; lia).
             rewrite slice_from_0. apply firstn_skipn.
          -- replace (T <? ln)%nat with true by (symmetry; apply Nat.ltb_lt; lia).
             replace (T =? l0)%nat with false by (symmetry; apply Nat.eqb_neq; lia).
             rewrite app_nil_r. apply slice_full.
  Qed.

  Lemma need_to_d : forall tx T ln text col' m', (length text <= col')%nat -> (T = ln -> tx = text) ->
    need tx T ln col' m' = needd tx T (S ln) (to_d ln col' m').
  Proof.
    intros tx T ln text col' m' L X. destruct m'; cbn [need needd to_d]; auto.
    destruct (Nat.ltb_spec T ln) as [A|A].
    - replace (T <? S ln)%nat with true by (symmetry; apply Nat.ltb_lt; lia). reflexivity.
    - destruct (Nat.eqb_spec T ln) as [E|E].
      + replace (T <? S ln)%nat with true by (symmetry; apply Nat.ltb_lt; lia).
        rewrite (X E). apply skipn_all'. exact L.
      + replace (T <? S ln)%nat with false by (symmetry; apply Nat.ltb_ge; lia). reflexivity.
  Qed.

  Lemma lxd_cover : forall ls T tx ln rest d toks d',
    lxd ln rest d toks d' -> rest = skipn ln ls -> tx = nth T ls [] -> dmode_inv ls ln d ->
    concat (map (part_on T tx) toks) ++ needd tx T (ln + length rest) d' = needd tx T ln d.
  Proof.
    intros ls T tx ln rest d toks d' R. induction R; intros E X I.
    - rewrite Nat.add_0_r. reflexivity.
    - apply skipn_cons_nth in E. destruct E as [N E].
      assert (I2 : dmode_inv ls (S ln) (DNorm p)).
      { cbn [LemmasLex.dmode_inv] in *. destruct I as [I V]. split; auto.
        left. destruct I as [I|I]; [lia|]. subst p. unfold P. cbn [fst]. lia. }
      replace (ln + length (@nil Z :: rest))%nat with (S ln + length rest)%nat by (cbn [length]; lia).
      rewrite (IHR E X I2). cbn [needd].
      destruct (Nat.ltb_spec T ln) as [A|A].
      + replace (T <? S ln)%nat with true by (symmetry; apply Nat.ltb_lt; lia). reflexivity.
      + destruct (Nat.eqb_spec T ln) as [E2|E2].
        * replace (T <? S ln)%nat with true by (symmetry; apply Nat.ltb_lt; lia).
          subst T tx. rewrite (nth_error_nth_line _ _ _ N). reflexivity.
        * replace (T <? S ln)%nat with false by (symmetry; apply Nat.ltb_ge; lia). reflexivity.
    - apply skipn_cons_nth in E. destruct E as [N E].
      destruct (lxl_facts _ _ _ _ Hm Hs ls _ _ _ _ _ _ _ H1 N Logic.I) as [F1 [I1 [C1 LE]]].
      assert (I2 : dmode_inv ls (S ln) (to_d ln col' m')).
      { destruct m'; cbn [to_d LemmasLex.dmode_inv LemmasLex.mode_inv] in *.
        - split. + left. unfold P. cbn [fst]. lia.
          + left. exists ln, col'. split; auto. split. * eapply nth_error_lt; eauto.
            * rewrite (nth_error_nth_line _ _ _ N). rewrite LE; lia.
        - destruct I1 as [O L]. split; auto. lia. }
      replace (ln + length (text :: rest))%nat with (S ln + length rest)%nat by (cbn [length]; lia).
      rewrite map_app, concat_app, <- app_assoc.
      rewrite (IHR E X I2).
      assert (TX : T = ln -> tx = text). { intros ->. subst tx. apply nth_error_nth_line. exact N. }
      rewrite <- (need_to_d tx T ln text col' m' H0 TX).
      rewrite (lxl_cover ls T tx _ _ _ _ _ _ _ H1 N X Logic.I).
      cbn [need needd]. destruct (T <? ln)%nat; auto. destruct (T =? ln)%nat; auto.
    - apply skipn_cons_nth in E. destruct E as [N E].
      assert (I0 : mode_inv ls ln 0 (InSpan g bm l0 c0 stext sl)).
      { cbn [LemmasLex.dmode_inv LemmasLex.mode_inv] in *. destruct I as [O L]. split; auto. }
      destruct (lxl_facts _ _ _ _ Hm Hs ls _ _ _ _ _ _ _ H0 N I0) as [F1 [I1 [C1 LE]]].
      assert (I2 : dmode_inv ls (S ln) (to_d ln col' m')).
      { destruct m'; cbn [to_d LemmasLex.dmode_inv LemmasLex.mode_inv] in *.
        - split. + left. unfold P. cbn [fst]. lia.
          + left. exists ln, col'. split; auto. split. * eapply nth_error_lt; eauto.
            * rewrite (nth_error_nth_line _ _ _ N). rewrite LE; lia.
        - destruct I1 as [O L]. split; auto. lia. }
      replace (ln + length (text :: rest))%nat with (S ln + length rest)%nat by (cbn [length]; lia).
      rewrite map_app, concat_app, <- app_assoc.
      rewrite (IHR E X I2).
      assert (TX : T = ln -> tx = text). { intros ->. subst tx. apply nth_error_nth_line. exact N. }
      rewrite <- (need_to_d tx T ln text col' m' H TX).
      rewrite (lxl_cover ls T tx _ _ _ _ _ _ _ H0 N X I0).
      reflexivity.
  Qed.

  Theorem tokens_cover_l : forall ls toks T tx,
    tokenize matcher span_of syn kw ls = LOk toks -> nth_error ls T = Some tx ->
    concat (map (part_on T tx) toks) = tx.
  Proof.
    intros ls toks T tx H N.
    destruct (tokenize_facts _ _ _ _ Hm Hs _ _ H) as [body [p [E [R _]]]]. subst toks.
    pose proof (lxd_cover ls T tx 0 ls _ _ _ R eq_refl (eq_sym (nth_error_nth_line _ _ _ N))
                          (dinit_inv matcher span_of ls)) as C.
    cbn [plus needd dinit] in C.
    replace (T <? length ls)%nat with true in C by (symmetry; apply Nat.ltb_lt; eapply nth_error_lt; eauto).
    cbn [Nat.ltb Nat.leb] in C. rewrite app_nil_r in C.
    rewrite map_app, concat_app, C. cbn [map concat]. unfold end_tok. rewrite part_empty_tok. rewrite !app_nil_r. reflexivity.
  Qed.
End Cover.
