(* C10/LemmasInv.v -- the cache-coherence invariants of the world model and
   their preservation by every primitive move (hence by every model function,
   Lemmas.v):
     inv_enum   every cached enum cell is what its key palette would produce now
     inv_cache  every palette in a configuration's cache carries the colours of
                that configuration's current syntax map (cache_reset), belongs to
                it, and its sub-palettes are in the same cache
     inv_slots  the per-class no_color palettes and their sub-palettes have no colours
     inv_wf     every colour prefix in the heap is a well-formed SGR sequence *)
From Coq Require Import ZArith List Bool Lia.
From AK Require Import Common.Sx Common.Err C10.Sgr C10.SgrLemmas C10.Base gen.C10_Consts C10.Model C10.Lemmas.
Import ListNotations.
Open Scope Z_scope.

(* ------------------------------------------------------------------ *)
Lemma zfind_NoDup {A} k (v : A) l : NoDup (map fst l) -> In (k, v) l -> zfind k l = Some v.
Proof.
  induction l as [|[a x] l IH]; [intros _ []|]. cbn [map fst zfind]. intros Hnd Hin.
  inversion Hnd as [|? ? Hn Hnd']; subst. destruct Hin as [E|Hin].
  - injection E as -> ->. rewrite Z.eqb_refl. reflexivity.
  - destruct (Z.eqb_spec a k) as [->|_]; [|auto].
    exfalso. apply Hn. apply in_map_iff. exists (k, v). auto.
Qed.

Lemma NoDup_filter_fst {A} (f : Z * A -> bool) l : NoDup (map fst l) -> NoDup (map fst (filter f l)).
Proof.
  induction l as [|a l IH]; [auto|]. cbn [map filter]. intros H. inversion H as [|? ? Hn Hnd]; subst.
  destruct (f a); [|auto]. cbn [map]. constructor; [|auto].
  intros Hin. apply Hn. apply in_map_iff in Hin as (y & E & Hy). apply filter_In in Hy as [Hy _].
  apply in_map_iff. exists y. auto.
Qed.

Lemma NoDup_put {A} k (v : A) l : NoDup (map fst l) -> NoDup (map fst ((k, v) :: zdel k l)).
Proof.
  intros H. cbn [map fst]. constructor; [|apply NoDup_filter_fst; exact H].
  intros Hin. apply in_map_iff in Hin as ([a x] & E & Hy). cbn [fst] in E. subst a.
  apply In_zdel in Hy as [_ Hy]. congruence.
Qed.

Lemma In_put_conf w c cf c2 cf2 :
  In (c2, cf2) (w_confs (put_conf w c cf)) <-> (c2 = c /\ cf2 = cf) \/ (In (c2, cf2) (w_confs w) /\ c2 <> c).
Proof.
  unfold put_conf. cbn [w_confs set_confs In]. rewrite In_zdel. split.
  - intros [E|H]; [injection E as -> ->; auto|auto].
  - intros [[-> ->]|H]; auto.
Qed.

Lemma conf_of_cases w c : In (c, conf_of w c) (w_confs w) \/ conf_of w c = dflt_conf false.
Proof. unfold conf_of. destruct (zfind c (w_confs w)) eqn:E; [left; apply zfind_In; exact E|right; reflexivity]. Qed.

Lemma pal_of_cases w p : In (p, pal_of w p) (w_heap w) \/ pal_of w p = empty_pal.
Proof. unfold pal_of. destruct (zfind p (w_heap w)) eqn:E; [left; apply zfind_In; exact E|right; reflexivity]. Qed.

Lemma In_put_pal w p o p2 o2 :
  In (p2, o2) (w_heap (put_pal w p o)) -> (p2 = p /\ o2 = o) \/ (In (p2, o2) (w_heap w) /\ p2 <> p).
Proof.
  unfold put_pal. cbn [w_heap set_heap In]. rewrite In_zdel.
  intros [E|H]; [injection E as -> ->; auto|auto].
Qed.

Lemma local_colors_same cf cf' K nc :
  c_smap cf' = c_smap cf -> c_nocolor cf' = c_nocolor cf -> local_colors cf' K nc = local_colors cf K nc.
Proof. intros E1 E2. unfold local_colors. rewrite E1, E2. reflexivity. Qed.

Definition nc_colors (l : list (acc * list Z)) : Prop := Forall (fun ac => snd ac = []) l.

Lemma local_colors_nc cf K : nc_colors (local_colors cf K true).
Proof. unfold nc_colors, local_colors. apply Forall_forall. intros x Hx. apply in_map_iff in Hx as (y & <- & _). reflexivity. Qed.

Lemma color_of_nc o a : nc_colors (p_colors o) -> color_of o a = [].
Proof.
  intros H. unfold color_of. destruct (zfind a (p_colors o)) as [f|] eqn:E; [|reflexivity].
  apply zfind_In in E. unfold nc_colors in H. rewrite Forall_forall in H. exact (H _ E).
Qed.

(* ---- well-formed prefixes ---- *)
Lemma resolve_ok fuel : forall m s st, smap_ok m -> resolve fuel m s = Some st -> style_ok st.
Proof.
  induction fuel as [|f IH]; intros m s st Hm; cbn [resolve]; [discriminate|].
  destruct (zfind s m) as [d|] eqn:E; [|discriminate].
  assert (descr_ok d) as Hd.
  { apply zfind_In in E. unfold smap_ok in Hm. rewrite Forall_forall in Hm. exact (Hm _ E). }
  unfold descr_ok in Hd. destruct (d_parent d) as [p|].
  - destruct (resolve f m p) as [ps|] eqn:Ep; [|discriminate]. specialize (IH m p ps Hm Ep).
    intros [= <-]. unfold style_ok in *. cbn [s_fg]. destruct (d_fg d); auto.
  - intros [= <-]. unfold style_ok. cbn [s_fg]. destruct (d_fg d); auto.
Qed.

Lemma get_color_wf nc m s : smap_ok m -> wf_prefix (get_color nc m s).
Proof.
  intros Hm. unfold get_color.
  destruct (if zhas s m then Some s else if zhas dflt_synt m then Some dflt_synt else None) as [s'|]; [|left; reflexivity].
  destruct nc; [left; reflexivity|].
  destruct (resolve (S (length m)) m s') as [st|] eqn:E; [|left; reflexivity].
  apply wf_prefix_of. eapply resolve_ok; eassumption.
Qed.

Definition colors_wf (l : list (acc * list Z)) : Prop := Forall (fun ac => wf_prefix (snd ac)) l.

Lemma local_colors_wf cf K nc : smap_ok (c_smap cf) -> colors_wf (local_colors cf K nc).
Proof.
  intros Hm. unfold colors_wf, local_colors. apply Forall_forall. intros x Hx.
  apply in_map_iff in Hx as (y & <- & _). cbn [snd]. destruct nc; [left; reflexivity|apply get_color_wf; exact Hm].
Qed.

Lemma color_of_wf o a : colors_wf (p_colors o) -> wf_prefix (color_of o a).
Proof.
  intros H. unfold color_of. destruct (zfind a (p_colors o)) as [f|] eqn:E; [|left; reflexivity].
  apply zfind_In in E. unfold colors_wf in H. rewrite Forall_forall in H. exact (H _ E).
Qed.

(* ------------------------------------------------------------------ *)
Section Inv.
Variable fts : list (Z * ftdef).

Definition ekeys (w : world) : list Z := flat_map (fun e => map fst (snd e)) (w_enums w).

Definition inv_enum (w : world) : Prop :=
  forall ft cache e by_val v pm,
    zfind ft (w_enums w) = Some cache -> zfind e cache = Some by_val -> zfind v by_val = Some pm ->
    pm = colour_with (pal_of w e) (ft_texts fts ft v).

Definition inv_cache (w : world) : Prop :=
  forall c cf K p, In (c, cf) (w_confs w) -> In (K, p) (c_cache cf) ->
    p_colors (pal_of w p) = local_colors cf K false /\ p_nocolor (pal_of w p) = false /\ p_conf (pal_of w p) = c /\
    settled cf K /\
    forall K' q, In (K', q) (p_subs (pal_of w p)) -> In (K', q) (c_cache cf).

Definition inv_slots (w : world) : Prop :=
  forall K p, In (K, p) (w_slots w) ->
    p_nocolor (pal_of w p) = true /\ nc_colors (p_colors (pal_of w p)) /\
    forall K' q, In (K', q) (p_subs (pal_of w p)) -> exists K'', In (K'', q) (w_slots w).

Definition inv_wf (w : world) : Prop :=
  (forall c cf, In (c, cf) (w_confs w) -> smap_ok (c_smap cf)) /\
  (forall p o, In (p, o) (w_heap w) -> colors_wf (p_colors o)).

(* no palette is synced with the global configuration: synced palettes are
   recoloured in place, which is outside the proved part *)
Definition inv (w : world) : Prop :=
  w_synced w = [] /\ NoDup (map fst (w_confs w)) /\ inv_enum w /\ inv_cache w /\ inv_slots w /\ inv_wf w.

Lemma conf_of_smap_ok w c : inv_wf w -> smap_ok (c_smap (conf_of w c)).
Proof.
  intros [H _]. destruct (conf_of_cases w c) as [Hin| ->]; [exact (H _ _ Hin)|apply dflt_conf_ok].
Qed.

Lemma pal_of_wf w p : inv_wf w -> colors_wf (p_colors (pal_of w p)).
Proof.
  intros [_ H]. destruct (pal_of_cases w p) as [Hin| ->]; [exact (H _ _ Hin)|constructor].
Qed.

Lemma conf_of_cache_in w c K p : In (K, p) (c_cache (conf_of w c)) -> In (c, conf_of w c) (w_confs w).
Proof.
  intros H. destruct (conf_of_cases w c) as [Hin|E]; [exact Hin|].
  rewrite E in H. destruct (dflt_conf_ok false) as [E0 _]. rewrite E0 in H. destruct H.
Qed.

Lemma key_in w ft cache e by_val :
  zfind ft (w_enums w) = Some cache -> zfind e cache = Some by_val -> In e (ekeys w).
Proof.
  intros H1 H2. unfold ekeys. apply in_flat_map. exists (ft, cache). split; [apply zfind_In; exact H1|].
  cbn [snd]. apply zfind_In in H2. apply in_map_iff. exists (e, by_val). split; [reflexivity|exact H2].
Qed.

Lemma ekeys_pinned w e : In e (ekeys w) -> In e (pinned true w).
Proof.
  intros H. unfold pinned, roots. cbv zeta. apply in_or_app. left. rewrite !in_app_iff. do 5 right. exact H.
Qed.

Lemma cache_pinned ko w c cf K p : In (c, cf) (w_confs w) -> In (K, p) (c_cache cf) -> In p (pinned ko w).
Proof.
  intros H1 H2. unfold pinned, roots. cbv zeta. apply in_or_app. left. apply in_or_app. left.
  apply in_flat_map. exists (c, cf). split; [exact H1|]. cbn [snd]. apply in_map_iff. exists (K, p). auto.
Qed.

Lemma slot_pinned ko w K p : In (K, p) (w_slots w) -> In p (pinned ko w).
Proof.
  intros H. unfold pinned, roots. cbv zeta. apply in_or_app. left. rewrite !in_app_iff. right. left.
  apply in_map_iff. exists (K, p). auto.
Qed.

(* ---- the enum cache is only read through colours ---- *)
Lemma inv_enum_frame w w' :
  inv_enum w -> w_enums w' = w_enums w ->
  (forall e, In e (ekeys w) -> p_colors (pal_of w' e) = p_colors (pal_of w e)) -> inv_enum w'.
Proof.
  intros Hi E C ft cache e by_val v pm H1 H2 H3. rewrite E in H1.
  rewrite (Hi _ _ _ _ _ _ H1 H2 H3). apply colour_with_ext. symmetry. apply C.
  eapply key_in; eassumption.
Qed.

Lemma inv_enum_put w ft e v :
  inv_enum w ->
  zfind v (match zfind e (match zfind ft (w_enums w) with Some c => c | None => [] end) with Some x => x | None => [] end) = None ->
  inv_enum (enum_put w ft e v (colour_with (pal_of w e) (ft_texts fts ft v))).
Proof.
  intros Hi Hn ft' cache' e' bv' v' pm'. unfold enum_put. cbn [w_enums set_enums zfind].
  change (pal_of (set_enums w _) e') with (pal_of w e').
  destruct (Z.eqb_spec ft ft') as [<-|Hft].
  - intros [= <-]. cbn [zfind]. destruct (Z.eqb_spec e e') as [<-|He].
    + intros [= <-]. cbn [zfind]. destruct (Z.eqb_spec v v') as [<-|Hv]; [intros [= <-]; reflexivity|].
      destruct (zfind ft (w_enums w)) as [cache|] eqn:E1; [|discriminate].
      destruct (zfind e cache) as [by_val|] eqn:E2; [|discriminate].
      intros H3. exact (Hi _ _ _ _ _ _ E1 E2 H3).
    + rewrite zfind_zdel_ne by congruence.
      destruct (zfind ft (w_enums w)) as [cache|] eqn:E1; [|discriminate].
      intros H2 H3. exact (Hi _ _ _ _ _ _ E1 H2 H3).
  - rewrite zfind_zdel_ne by congruence. intros H1 H2 H3. exact (Hi _ _ _ _ _ _ H1 H2 H3).
Qed.

(* ---- one move ---- *)
Lemma inv_move w w' : inv w -> move true fts w w' -> inv w'.
Proof.
  intros (Hs & Hnd & He & Hc & Hsl & Hwf) M.
  destruct M as [w w' (Ec & Eh & Esl & Esy & Een & _ & _)|w c cf' St|w c cf' C0 Ok'|w p c nc K Hfresh
                |w c K p Hz Hp Hst|w c K p Hp|w cp K q [Hz Hq]|w ft e v Hn|w f].
  - (* MMisc *)
    split; [congruence|]. split; [rewrite Ec; exact Hnd|].
    split; [|split; [|split]].
    + apply (inv_enum_frame w); [exact He|exact Een|]. intros e _. unfold pal_of. rewrite Eh. reflexivity.
    + intros c cf K p H1 H2. rewrite Ec in H1. unfold pal_of. rewrite Eh. exact (Hc c cf K p H1 H2).
    + intros K p H1. rewrite Esl in *. unfold pal_of. rewrite Eh. exact (Hsl K p H1).
    + destruct Hwf as [A B]. split; [rewrite Ec; exact A|rewrite Eh; exact B].
  - (* MConf *)
    pose proof (conf_step_ext _ _ St) as Ext. destruct St as (N & _ & O & C).
    split; [exact Hs|]. split; [apply NoDup_put; exact Hnd|].
    split; [|split; [|split]].
    + apply (inv_enum_frame w); [exact He|reflexivity|reflexivity].
    + intros c2 cf2 K p H1 H2. apply In_put_conf in H1 as [[-> ->]|[H1 _]].
      * destruct C as [[Es Ek]|Ek]; [|rewrite Ek in H2; destruct H2].
        rewrite Ek in H2. pose proof (conf_of_cache_in _ _ _ _ H2) as Hin.
        destruct (Hc _ _ _ _ Hin H2) as (A & B & D & G & F).
        change (pal_of (put_conf w c cf') p) with (pal_of w p).
        rewrite (local_colors_same (conf_of w c) cf' K false Es N). rewrite Ek.
        refine (conj A (conj B (conj D (conj _ F)))). eapply settled_ext; eassumption.
      * exact (Hc _ _ _ _ H1 H2).
    + exact Hsl.
    + destruct Hwf as [A B]. split; [|exact B]. intros c2 cf2 H1.
      apply In_put_conf in H1 as [[-> ->]|[H1 _]]; [|exact (A _ _ H1)].
      apply O. apply conf_of_smap_ok. split; assumption.
  - (* MNewConf *)
    split; [exact Hs|]. split; [apply NoDup_put; exact Hnd|].
    split; [|split; [|split]].
    + apply (inv_enum_frame w); [exact He|reflexivity|reflexivity].
    + intros c2 cf2 K p H1 H2. apply In_put_conf in H1 as [[-> ->]|[H1 _]].
      * rewrite C0 in H2. destruct H2.
      * exact (Hc _ _ _ _ H1 H2).
    + exact Hsl.
    + destruct Hwf as [A B]. split; [|exact B]. intros c2 cf2 H1.
      apply In_put_conf in H1 as [[-> ->]|[H1 _]]; [exact Ok'|exact (A _ _ H1)].
  - (* MAlloc *)
    split; [exact Hs|]. split; [exact Hnd|].
    split; [|split; [|split]].
    + apply (inv_enum_frame w); [exact He|reflexivity|]. intros e Hin.
      rewrite pal_of_put_ne; [reflexivity|]. intros ->. apply Hfresh. apply ekeys_pinned. exact Hin.
    + intros c2 cf2 K2 p2 H1 H2. change (w_confs (put_pal w p (new_pal w c nc K))) with (w_confs w) in H1.
      rewrite pal_of_put_ne; [exact (Hc _ _ _ _ H1 H2)|].
      intros ->. apply Hfresh. eapply cache_pinned; eassumption.
    + intros K2 p2 H1. change (w_slots (put_pal w p (new_pal w c nc K))) with (w_slots w) in *.
      rewrite pal_of_put_ne; [exact (Hsl _ _ H1)|].
      intros ->. apply Hfresh. eapply slot_pinned; eassumption.
    + destruct Hwf as [A B]. split; [exact A|]. intros p2 o2 H1.
      apply In_put_pal in H1 as [[-> ->]|[H1 _]]; [|exact (B _ _ H1)].
      unfold new_pal. cbn [p_colors]. apply local_colors_wf. apply conf_of_smap_ok. split; assumption.
  - (* MCache *)
    split; [exact Hs|]. split; [apply NoDup_put; exact Hnd|].
    split; [|split; [|split]].
    + apply (inv_enum_frame w); [exact He|reflexivity|reflexivity].
    + intros c2 cf2 K2 p2 H1 H2. apply In_put_conf in H1 as [[-> ->]|[H1 _]]; [|exact (Hc _ _ _ _ H1 H2)].
      change (pal_of (put_conf w c (cache_put (conf_of w c) K p)) p2) with (pal_of w p2).
      unfold cache_put in *. cbn [c_cache] in *. rewrite (zfind_none_zdel _ _ Hz) in *.
      replace (local_colors _ K2 false) with (local_colors (conf_of w c) K2 false) by reflexivity.
      destruct H2 as [E|H2].
      * injection E as <- <-. rewrite Hp. unfold new_pal. cbn [p_colors p_nocolor p_conf p_subs].
        refine (conj eq_refl (conj eq_refl (conj eq_refl (conj _ _)))); [|intros K' q []].
        eapply settled_ext; [exact Hst|]. split; [exists []; symmetry; apply app_nil_r|apply incl_refl].
      * pose proof (conf_of_cache_in _ _ _ _ H2) as Hin.
        destruct (Hc _ _ _ _ Hin H2) as (A & B & D & G & F).
        refine (conj A (conj B (conj D (conj _ _)))).
        -- eapply settled_ext; [exact G|]. split; [exists []; symmetry; apply app_nil_r|apply incl_refl].
        -- intros K' q Hq. right. exact (F _ _ Hq).
    + exact Hsl.
    + destruct Hwf as [A B]. split; [|exact B]. intros c2 cf2 H1.
      apply In_put_conf in H1 as [[-> ->]|[H1 _]]; [|exact (A _ _ H1)].
      unfold cache_put. cbn [c_smap]. apply conf_of_smap_ok. split; assumption.
  - (* MSlot *)
    split; [exact Hs|]. split; [exact Hnd|].
    split; [|split; [|split]].
    + apply (inv_enum_frame w); [exact He|reflexivity|reflexivity].
    + exact Hc.
    + intros K2 p2 H1. change (pal_of (set_slots w ((K, p) :: w_slots w)) p2) with (pal_of w p2).
      cbn [w_slots set_slots] in *. destruct H1 as [E|H1].
      * injection E as <- <-. rewrite Hp. unfold new_pal. cbn [p_colors p_nocolor p_subs].
        split; [reflexivity|]. split; [apply local_colors_nc|intros K' q []].
      * destruct (Hsl _ _ H1) as (A & B & D). split; [exact A|]. split; [exact B|].
        intros K' q Hq. destruct (D _ _ Hq) as [K'' HK]. exists K''. right. exact HK.
    + exact Hwf.
  - (* MSub *)
    split; [exact Hs|]. split; [exact Hnd|].
    split; [|split; [|split]].
    + apply (inv_enum_frame w); [exact He|reflexivity|]. intros e _.
      destruct (Z.eq_dec e cp) as [->|Hne]; [rewrite pal_of_put_eq; reflexivity|rewrite pal_of_put_ne by exact Hne; reflexivity].
    + intros c2 cf2 K2 p2 H1 H2. change (w_confs (put_pal w cp _)) with (w_confs w) in H1.
      destruct (Hc _ _ _ _ H1 H2) as (A & B & D & G & F).
      destruct (Z.eq_dec p2 cp) as [->|Hne]; [|rewrite pal_of_put_ne by exact Hne; auto].
      rewrite pal_of_put_eq. unfold add_sub. cbn [p_colors p_nocolor p_conf p_subs].
      repeat split; auto. intros K' q' [E|Hq']; [|exact (F _ _ Hq')].
      injection E as <- <-. rewrite B, D in Hq. apply zfind_In in Hq.
      replace cf2 with (conf_of w c2); [exact Hq|].
      unfold conf_of. rewrite (zfind_NoDup _ _ _ Hnd H1). reflexivity.
    + intros K2 p2 H1. change (w_slots (put_pal w cp _)) with (w_slots w) in *.
      destruct (Hsl _ _ H1) as (A & B & D).
      destruct (Z.eq_dec p2 cp) as [->|Hne]; [|rewrite pal_of_put_ne by exact Hne; auto].
      rewrite pal_of_put_eq. unfold add_sub. cbn [p_colors p_nocolor p_subs].
      split; [exact A|]. split; [exact B|]. intros K' q' [E|Hq']; [|exact (D _ _ Hq')].
      injection E as <- <-. rewrite A in Hq. exists K. apply zfind_In. exact Hq.
    + destruct Hwf as [A B]. split; [exact A|]. intros p2 o2 H1.
      apply In_put_pal in H1 as [[-> ->]|[H1 _]]; [|exact (B _ _ H1)].
      unfold add_sub. cbn [p_colors]. apply pal_of_wf. split; assumption.
  - (* MEnum *)
    split; [exact Hs|]. split; [exact Hnd|].
    split; [|split; [|split]].
    + apply inv_enum_put; assumption.
    + exact Hc.
    + exact Hsl.
    + exact Hwf.
  - (* MGc *)
    split; [exact Hs|]. split; [apply NoDup_filter_fst; exact Hnd|].
    split; [|split; [|split]].
    + apply (inv_enum_frame w); [exact He|reflexivity|reflexivity].
    + intros c2 cf2 K p H1 H2. cbn [w_confs set_confs] in H1. apply filter_In in H1 as [H1 _]. exact (Hc _ _ _ _ H1 H2).
    + exact Hsl.
    + destruct Hwf as [A B]. split; [|exact B]. intros c2 cf2 H1.
      cbn [w_confs set_confs] in H1. apply filter_In in H1 as [H1 _]. exact (A _ _ H1).
Qed.

Lemma inv_moves w w' : inv w -> moves true fts w w' -> inv w'.
Proof. intros Hi M. induction M as [|a b c Hm _ IH]; [exact Hi|]. apply IH. eapply inv_move; eassumption. Qed.

(* the invariants do not look at the stack, the HCommand table, the allocator's
   input, the global pointer or the name supply *)
Lemma inv_roots w w' :
  inv w -> w_confs w' = w_confs w -> w_heap w' = w_heap w -> w_slots w' = w_slots w ->
  w_synced w' = w_synced w -> w_enums w' = w_enums w -> inv w'.
Proof.
  intros (Hs & Hnd & He & Hc & Hsl & Hwf) Ec Eh Esl Esy Een.
  split; [congruence|]. split; [rewrite Ec; exact Hnd|].
  split; [|split; [|split]].
  - apply (inv_enum_frame w); [exact He|exact Een|]. intros e _. unfold pal_of. rewrite Eh. reflexivity.
  - intros c cf K p H1 H2. rewrite Ec in H1. unfold pal_of. rewrite Eh. exact (Hc c cf K p H1 H2).
  - intros K p H1. rewrite Esl in *. unfold pal_of. rewrite Eh. exact (Hsl K p H1).
  - destruct Hwf as [A B]. split; [rewrite Ec; exact A|rewrite Eh; exact B].
Qed.

Lemma inv_w0 : inv w0.
Proof.
  split; [reflexivity|]. split; [constructor|].
  split; [|split; [|split]].
  - intros ft cache e bv v pm H. discriminate.
  - intros c cf K p [].
  - intros K p [].
  - split; [intros c cf []|intros p o []].
Qed.

End Inv.
