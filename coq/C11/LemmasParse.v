(* C11/LemmasParse.v -- the recursive-descent parser inverts [ttoks]. *)
From Coq Require Import ZArith List Bool Lia.
From AK Require Import gen.C11_Consts C11.Model C11.Reader C11.LemmasBase.
Import ListNotations.

Definition lsum (l : list nat) : nat := fold_right Nat.add 0 l.

(* fuel that suffices for a tree *)
Fixpoint need (t : ptree) {struct t} : nat :=
  match t with
  | PStr _ => 1
  | PAtom _ => 1
  | PList l => 2 + lsum (map (fun x => S (need x)) l)
  | PDict d => 2 + lsum (map (fun e : pkey * ptree => let (_, x) := e in S (S (need x))) d)
  end.

Definition PvOK (x : ptree) : Prop :=
  forall fuel rest, need x <= fuel -> pvalue fuel (ttoks x ++ rest) = Some (x, rest).

Lemma pvalue_lbrack f x r :
  pvalue (S f) (TLBrack :: ttoks x ++ r) =
  match pvalue f (ttoks x ++ r) with Some (y, r1) => pitems f [y] r1 | None => None end.
Proof. destruct x; reflexivity. Qed.

Lemma pvalue_lbrace f k r :
  pvalue (S f) (TLBrace :: ktok k :: r) =
  match pentry f (ktok k :: r) with Some (e, r1) => pentries f [e] r1 | None => None end.
Proof. destruct k; reflexivity. Qed.

Lemma pentry_key f k x r :
  pentry (S f) (ktok k :: TColon :: ttoks x ++ r) =
  match pvalue f (ttoks x ++ r) with Some (y, r1) => Some ((k, y), r1) | None => None end.
Proof. destruct k; reflexivity. Qed.

Lemma pentries_comma f acc r :
  pentries (S f) acc (TComma :: r) =
  match pentry f r with Some (e, r1) => pentries f (e :: acc) r1 | None => None end.
Proof. reflexivity. Qed.

Lemma pitems_ok l : Forall PvOK l -> forall acc fuel rest,
  1 + lsum (map (fun x => S (need x)) l) <= fuel ->
  pitems fuel acc (sep_join [TComma] false (map ttoks l) ++ TRBrack :: rest) = Some (PList (rev acc ++ l), rest).
Proof.
  induction 1 as [|x l Hx Hl IH]; intros acc fuel rest Hf.
  - destruct fuel as [|f]; [cbn in Hf; lia|]. cbn [map sep_join app pitems]. rewrite app_nil_r. reflexivity.
  - cbn [map lsum fold_right] in Hf. fold (lsum (map (fun x => S (need x)) l)) in Hf.
    destruct fuel as [|f]; [lia|].
    cbn [map sep_join]. rewrite <- !app_assoc. cbn [app pitems].
    rewrite Hx by lia. rewrite IH by lia. cbn [rev]. rewrite <- app_assoc. reflexivity.
Qed.

Definition eneed (e : pkey * ptree) : nat := let (_, x) := e in S (S (need x)).
Definition etoks' (e : pkey * ptree) : list tok := let (k, x) := e in ktok k :: TColon :: ttoks x.

Lemma pentries_ok d : Forall (fun e => PvOK (snd e)) d -> forall acc fuel rest,
  1 + lsum (map eneed d) <= fuel ->
  pentries fuel acc (sep_join [TComma] false (map etoks' d) ++ TRBrace :: rest) = Some (PDict (rev acc ++ d), rest).
Proof.
  induction 1 as [|[k x] d Hx Hd IH]; intros acc fuel rest Hf.
  - destruct fuel as [|f]; [cbn in Hf; lia|]. cbn [map sep_join app pentries]. rewrite app_nil_r. reflexivity.
  - cbn [map lsum fold_right eneed] in Hf. fold (lsum (map eneed d)) in Hf. cbn [snd] in Hx.
    destruct fuel as [|f]; [lia|]. destruct f as [|f]; [lia|].
    cbn [map sep_join etoks']. rewrite <- !app_assoc. cbn [app].
    rewrite pentries_comma, pentry_key. rewrite Hx by lia. rewrite IH by lia. cbn [rev]. rewrite <- app_assoc. reflexivity.
Qed.

Lemma pvalue_ok t : PvOK t.
Proof.
  induction t as [s|a|l IH|d IH] using ptree_ind'; intros fuel rest Hf.
  - destruct fuel; [cbn in Hf; lia|]. reflexivity.
  - destruct fuel; [cbn in Hf; lia|]. reflexivity.
  - cbn [need] in Hf. destruct fuel as [|f]; [lia|].
    destruct l as [|x l].
    + reflexivity.
    + inversion IH as [|? ? Hx Hl]; subst.
      cbn [map lsum fold_right] in Hf. fold (lsum (map (fun x => S (need x)) l)) in Hf.
      cbn [ttoks map sep_join]. rewrite <- !app_assoc. cbn [app].
      rewrite pvalue_lbrack. rewrite Hx by lia.
      rewrite (pitems_ok l Hl [x] f rest) by lia. reflexivity.
  - cbn [need] in Hf. fold eneed in Hf. destruct fuel as [|f]; [lia|].
    destruct d as [|[k x] d].
    + reflexivity.
    + inversion IH as [|? ? Hx Hd]; subst. cbn [snd] in Hx.
      cbn [map lsum fold_right eneed] in Hf. fold (lsum (map eneed d)) in Hf.
      destruct f as [|f]; [lia|].
      cbn [ttoks]. fold etoks'. cbn [map sep_join etoks']. rewrite <- !app_assoc. cbn [app].
      rewrite pvalue_lbrace. rewrite pentry_key. rewrite Hx by lia.
      rewrite (pentries_ok d Hd [(k, x)] (S f) rest) by lia. reflexivity.
Qed.

(* fuel 2 * #tokens is enough *)
Lemma len_sep_join {X} (sep : list X) parts : forall first,
  lsum (map (@length X) parts) <= length (sep_join sep first parts).
Proof.
  induction parts as [|p r IH]; intros first; cbn [map lsum fold_right sep_join length]; [lia|].
  rewrite !app_length. specialize (IH false). unfold lsum in *. lia.
Qed.

Lemma lsum_le {X} (f g : X -> nat) l : Forall (fun x => f x <= g x) l -> lsum (map f l) <= lsum (map g l).
Proof. induction 1; cbn [map lsum fold_right]; [lia|]. unfold lsum in *. lia. Qed.

Lemma lsum_double l : lsum (map (fun n => 2 * n) l) = 2 * lsum l.
Proof. induction l as [|x r IH]; cbn [map lsum fold_right]; [reflexivity|]. unfold lsum in *. lia. Qed.

Lemma need_le t : S (need t) <= 2 * length (ttoks t).
Proof.
  induction t as [s|a|l IH|d IH] using ptree_ind'.
  - cbn. lia.
  - cbn. lia.
  - cbn [need ttoks]. rewrite !app_length. cbn [length].
    pose proof (len_sep_join [TComma] (map ttoks l) true) as H1.
    assert (H2 : lsum (map (fun x => S (need x)) l) <= lsum (map (fun x => 2 * length (ttoks x)) l))
      by (apply lsum_le; exact IH).
    rewrite <- (map_map (fun x => length (ttoks x)) (fun n => 2 * n)), lsum_double in H2.
    rewrite map_map in H1. lia.
  - cbn [need ttoks]. fold eneed. fold etoks'. rewrite !app_length. cbn [length].
    pose proof (len_sep_join [TComma] (map etoks' d) true) as H1.
    assert (H2 : lsum (map eneed d) <= lsum (map (fun e => 2 * length (etoks' e)) d)).
    { apply lsum_le. rewrite Forall_forall in *. intros [k x] Hin. specialize (IH _ Hin). cbn [snd] in IH.
      cbn [eneed etoks' length]. lia. }
    rewrite <- (map_map (fun e => length (etoks' e)) (fun n => 2 * n)), lsum_double in H2.
    rewrite map_map in H1. lia.
Qed.

Lemma parse_ttoks t : parse (ttoks t) = Some t.
Proof.
  unfold parse. pose proof (need_le t) as H.
  rewrite <- (app_nil_r (ttoks t)) at 2. rewrite pvalue_ok by lia. reflexivity.
Qed.
