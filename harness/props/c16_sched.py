"""C16 helper: deterministic opcode-level scheduling of real threads.

Real `threading.Thread`s run the code under test, but only the thread that holds
"the turn" executes; the turn is handed over at *opcode boundaries* of every frame
whose code object lives in the traced file (sys.settrace + f_trace_opcodes).  A
schedule is a list of segments [thread, steps]: "thread executes `steps` steps",
a step being one traced opcode or one (failed) attempt to take the lock (a segment
[thread, steps, events] first lets the thread run until it has logged `events` more
shared accesses; a step-counted segment ends early when its thread fails to take the
lock); when the list is exhausted the remaining threads run on, a blocked thread giving way to the
others.

The lock of the connection under test (instance attribute) is replaced by
`LockProxy`: same context-manager interface, takes the real lock without blocking
and gives the turn away while the lock is held by somebody else (a blocking
acquire would dead-lock a scheduler that runs one thread at a time).

While a thread holds the turn the tracer logs the shared-access events it performs,
so the log is a total order: (thread, kind) with kind in KINDS.
"""
import dis
import sys
import threading

# event kinds (same numbers in coq/C16/Model.v, kind_of)
K_START, K_RD, K_WR, K_ACQ, K_ACQ_FAIL, K_REL, K_EMIT = 0, 1, 2, 3, 4, 5, 6
KINDS = {"start": K_START, "rd": K_RD, "wr": K_WR, "acq": K_ACQ, "acq_fail": K_ACQ_FAIL,
         "rel": K_REL, "emit": K_EMIT}


class Stuck(Exception):
    pass


class Sched:
    def __init__(self, segments, nthreads, traced_file, attr, start_codes, max_steps=200000):
        # segment [t, n] or [t, n, e]: thread t runs until it has logged e more events, then n more steps
        self.segs = [[int(x) for x in seg] + [0] * (3 - len(seg)) for seg in segments]
        self.evcount = [0] * nthreads
        self._target = None
        self.si = 0
        self.n = nthreads
        self.sems = [threading.Semaphore(0) for _ in range(nthreads)]
        self.done = threading.Semaphore(0)
        self.alive = set(range(nthreads))
        self.traced_file = traced_file
        self.attr = attr
        self.start_codes = start_codes
        self.log = []          # [(tid, kind)] in execution order
        self.steps = 0
        self.max_steps = max_steps
        self.stuck = False
        self.idents = {}
        self._imap = {}
        self.errors = {}
        self.untraced = False  # a start frame returned without a single opcode event
        self._pending = {}

    # -- who executes the next step (called by the thread that holds the turn)
    def _choose(self, me, blocked):
        self.steps += 1
        if self.steps > self.max_steps:
            self.stuck = True
            return None
        while self.si < len(self.segs):
            t, n, e = self.segs[self.si]
            if t not in self.alive:
                self.si += 1
                self._target = None
                continue
            if self._target is None:
                self._target = self.evcount[t] + e
            if self.evcount[t] < self._target:
                return t
            if n <= 0 or (blocked and t == me):
                # used up, or the thread just failed to take the lock: a step-counted segment ends there
                self.si += 1
                self._target = None
                continue
            self.segs[self.si][1] = n - 1
            return t
        if not self.alive:
            return None
        if me in self.alive and not blocked:
            return me
        order = sorted(self.alive)
        later = [t for t in order if me is not None and t > me]
        others = [t for t in (later + order) if t != me]
        if others:
            return others[0]
        # the only live thread is blocked on the lock: nobody can release it
        self.stuck = True
        return None

    def record(self, me, kind):
        self.log.append((me, kind))
        self.evcount[me] += 1

    def _abort(self):
        # wake everybody up; threads see self.stuck and bail out
        for s in self.sems:
            s.release()
        self.done.release()

    def yield_point(self, me, blocked=False):
        """ask for permission to execute one more step"""
        if self.stuck:
            raise Stuck()
        nxt = self._choose(me, blocked)
        if nxt is None:
            self._abort()
            raise Stuck()
        if nxt != me:
            self.sems[nxt].release()
            self.sems[me].acquire()
            if self.stuck:
                raise Stuck()

    # -- tracing
    def _instr_map(self, code):
        m = self._imap.get(code)
        if m is None:
            m = {}
            for ins in dis.get_instructions(code):
                if ins.argval == self.attr:
                    if ins.opname == "LOAD_ATTR":
                        m[ins.offset] = K_RD
                    elif ins.opname in ("STORE_ATTR", "DELETE_ATTR"):
                        m[ins.offset] = K_WR
            self._imap[code] = m
        return m

    def tracer(self, me):
        sched = self

        def local(frame, event, arg):
            if event == "opcode":
                sched._pending[me] = False
                sched.yield_point(me)
                k = sched._instr_map(frame.f_code).get(frame.f_lasti)
                if k is not None:
                    sched.record(me, k)
            elif event == "return" and frame.f_code in sched.start_codes and sched._pending.get(me):
                sched.untraced = True
            return local

        def glob(frame, event, arg):
            code = frame.f_code
            if code.co_filename == sched.traced_file:
                if code in sched.start_codes:
                    sched.record(me, K_START)
                    sched._pending[me] = True
                frame.f_trace_opcodes = True
                frame.f_trace_lines = False
                return local
            return None
        return glob

    def me(self):
        return self.idents[threading.get_ident()]

    def run(self, fns, join_timeout=4.0):
        """fns: one callable per thread.  -> True when every thread ran to its end
        (a case takes ~50 ms; join_timeout only matters when a thread blocks outside the scheduler's control,
        e.g. on a lock that is not the proxied guard attribute: then the case is reported as stuck)"""
        threads = []

        def body(i, fn):
            self.idents[threading.get_ident()] = i
            self.sems[i].acquire()
            try:
                if self.stuck:
                    return
                sys.settrace(self.tracer(i))
                try:
                    fn()
                finally:
                    sys.settrace(None)
            except Stuck:
                return
            except BaseException as e:  # noqa
                self.errors[i] = e
            finally:
                if not self.stuck:
                    self.alive.discard(i)
                    if self.alive:
                        nxt = self._choose(None, False)
                        if nxt is None:
                            self._abort()
                        else:
                            self.sems[nxt].release()
                    else:
                        self.done.release()

        for i, fn in enumerate(fns):
            th = threading.Thread(target=body, args=(i, fn), daemon=True)
            threads.append(th)
            th.start()
        first = self._choose(None, False)
        if first is None:
            self._abort()
        else:
            self.sems[first].release()
        signalled = self.done.acquire(timeout=join_timeout)
        if not signalled:
            # a thread blocks outside the scheduler's control (e.g. on a lock that is not the proxied guard, held by a
            # thread that is waiting for its turn).  Give up and leave the threads parked where they are (daemon
            # threads): waking them all would let them run truly concurrently under opcode tracing, which CPython
            # 3.12 does not survive (segfault in the instrumentation); a thread that does wake up sees `stuck`.
            self.stuck = True
            return False
        for th in threads:
            th.join(join_timeout)
        ok = (not self.stuck) and all(not th.is_alive() for th in threads)
        if not ok and not self.stuck:
            self.stuck = True
            self._abort()
        return ok


_warm = False


def warm_up():
    """CPython 3.12: the first thread of a process that sets f_trace_opcodes gets no
    'opcode' events at all; later ones do.  Burn that first time here (the scheduler
    additionally reports frames that were not traced: Sched.untraced)."""
    global _warm
    if _warm:
        return
    _warm = True

    def w(x):
        return x

    def local(frame, event, arg):
        return local

    def glob(frame, event, arg):
        if frame.f_code is w.__code__:
            frame.f_trace_opcodes = True
            return local
        return None
    old = sys.gettrace()
    sys.settrace(glob)
    try:
        w(1)
        w(2)
    finally:
        sys.settrace(old)


class LockProxy:
    """stands in for a threading.Lock used as a context manager / acquire-release"""

    def __init__(self, real, sched):
        self._real = real
        self._s = sched

    def acquire(self, blocking=True, timeout=-1):
        s = self._s
        me = s.me()
        while True:
            if self._real.acquire(False):
                s.record(me, K_ACQ)
                return True
            s.record(me, K_ACQ_FAIL)
            if not blocking:
                return False
            s.yield_point(me, blocked=True)

    def release(self):
        s = self._s
        self._real.release()
        s.record(s.me(), K_REL)

    def locked(self):
        return self._real.locked()

    def __enter__(self):
        self.acquire()
        return True

    def __exit__(self, *a):
        self.release()
        return False
