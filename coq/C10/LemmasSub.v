(* C10/LemmasSub.v -- coloured renderings of compound objects: every sub-palette
   used by the rendering carries the colours of the configuration in force as
   extended by class registrations (the only thing a rendering adds to a
   configuration) at the moment the sub-palette was first requested. *)
From Coq Require Import ZArith List Bool Lia.
From AK Require Import Common.Sx Common.Err C10.Sgr C10.SgrLemmas C10.Base gen.C10_Consts C10.Model
  C10.Lemmas C10.LemmasInv C10.LemmasRun C10.LemmasPure C10.LemmasTop.
Import ListNotations.
Open Scope Z_scope.

Section Sub.
Variable fts : list (Z * ftdef).

(* ---- anything preserved by get_sub_palette and by the enum cell cache is
   preserved by a whole rendering ---- *)
Section Preserve.
Variable cp : pid.
Variable P : world -> Prop.
Hypothesis P_get_sub : forall w K w' q, st_ok fts w cp -> P w -> get_sub true w cp K = Ok (w', q) -> P w'.
Hypothesis P_enum : forall w ft e v modi, P w -> P (fst (enum_cell fts w ft e v v modi)).

Lemma pres_render_item w it w' cs :
  st_ok fts w cp -> item_ok it -> P w -> render_item true fts w cp it = Ok (w', cs) -> P w'.
Proof.
  intros Hst Hok Hp. destruct it as [[K|] a t|t|ft K vkey lit modi]; cbn [render_item].
  - destruct (get_sub true w cp K) as [[w1 q]|] eqn:E; [|discriminate]. cbn [bind fst snd].
    intros [= <- _]. eapply P_get_sub; eassumption.
  - intros [= <- _]. exact Hp.
  - intros [= <- _]. exact Hp.
  - cbn in Hok. subst lit.
    destruct (get_sub true w cp K) as [[w1 q]|] eqn:E; [|discriminate]. cbn [bind fst snd].
    pose proof (P_get_sub _ _ _ _ Hst Hp E) as H1. pose proof (P_enum w1 ft q vkey modi H1) as H2.
    destruct (enum_cell fts w1 ft q vkey vkey modi) as [w2 c2]. cbn [fst] in H2. intros [= <- _]. exact H2.
Qed.

Lemma pres_render_line l : forall w w' cs,
  st_ok fts w cp -> Forall item_ok l -> P w -> render_line true fts w cp l = Ok (w', cs) -> P w'.
Proof.
  induction l as [|it l IH]; intros w w' cs Hst Hok Hp; cbn [render_line]; [intros [= <- _]; exact Hp|].
  inversion Hok as [|? ? Hit Hl]; subst.
  destruct (render_item true fts w cp it) as [[w1 c1]|] eqn:E1; [|discriminate]. cbn [bind fst snd].
  destruct (render_line true fts w1 cp l) as [[w2 c2]|] eqn:E2; [|discriminate]. cbn [bind fst snd].
  intros [= <- _].
  pose proof (good_render_item true fts _ _ _ _ _ (proj1 (proj1 Hst)) (proj2 Hst) Hit E1) as G1.
  eapply IH; [exact (st_ok_good fts _ _ _ Hst G1)|exact Hl| |exact E2]. eapply pres_render_item; eassumption.
Qed.

Lemma pres_render_lines ls : forall w w' css,
  st_ok fts w cp -> Forall (Forall item_ok) ls -> P w -> render_lines true fts w cp ls = Ok (w', css) -> P w'.
Proof.
  induction ls as [|l ls IH]; intros w w' css Hst Hok Hp; cbn [render_lines]; [intros [= <- _]; exact Hp|].
  inversion Hok as [|? ? Hl Hls]; subst.
  destruct (render_line true fts w cp l) as [[w1 c1]|] eqn:E1; [|discriminate]. cbn [bind fst snd].
  destruct (render_lines true fts w1 cp ls) as [[w2 c2]|] eqn:E2; [|discriminate]. cbn [bind fst snd].
  intros [= <- _].
  pose proof (good_render_line true fts _ _ _ _ _ (proj1 (proj1 Hst)) (proj2 Hst) Hl E1) as G1.
  eapply IH; [exact (st_ok_good fts _ _ _ Hst G1)|exact Hls| |exact E2]. eapply pres_render_line; eassumption.
Qed.

Lemma pres_touch_subs ks : forall w w', st_ok fts w cp -> P w -> touch_subs true w cp ks = Ok w' -> P w'.
Proof.
  induction ks as [|K ks IH]; intros w w' Hst Hp; cbn [touch_subs]; [intros [= <-]; exact Hp|].
  destruct (get_sub true w cp K) as [[w1 q]|] eqn:E; [|discriminate]. cbn [bind fst]. intros E2.
  pose proof (good_get_sub true fts _ _ _ _ _ (proj1 (proj1 Hst)) (proj2 Hst) E) as G1.
  eapply IH; [exact (st_ok_good fts _ _ _ Hst G1)| |exact E2]. eapply P_get_sub; eassumption.
Qed.

Lemma pres_gen_lines w o w' ls :
  st_ok fts w cp -> obj_ok o -> P w -> gen_lines true fts w cp o = Ok (w', ls) -> P w'.
Proof.
  intros Hst Hok Hp. unfold gen_lines.
  destruct (touch_subs true w cp (o_subs o)) as [w1|] eqn:E; [|discriminate]. cbn [bind]. intros E2.
  pose proof (good_touch_subs true fts _ _ _ _ (proj1 (proj1 Hst)) (proj2 Hst) E) as G1.
  eapply pres_render_lines; [exact (st_ok_good fts _ _ _ Hst G1)|exact Hok| |exact E2]. eapply pres_touch_subs; eassumption.
Qed.

Lemma pres_consume w o mode w' ts :
  st_ok fts w cp -> obj_ok o -> P w -> consume true fts w cp o mode = Ok (w', ts) -> P w'.
Proof.
  intros Hst Hok Hp. unfold consume.
  destruct (gen_lines true fts w cp o) as [[w1 ls]|] eqn:E1; [|discriminate]. cbn [bind].
  pose proof (pres_gen_lines _ _ _ _ Hst Hok Hp E1) as H1.
  destruct (mode =? 0); [intros [= <- _]; exact H1|].
  destruct (mode =? 1); [intros [= <- _]; exact H1|].
  pose proof (good_gen_lines true fts _ _ _ _ _ (proj1 (proj1 Hst)) (proj2 Hst) Hok E1) as G1.
  destruct (gen_lines true fts w1 cp o) as [[w2 ls2]|] eqn:E2; [|discriminate]. cbn [bind].
  pose proof (pres_gen_lines _ _ _ _ (st_ok_good fts _ _ _ Hst G1) Hok H1 E2) as H2.
  destruct (mode =? 2); intros [= <- _]; exact H2.
Qed.
End Preserve.

(* ---- the configuration of a palette during class_call ---- *)
Definition conf_grows (a b : conf) : Prop := conf_ext a b /\ c_nocolor b = c_nocolor a.

Lemma conf_grows_refl a : conf_grows a a.
Proof. split; [apply conf_ext_refl|reflexivity]. Qed.

Lemma conf_grows_trans a b c : conf_grows a b -> conf_grows b c -> conf_grows a c.
Proof. intros [E1 N1] [E2 N2]. split; [eapply conf_ext_trans; eassumption|congruence]. Qed.

Lemma class_call_conf w copt K w' p :
  w_synced w = [] -> class_call true w copt false K false = Ok (w', p) ->
  conf_grows (conf_of (fst (cc_pre w copt)) (snd (cc_pre w copt))) (conf_of w' (snd (cc_pre w copt))).
Proof.
  intros Hs. rewrite class_call_eq.
  assert (w_synced (fst (cc_pre w copt)) = []) as Hs1 by (rewrite (moves_synced true fts _ _ (moves_cc_pre true fts w copt)); exact Hs).
  remember (fst (cc_pre w copt)) as w1 eqn:E1. remember (snd (cc_pre w copt)) as c eqn:Ec. clear E1 Ec.
  destruct (zfind K (c_cache (conf_of w1 c))) as [q|].
  - intros [= <- _]. apply conf_grows_refl.
  - assert (conf_of (register w1 c K) c = fst (register_raw reg_fuel (conf_of w1 c) K)) as Er.
    { rewrite register_eq by exact Hs1. apply conf_of_put_eq. }
    pose proof (register_raw_step reg_fuel (conf_of w1 c) K) as St. rewrite <- Er in St.
    remember (register w1 c K) as w2 eqn:E2. clear E2 Er.
    unfold cc_new. destruct (alloc true w2) as [[w4 q]|] eqn:Ea; [|discriminate].
    destruct (alloc_ok _ _ _ _ Ea) as [_ ->]. intros [= <- _]. unfold cc_store. cbn iota.
    rewrite conf_of_put_eq.
    change (conf_of (put_pal (set_oracle w2 _) q _) c) with (conf_of w2 c).
    split; [|cbn [cache_put c_nocolor]; apply St].
    eapply conf_ext_trans; [apply (conf_step_ext _ _ St)|].
    split; cbn [cache_put c_smap c_reg]; [exists []; symmetry; apply app_nil_r|apply incl_refl].
Qed.

(* ---- the invariant of a coloured rendering in progress ---- *)
Definition sub_inv (cf0 : conf) (c : cid) (cp : pid) (w : world) : Prop :=
  conf_grows cf0 (conf_of w c) /\
  p_conf (pal_of w cp) = c /\ p_nocolor (pal_of w cp) = false /\
  forall K q, zfind K (p_subs (pal_of w cp)) = Some q ->
    exists cf', conf_grows cf0 cf' /\ p_colors (pal_of w q) = local_colors cf' K false.

Lemma sub_inv_get_sub cf0 c cp w K w' q :
  st_ok fts w cp -> sub_inv cf0 c cp w -> get_sub true w cp K = Ok (w', q) -> sub_inv cf0 c cp w'.
Proof.
  intros [Hi Hh] (G & Pc & Pn & S) E.
  pose proof (moves_get_sub true fts _ _ _ _ _ (proj1 Hi) Hh E) as (_ & Gr & _).
  revert E. unfold get_sub. destruct (zfind K (p_subs (pal_of w cp))) as [q0|] eqn:Ez.
  - intros [= <- <-]. repeat split; assumption.
  - rewrite Pc, Pn.
    destruct (class_call true w (Some c) false K false) as [[w1 q1]|] eqn:Ec; [|discriminate]. cbn [bind].
    intros [= <- <-].
    pose proof (class_call_conf _ _ _ _ _ (proj1 Hi) Ec) as G1. cbn [cc_pre fst snd] in G1.
    destruct (cache_reset_world fts _ _ _ _ _ Hi Ec) as [Cq _].
    destruct (moves_class_call true fts _ _ _ _ _ _ (proj1 Hi) Ec) as (_ & _ & L1).
    assert (pal_of w1 cp = pal_of w cp) as Ecp.
    { destruct L1 as (_ & _ & L). apply L. unfold hpinned. apply in_or_app. left. exact Hh. }
    assert (conf_grows cf0 (conf_of w1 c)) as G2 by (eapply conf_grows_trans; eassumption).
    split; [exact G2|]. rewrite pal_of_put_eq. unfold add_sub. cbn [p_conf p_nocolor p_subs].
    rewrite Ecp. split; [exact Pc|]. split; [exact Pn|].
    intros K' q' Hz. cbn [zfind] in Hz. destruct (Z.eqb_spec K K') as [<-|Hne].
    + injection Hz as <-. exists (conf_of w1 c). split; [exact G2|].
      destruct (Z.eq_dec q1 cp) as [->|Hq].
      * rewrite pal_of_put_eq. cbn [p_colors]. exact Cq.
      * rewrite pal_of_put_ne by exact Hq. exact Cq.
    + destruct (S _ _ Hz) as (cf' & Gc & Col). exists cf'. split; [exact Gc|]. rewrite <- Col.
      destruct Gr as (_ & _ & _ & Q). exact (Q cp K' q' Hh Hz).
Qed.

Lemma sub_inv_enum cf0 c cp w ft e v modi :
  sub_inv cf0 c cp w -> sub_inv cf0 c cp (fst (enum_cell fts w ft e v v modi)).
Proof.
  intros H. unfold enum_cell.
  destruct (zfind v (match zfind e (match zfind ft (w_enums w) with Some c0 => c0 | None => [] end) with Some x => x | None => [] end));
    cbn [fst]; exact H.
Qed.

(* after mk_palette: the palette of the object, its configuration, its existing sub-palettes *)
Lemma sub_inv_start w copt K w1 cp :
  inv fts w -> class_call true w copt false K false = Ok (w1, cp) ->
  sub_inv (conf_of (fst (cc_pre w copt)) (snd (cc_pre w copt))) (snd (cc_pre w copt)) cp w1.
Proof.
  intros Hi E. pose proof (class_call_conf _ _ _ _ _ (proj1 Hi) E) as G.
  destruct (moves_class_call true fts _ _ _ _ _ _ (proj1 Hi) E) as (M & Pst & _).
  unfold cc_post in Pst. apply zfind_In in Pst.
  pose proof (inv_moves fts _ _ Hi M) as (_ & _ & _ & Hc & _).
  pose proof (conf_of_cache_in _ _ _ _ Pst) as Hin.
  destruct (Hc _ _ _ _ Hin Pst) as (_ & B & D & _ & F).
  split; [exact G|]. split; [exact D|]. split; [exact B|].
  intros K' q Hz. apply zfind_In in Hz. pose proof (F _ _ Hz) as Hq.
  destruct (Hc _ _ _ _ Hin Hq) as (A' & _). eexists. split; [exact G|exact A'].
Qed.

Lemma render_colour_subs w obj copt mode ids w' outs :
  inv fts w -> obj_ok obj ->
  step true fts w (ORender obj copt false PNone mode ids) = Ok (w', outs) ->
  exists subc,
    outs = texts_of mode (pure_lines fts (top_colors (conf_in_force w copt) (o_cls obj)) subc (o_lines obj)) /\
    forall K, In K (lines_subs (o_lines obj)) ->
      exists cf', conf_grows (conf_in_force w copt) cf' /\ subc K = local_colors cf' K false.
Proof.
  intros Hi Hobj. cbn [step].
  pose proof (inv_set_oracle fts w ids Hi) as H0.
  destruct (mk_palette true (set_oracle w ids) (o_cls obj) PNone copt false) as [[w1 cp]|] eqn:E1; [|discriminate].
  cbn [bind]. assert (PNone <> PSynced) as Hpa by discriminate.
  pose proof (inv_mk_palette fts _ _ _ _ _ _ _ H0 Hpa E1) as H1.
  pose proof (inv_set_stack fts w1 [cp] H1) as H1'.
  destruct (consume true fts (set_stack w1 [cp]) cp obj mode) as [[w2 t2]|] eqn:E2; [|discriminate].
  cbn [bind fst snd]. intros [= <- <-].
  assert (st_ok fts (set_stack w1 [cp]) cp) as Hst by (split; [exact H1'|left; reflexivity]).
  destruct (consume_pure fts _ _ _ _ _ _ Hst Hobj E2) as (-> & G & Pr).
  cbn [mk_palette] in E1.
  pose proof (sub_inv_start _ _ _ _ _ H0 E1) as S1.
  assert (sub_inv (conf_of (fst (cc_pre (set_oracle w ids) copt)) (snd (cc_pre (set_oracle w ids) copt)))
                  (snd (cc_pre (set_oracle w ids) copt)) cp (set_stack w1 [cp])) as S1' by exact S1.
  pose proof (pres_consume cp _ (fun w K w' q Hs Hp Eg => sub_inv_get_sub _ _ _ _ _ _ _ Hs Hp Eg)
                (fun w ft e v modi Hp => sub_inv_enum _ _ _ _ _ _ _ _ Hp) _ _ _ _ _ Hst Hobj S1' E2) as (_ & _ & _ & S2).
  exists (subcol w2 cp). split.
  - rewrite plines_pure. f_equal. f_equal.
    rewrite (grows_cp _ _ _ (proj2 G)) by (left; reflexivity).
    change (pal_of (set_stack w1 [cp]) cp) with (pal_of w1 cp).
    rewrite (class_call_colours fts _ _ _ _ _ H0 E1). fold (conf_in_force (set_oracle w ids) copt).
    rewrite conf_in_force_oracle. reflexivity.
  - intros K HK. specialize (Pr K HK). unfold present in Pr. unfold subcol.
    destruct (zfind K (p_subs (pal_of w2 cp))) as [q|] eqn:Ez; [|congruence].
    destruct (S2 _ _ Ez) as (cf' & Gc & Col). exists cf'. split; [|exact Col].
    fold (conf_in_force (set_oracle w ids) copt) in Gc. rewrite conf_in_force_oracle in Gc. exact Gc.
Qed.

End Sub.
