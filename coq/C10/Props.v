From Coq Require Import ZArith List Bool.
From AK Require Import Common.Err C10.Sgr C10.Base gen.C10_Consts C10.Model C10.Lemmas.
Import ListNotations.
Open Scope Z_scope.
Theorem enum_cache_keyed_by_object : enum_key_is_object = true.
Proof. exact enum_key_object. Qed.
Print Assumptions enum_cache_keyed_by_object.
