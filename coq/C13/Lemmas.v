(* C13/Lemmas.v -- obligations on what is read from the source, and the
   collected lemmas (LemStr, LemFmt, LemState, LemView, LemReach, LemEx, LemSess) *)
From Coq Require Import ZArith List Bool Lia.
From AK Require Import Common.Sx Common.Err gen.C13_Consts C13.Model.
From AK Require Export C13.LemStr C13.LemFmt C13.LemState C13.LemView C13.LemReach C13.LemEx C13.LemSess.
Import ListNotations.
Open Scope Z_scope.

(* ------------------------------------------------------------------ *)
(* The literal pieces of the serializer and of the parser in ak/ppobj.py are
   the ones the model was written from ("{}" marks an interpolated value; the
   pieces of raise/assert statements and doc strings are not collected).  When
   a separator, a special value or a threshold changes in the source, one of
   these equalities stops being provable. *)

(* ReprColumn.to_fmt_str:  name  /mod  !  :min  |  :min-max  (w) *)
Lemma lits_to_fmt_str_ok :
  lits_ReprColumn_to_fmt_str =
  [LStr [47]; LStr [123;125]; LStr [33]; LStr [58]; LStr [123;125];
   LStr [58]; LStr [123;125]; LStr [45]; LStr [123;125]; LStr [40]; LStr [123;125]; LStr [41]].
Proof. reflexivity. Qed.

(* _ColumnsParsedFmt._parse_cols_fmt:  in ("", "*") ; split(',') *)
Lemma lits_parse_cols_ok :
  lits_ColumnsParsedFmt_parse_cols_fmt = [LStr []; LStr [42]; LStr [44]].
Proof. reflexivity. Qed.

(* _ColumnsParsedFmt._parse_col_fmt:  split(":") ; > 2 ; == 2 ; [0] ; "" ; find('<-') ; -1 ; +2 ;
   endswith('!') ; [:-1] ; find('/') ; >= 0 ; +1 ; == '-1' ; -1 ; -1 ; endswith(')') ; '(' in ; index('(') ;
   split('-') ; > 2 ; == 2 ; [0] *)
Lemma lits_parse_col_ok :
  lits_ColumnsParsedFmt_parse_col_fmt =
  [LStr [58]; LInt 2; LInt 2; LInt 0; LStr []; LStr [60;45]; LInt (-1); LInt 2; LStr [33]; LInt (-1);
   LStr [47]; LInt 0; LInt 1; LStr [45;49]; LInt (-1); LInt (-1); LStr [41]; LStr [40]; LStr [40];
   LStr [45]; LInt 2; LInt 2; LInt 0].
Proof. reflexivity. Qed.

(* ReprStructure._get_fmt_str:  ",".join *)
Lemma lits_cols_str_ok : lits_ReprStructure_get_fmt_str = [LStr [44]].
Proof. reflexivity. Qed.

(* _PPTableParsedFmt._fmt_str_split:  ";;" ; split(';') ; > 3 ; < 3 ; "" *)
Lemma lits_fmt_split_ok :
  lits_PPTableParsedFmt_fmt_str_split = [LStr [59;59]; LStr [59]; LInt 3; LInt 3; LStr []].
Proof. reflexivity. Qed.

(* _PPTableParsedFmt._parse_vis_lines_fmt:  "" ; "*" ; split(':') ; != 2 *)
Lemma lits_parse_vis_ok :
  lits_PPTableParsedFmt_parse_vis_lines_fmt = [LStr []; LStr [42]; LStr [58]; LInt 2].
Proof. reflexivity. Qed.

(* PPTableFormat._get_fmt_str:  "*" ; f"{}:{}" ; "" ; [-1] ; "" ; ";".join *)
Lemma lits_fmt_str_ok :
  lits_PPTableFormat_get_fmt_str =
  [LStr [42]; LStr [123;125]; LStr [58]; LStr [123;125]; LStr []; LInt (-1); LStr []; LStr [59]].
Proof. reflexivity. Qed.

(* the format modifiers of PPEnumFieldType are inside the stated character set,
   the default width bounds of FieldType are non-negative *)
Lemma enum_mods_ok : forallb modstr_okb enum_mods = true.
Proof. vm_compute. reflexivity. Qed.

Lemma ft_bounds_ok : 0 <= ft_min /\ 0 <= ft_max.
Proof. vm_compute. split; discriminate. Qed.
