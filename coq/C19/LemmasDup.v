(* C19/LemmasDup.v -- add_argument when it raises: exact behaviour of one call
   (all parsers in scope take the option, or ArgumentError and nothing is
   observable), the exceptions it can raise, and the characterisation of
   duplicated option strings: re-adding the flag o raises iff the scope of the
   new call meets the scope of the call that added o. *)
From Coq Require Import ZArith List Bool Lia.
From AK Require Import gen.C19_Consts C19.Model C19.Lemmas C19.LemmasOps C19.LemmasParse.
Import ListNotations.
Open Scope Z_scope.

Definition fresh_b (nl : bool) (k : okind) (o : str) (pa : parser) : bool :=
  if is_optional k then negb (opt_taken nl o pa) else true.

Lemma fresh_b_spec nl k o pa : fresh_b nl k o pa = true <-> fresh_for nl k o pa.
Proof.
  unfold fresh_b, fresh_for. destruct (is_optional k).
  - rewrite negb_true_iff, opt_taken_false. split; [intros H _; exact H|intros H; apply H; reflexivity].
  - split; [intros _ [=]|reflexivity].
Qed.

Lemma add_local_exact nl k o pa :
  add_local nl k o pa = if fresh_b nl k o pa then Ret (add_opt k o pa) else Raise ArgumentError.
Proof.
  destruct k; cbn [add_local fresh_b add_opt is_optional]; try reflexivity;
    destruct (opt_taken nl o pa); reflexivity.
Qed.

(* one pass "add to the parser named d" over a state whose entries are (fst e, h e) *)
Lemma step_exact nl k o d (h : str * parser -> parser) : forall (st : state),
  (forall e, In e st -> fst e = d -> h e = snd e) ->
  st_mapM (fun q pa' => if str_eqb q d then add_local nl k o pa' else Ret pa') (map (fun e => (fst e, h e)) st) =
  if forallb (fun e => negb (str_eqb (fst e) d) || fresh_b nl k o (snd e)) st
  then Ret (map (fun e => (fst e, if str_eqb (fst e) d then add_opt k o (snd e) else h e)) st)
  else Raise ArgumentError.
Proof.
  induction st as [|e r IH]; intros H; cbn [map st_mapM forallb]; [reflexivity|].
  cbn [fst snd].
  rewrite IH by (intros e' He'; apply H; right; exact He').
  destruct (str_eqb_spec (fst e) d) as [E|N]; cbn [negb orb].
  - rewrite (H e (or_introl eq_refl) E). rewrite add_local_exact.
    destruct (fresh_b nl k o (snd e)); cbn [andb]; [|reflexivity].
    destruct (forallb _ r); reflexivity.
  - cbn [andb]. destruct (forallb _ r); reflexivity.
Qed.

Lemma forallb_ext_in {A} (f g : A -> bool) l : (forall x, In x l -> f x = g x) -> forallb f l = forallb g l.
Proof.
  induction l as [|x r IH]; intros H; cbn [forallb]; [reflexivity|].
  rewrite (H x (or_introl eq_refl)), IH; [reflexivity|]. intros y Hy. apply H. right. exact Hy.
Qed.

Lemma forallb_false_exists {A} (f : A -> bool) l : forallb f l = false <-> exists x, In x l /\ f x = false.
Proof.
  induction l as [|x r IH]; cbn [forallb].
  - split; [discriminate|intros (x & [] & _)].
  - rewrite andb_false_iff, IH. split.
    + intros [H|(y & Hy & Hf)]; [exists x; split; [left; reflexivity|exact H]|exists y; split; [right; exact Hy|exact Hf]].
    + intros (y & [<-|Hy] & Hf); [left; exact Hf|right; eauto].
Qed.

Lemma forallb_andb {A} (f g : A -> bool) l : forallb (fun x => f x && g x) l = forallb f l && forallb g l.
Proof.
  induction l as [|x r IH]; cbn [forallb]; [reflexivity|]. rewrite IH.
  destruct (f x), (g x), (forallb f r), (forallb g r); reflexivity.
Qed.

(* the propagation loop, exactly *)
Lemma update_deps_exact nl k o (st : state) : forall ds done, NoDup (done ++ ds) ->
  foldM (fun s d => st_mapM (fun q pa' => if str_eqb q d then add_local nl k o pa' else Ret pa') s) ds
        (map (fun e => (fst e, if mem (fst e) done then add_opt k o (snd e) else snd e)) st) =
  if forallb (fun e => negb (mem (fst e) ds) || fresh_b nl k o (snd e)) st
  then Ret (map (fun e => (fst e, if mem (fst e) (done ++ ds) then add_opt k o (snd e) else snd e)) st)
  else Raise ArgumentError.
Proof.
  induction ds as [|d ds IH]; intros done ND; cbn [foldM].
  - rewrite app_nil_r.
    rewrite (forallb_ext_in _ (fun _ => true)) by reflexivity.
    assert (forall (l : state), forallb (fun _ => true) l = true) as -> by (induction l; auto).
    reflexivity.
  - rewrite (step_exact nl k o d (fun e => if mem (fst e) done then add_opt k o (snd e) else snd e) st).
    + rewrite (forallb_ext_in (fun e => negb (mem (fst e) (d :: ds)) || fresh_b nl k o (snd e))
                 (fun e => (negb (str_eqb (fst e) d) || fresh_b nl k o (snd e)) &&
                           (negb (mem (fst e) ds) || fresh_b nl k o (snd e)))).
      2:{ intros e _. cbn [mem existsb]. fold (mem (fst e) ds).
          destruct (str_eqb (fst e) d), (mem (fst e) ds), (fresh_b nl k o (snd e)); reflexivity. }
      rewrite forallb_andb.
      destruct (forallb (fun e => negb (str_eqb (fst e) d) || fresh_b nl k o (snd e)) st); cbn [andb bind']; [|reflexivity].
      assert (map (fun e => (fst e, if str_eqb (fst e) d then add_opt k o (snd e)
                                    else if mem (fst e) done then add_opt k o (snd e) else snd e)) st =
              map (fun e => (fst e, if mem (fst e) (done ++ [d]) then add_opt k o (snd e) else snd e)) st) as ->.
      { apply map_ext_in. intros e He. f_equal. rewrite mem_app. cbn [mem existsb]. rewrite orb_false_r.
        destruct (str_eqb_spec (fst e) d) as [E|N]; [rewrite orb_true_r; reflexivity|rewrite orb_false_r; reflexivity]. }
      rewrite IH by (rewrite <- app_assoc; exact ND). rewrite <- app_assoc. reflexivity.
    + intros e He E. assert (mem (fst e) done = false) as ->; [|reflexivity].
      apply mem_false. rewrite E. intros I. apply NoDup_remove_2 in ND. apply ND. apply in_or_app. left. exact I.
Qed.

(* one add_argument call, exactly: every parser in scope takes the option, or
   -- when one of them already has the option string -- ArgumentError *)
Lemma apply_op_exact nl (st : state) t k o :
  match t with
  | TGlobal => True
  | TCmd p => exists pa, lookup p st = Some pa /\ NoDup (dep_names pa) /\ ~ In p (dep_names pa)
  end ->
  apply_op nl st (t, k, o) =
  if forallb (fun e => negb (in_scope_b t st (fst e)) || fresh_b nl k o (snd e)) st
  then Ret (map (fun e => (fst e, if in_scope_b t st (fst e) then add_opt k o (snd e) else snd e)) st)
  else Raise ArgumentError.
Proof.
  intros T. destruct t as [|p]; cbn [apply_op in_scope_b].
  - cbn [negb orb].
    assert (forall (l : state),
      st_mapM (fun _ pa => add_local nl k o pa) l =
      if forallb (fun e => fresh_b nl k o (snd e)) l
      then Ret (map (fun e => (fst e, add_opt k o (snd e))) l) else Raise ArgumentError) as K.
    { induction l as [|[q pa] r IH]; cbn [st_mapM forallb map fst snd]; [reflexivity|].
      rewrite add_local_exact, IH. destruct (fresh_b nl k o pa); cbn [andb]; [|reflexivity].
      destruct (forallb _ r); reflexivity. }
    apply K.
  - destruct T as (pa & L & ND & Hp). rewrite L.
    pose proof (update_deps_exact nl k o st (dep_names pa) [] ND) as C. cbn [app] in C.
    change (fun e : str * parser => (fst e, if mem (fst e) [] then add_opt k o (snd e) else snd e))
      with (fun e : str * parser => (fst e, snd e)) in C.
    rewrite map_fst_snd in C. rewrite C. clear C.
    rewrite (forallb_ext_in (fun e => negb (str_eqb (fst e) p || mem (fst e) (dep_names pa)) || fresh_b nl k o (snd e))
               (fun e => (negb (mem (fst e) (dep_names pa)) || fresh_b nl k o (snd e)) &&
                         (negb (str_eqb (fst e) p) || fresh_b nl k o (snd e)))).
    2:{ intros e _. destruct (str_eqb (fst e) p), (mem (fst e) (dep_names pa)), (fresh_b nl k o (snd e)); reflexivity. }
    rewrite forallb_andb.
    destruct (forallb (fun e => negb (mem (fst e) (dep_names pa)) || fresh_b nl k o (snd e)) st); cbn [andb bind']; [|reflexivity].
    rewrite (step_exact nl k o p (fun e => if mem (fst e) (dep_names pa) then add_opt k o (snd e) else snd e) st).
    + destruct (forallb (fun e => negb (str_eqb (fst e) p) || fresh_b nl k o (snd e)) st); [|reflexivity].
      f_equal. apply map_ext_in. intros e He. f_equal.
      destruct (str_eqb (fst e) p); reflexivity.
    + intros e He E. assert (mem (fst e) (dep_names pa) = false) as ->; [|reflexivity].
      apply mem_false. rewrite E. exact Hp.
Qed.

(* ------------------------------------------------------------------ *)
(* which exceptions add_argument / get_cmd_parser can raise              *)

Lemma add_local_raise nl k o pa e : add_local nl k o pa = Raise e -> e = ArgumentError /\ is_optional k = true.
Proof.
  rewrite add_local_exact. destruct (fresh_b nl k o pa) eqn:E; [discriminate|]. intros [= <-].
  destruct k; [auto|discriminate|auto].
Qed.

Lemma foldM_raise {A B} (f : A -> B -> res' A) (Q : exn -> Prop) :
  (forall a b e, f a b = Raise e -> Q e) -> forall l a e, foldM f l a = Raise e -> Q e.
Proof.
  intros H. induction l as [|b r IH]; intros a e; cbn [foldM]; [discriminate|].
  destruct (f a b) eqn:E; cbn [bind']; [apply IH|]. intros [= <-]. eapply H. exact E.
Qed.

Lemma apply_op_raises nl (st : state) t k o e :
  apply_op nl st (t, k, o) = Raise e ->
  (e = ValueError /\ exists p, t = TCmd p /\ ~ In p (keys st)) \/ (e = ArgumentError /\ is_optional k = true).
Proof.
  destruct t as [|p]; cbn [apply_op].
  - intros H. apply st_mapM_raise in H. destruct H as (_ & _ & pa & H). right. eapply add_local_raise. exact H.
  - destruct (lookup p st) as [pa|] eqn:L.
    + intros H. right.
      assert (forall s (q : str) (f := fun q' pa' => if str_eqb q' q then add_local nl k o pa' else Ret pa') x,
                st_mapM f s = Raise x -> x = ArgumentError /\ is_optional k = true) as K.
      { intros s q f x Hx. apply st_mapM_raise in Hx. destruct Hx as (e0 & _ & pa0 & Hx). unfold f in Hx.
        destruct (str_eqb (fst e0) q); [eapply add_local_raise; exact Hx|discriminate]. }
      destruct (foldM _ (dep_names pa) st) as [s1|x] eqn:E; cbn [bind'] in H.
      * eapply K. exact H.
      * inversion H. subst x.
        eapply (foldM_raise _ (fun x => x = ArgumentError /\ is_optional k = true)); [|exact E].
        intros a b x Hx. eapply K. exact Hx.
    + intros [= <-]. left. split; [reflexivity|]. exists p. split; [reflexivity|]. apply lookup_none. exact L.
Qed.

Lemma get_cmd_parser_unknown nl (st : state) p k o :
  apply_op nl st (TCmd p, k, o) = Raise ValueError <-> ~ In p (keys st).
Proof.
  split.
  - intros H. destruct (apply_op_raises nl st _ k o _ H) as [(_ & q & [= <-] & N)|(X & _)]; [exact N|discriminate].
  - intros N. cbn [apply_op]. apply lookup_none in N. rewrite N. reflexivity.
Qed.

(* ------------------------------------------------------------------ *)
(* duplicated option strings                                            *)

Definition target_ok (ds : list decl) (t : target) : Prop :=
  match t with TGlobal => True | TCmd p => In p (names ds) end.

(* the scopes of two targets meet: some declared parser is in both *)
Definition scopes_meet (ds : list decl) (t t' : target) : Prop :=
  exists c, In c (names ds) /\ in_scope ds t c /\ in_scope ds t' c.

Lemma OInv_target ds done (st : state) t :
  OInv ds done st -> target_ok ds t ->
  match t with
  | TGlobal => True
  | TCmd p => exists pa, lookup p st = Some pa /\ NoDup (dep_names pa) /\ ~ In p (dep_names pa) /\
                         forall c, In c (dep_names pa) <-> anc ds p c
  end.
Proof.
  intros I Ht. destruct t as [|p]; [exact Logic.I|]. cbn [target_ok] in Ht.
  rewrite <- (OInv_keys _ _ _ I) in Ht.
  destruct (lookup_in_some _ _ Ht) as (pa & L). exists pa. split; [exact L|].
  apply lookup_some_in in L.
  destruct (Forall2_in_r _ _ _ _ I L) as (d & _ & (E1 & _ & E3 & E4 & E5 & _)). cbn [fst snd] in *.
  rewrite <- E1 in E5. auto.
Qed.

Lemma OInv_in_scope ds done (st : state) t e :
  OInv ds done st -> target_ok ds t -> In e st ->
  (in_scope_b t st (fst e) = true <-> in_scope ds t (fst e)).
Proof.
  intros I Ht He. pose proof (OInv_target ds done st t I Ht) as T.
  destruct t as [|p]; cbn [in_scope_b in_scope]; [tauto|].
  destruct T as (pa & -> & _ & _ & A). rewrite orb_true_iff, str_eqb_eq, mem_In, A. tauto.
Qed.

Lemma duplicate_flag_l ds nl ops st' t k o t' k' :
  configured ds nl ops st' -> In (t, k, o) ops -> is_optional k = true -> is_optional k' = true -> target_ok ds t' ->
  (scopes_meet ds t t' -> apply_op nl st' (t', k', o) = Raise ArgumentError) /\
  (~ scopes_meet ds t t' -> exists st'', apply_op nl st' (t', k', o) = Ret st'') /\
  (apply_op nl st' (t', k', o) = Raise ArgumentError <-> scopes_meet ds t t').
Proof.
  intros (st & B & OK & A) Ho Hk Hk' Ht'.
  destruct (apply_ops_ok ds st nl ops B OK) as (st2 & A2 & I).
  rewrite A in A2. inversion A2. subst st2. clear A2.
  destruct OK as (ND & FO).
  assert (mem (flag_str o) (std_option_strings nl) = false) as Hstd.
  { rewrite Forall_forall in FO. destruct (FO _ Ho) as (_ & H). apply H. exact Hk. }
  (* an entry is not fresh for o iff the call that added o is in scope of it *)
  assert (forall e, In e st' -> (fresh_b nl k' o (snd e) = false <-> in_scope ds t (fst e))) as FR.
  { intros e He. destruct (Forall2_in_r _ _ _ _ I He) as (d & _ & (E1 & _ & _ & _ & _ & E6)).
    unfold fresh_b. rewrite Hk'. rewrite negb_false_iff. unfold opt_taken. rewrite Hstd. cbn [orb].
    rewrite orb_true_iff, !mem_In. change (p_flags (snd e)) with (p_list KFlag (snd e)).
    change (p_vals (snd e)) with (p_list KVal (snd e)). rewrite !E6, <- E1. split.
    - intros [(t0 & H1 & H2)|(t0 & H1 & H2)];
        destruct (op_name_inj ops t t0 _ _ o ND Ho H1) as (-> & _); exact H2.
    - intros S. destruct k; [left|discriminate|right]; eauto. }
  pose proof (OInv_target ds ops st' t' I Ht') as T.
  assert (apply_op nl st' (t', k', o) =
          if forallb (fun e => negb (in_scope_b t' st' (fst e)) || fresh_b nl k' o (snd e)) st'
          then Ret (map (fun e => (fst e, if in_scope_b t' st' (fst e) then add_opt k' o (snd e) else snd e)) st')
          else Raise ArgumentError) as EX.
  { apply apply_op_exact. destruct t' as [|p]; [exact Logic.I|]. destruct T as (pa & L & N1 & N2 & _). eauto. }
  assert (forallb (fun e => negb (in_scope_b t' st' (fst e)) || fresh_b nl k' o (snd e)) st' = false <->
          scopes_meet ds t t') as M.
  { rewrite forallb_false_exists. split.
    - intros (e & He & Hf). apply orb_false_elim in Hf as (S1 & S2). apply negb_false_iff in S1.
      exists (fst e). split; [|split].
      + rewrite <- (OInv_keys _ _ _ I). apply in_map. exact He.
      + apply FR; assumption.
      + apply (OInv_in_scope ds ops st' t' e I Ht' He). exact S1.
    - intros (c & Hc & S1 & S2). rewrite <- (OInv_keys _ _ _ I) in Hc. apply in_map_iff in Hc.
      destruct Hc as (e & <- & He). exists e. split; [exact He|].
      apply (OInv_in_scope ds ops st' t' e I Ht' He) in S2. apply FR in S1; [|exact He]. rewrite S1, S2. reflexivity. }
  destruct (forallb (fun e => negb (in_scope_b t' st' (fst e)) || fresh_b nl k' o (snd e)) st') eqn:E.
  - assert (~ scopes_meet ds t t') as NM by (intros H; apply M in H; discriminate).
    rewrite EX. split; [intros H; contradiction|]. split; [intros _; eexists; reflexivity|].
    split; [discriminate|intros H; contradiction].
  - assert (scopes_meet ds t t') as YM by (apply M; reflexivity).
    rewrite EX. split; [reflexivity|]. split; [intros H; contradiction|]. split; auto.
Qed.

(* an option string of the standard options can never be added *)
Lemma std_flag_conflict_l ds nl ops st' k o t' :
  configured ds nl ops st' -> ds <> [] -> target_ok ds t' -> is_optional k = true ->
  mem (flag_str o) (std_option_strings nl) = true ->
  apply_op nl st' (t', k, o) = Raise ArgumentError.
Proof.
  intros (st & B & OK & A) Hne Ht' Hk Hstd.
  destruct (apply_ops_ok ds st nl ops B OK) as (st2 & A2 & I).
  rewrite A in A2. inversion A2. subst st2. clear A2.
  pose proof (OInv_target ds ops st' t' I Ht') as T.
  rewrite apply_op_exact by (destruct t' as [|p]; [exact Logic.I|]; destruct T as (pa & L & N1 & N2 & _); eauto).
  assert (forallb (fun e => negb (in_scope_b t' st' (fst e)) || fresh_b nl k o (snd e)) st' = false) as ->; [|reflexivity].
  apply forallb_false_exists.
  assert (exists e, In e st' /\ in_scope_b t' st' (fst e) = true) as (e & He & S).
  { destruct t' as [|p].
    - pose proof (OInv_keys _ _ _ I) as K. destruct st' as [|e r].
      + destruct ds; [congruence|discriminate].
      + exists e. split; [left; reflexivity|reflexivity].
    - destruct T as (pa & L & _). exists (p, pa). split; [apply lookup_some_in; exact L|].
      cbn [in_scope_b fst]. rewrite L, str_eqb_refl. reflexivity. }
  exists e. split; [exact He|]. rewrite S. unfold fresh_b, opt_taken. rewrite Hk, Hstd. reflexivity.
Qed.
