(* C12/Props.v -- the property theorems, nothing else.
   "Tables are rectangular, aligned, width-bounded and account for every record."
   Subject: the model of PPTable printing in C12/Model.v ([layout_of] builds the
   parts of the printed table, [render] = [layout_lines] of it is what the
   correspondence check compares with the implementation's no_color lines).
   Vocabulary ([shown], [pad], [truncate_dots], [offset], [slice], [want_width],
   [cell_full] ...) is in C12/Spec.v.  All statements are for every table
   description: any number of fields, columns, records, any widths (0 and
   min = max included), any texts, any limits. *)
From Coq Require Import ZArith List Bool Arith.
From AK Require Import Common.Sx Common.Err gen.C12_Consts C12.Model C12.Run C12.Spec C12.Lemmas C12.HistLemmas.
Import ListNotations.

(* ---- obligations on the literals read from ak/ppobj.py ---- *)
Theorem consts_ok : 1 <= limit_slack /\ 1 <= dots_max /\ dflt_min_width <= dflt_max_width.
Proof. exact (conj slack_pos (conj dots_pos dflt_widths_ok)). Qed.
Print Assumptions consts_ok.

(* ---- pad / truncate to an exact width (FieldType.fit_to_width, CHText.resize_chunks_list) ---- *)
Theorem resize_exact : forall chunks n,
  concat (resize_chunks_list chunks n) = firstn n (concat chunks) ++ spaces (n - total_len chunks) /\
  total_len chunks = length (concat chunks).
Proof. exact (fun ch n => conj (resize_spec ch n) (total_len_concat ch)). Qed.
Print Assumptions resize_exact.

Theorem fit_exact : forall chunks w al, length (fit_text chunks w al) = w.
Proof. exact fit_exact_l. Qed.
Print Assumptions fit_exact.

(* the result is the full text padded, or a prefix of it ending in dots *)
Theorem fit_content : forall chunks w al,
  fit_text chunks w al = shown al (concat chunks) w /\
  (length (concat chunks) <= w -> shown al (concat chunks) w = pad al (concat chunks) w) /\
  (w < length (concat chunks) ->
     exists d, d = Nat.min dots_max w /\ (1 <= w -> 1 <= d) /\ d <= w /\
       shown al (concat chunks) w = firstn (w - d) (concat chunks) ++ repeat c_dot d).
Proof.
  exact (fun ch w al => conj (fit_content_l ch w al)
                             (conj (padded_l al (concat ch) w) (truncation_l al (concat ch) w))).
Qed.
Print Assumptions fit_content.

(* ---- which inputs are printed at all ---- *)
Theorem render_ok_iff : forall t,
  (exists ls, render t = Ok ls) <-> (mods_ok t = true /\ columns t <> [] /\ titles_ok t = true).
Proof.
  intros t. rewrite <- layout_ok_iff. split.
  - intros [ls H]. apply render_layout in H. destruct H as [y [H _]]. exists y. exact H.
  - intros [y H]. exists (layout_lines y). apply render_layout. exists y. auto.
Qed.
Print Assumptions render_ok_iff.

Theorem render_errors : forall t e, render t = Err e ->
  (mods_ok t = false /\ e = ValueErr) \/
  (mods_ok t = true /\ columns t = [] /\ e = AssertErr) \/
  (mods_ok t = true /\ columns t <> [] /\ titles_ok t = false /\ e = ValueErr).
Proof. intros t e H. apply layout_err. apply render_err. exact H. Qed.
Print Assumptions render_errors.

Theorem render_lines : forall t ls,
  render t = Ok ls <-> exists y, layout_of t = Ok y /\ ls = layout_lines y.
Proof. exact render_layout. Qed.
Print Assumptions render_lines.

(* ---- rectangular: every printed line (borders, header, titles, records, break-by and
        skipped-records lines, footer) has the width of the border ---- *)
Theorem rectangular : forall t ls, render t = Ok ls ->
  exists ws, length ws = length (columns t) /\
    Forall (fun l => length l = sum_nat ws + length ws + 1) ls.
Proof.
  intros t ls H. apply render_layout in H. destruct H as [y [H E]]. subst ls.
  exists (l_ws y). split.
  - destruct (layout_inv t y H) as (_ & _ & _ & Hws & _). rewrite Hws. apply t_ws_length.
  - exact (rectangular_l t y H).
Qed.
Print Assumptions rectangular.

(* ---- separators: at the offset of every '+' of the border each title line and each record
        line has the separator (stated on offsets, so '|', '+', '-' inside values are harmless);
        header and service lines have it at both ends ---- *)
Theorem separators_aligned : forall t y, layout_of t = Ok y ->
  (forall j, j <= length (l_ws y) ->
     nth (offset (l_ws y) j) (border_line (l_ws y)) 0%Z = c_plus /\
     (forall line, In line (l_titles y) -> nth (offset (l_ws y) j) line 0%Z = c_sep) /\
     (forall r line, In (TRec r, line) (l_body y) -> nth (offset (l_ws y) j) line 0%Z = c_sep)) /\
  (forall line, In line (l_header y ++ l_titles y ++ map snd (l_body y)) ->
     nth 0 line 0%Z = c_sep /\ nth (sum_nat (l_ws y) + length (l_ws y)) line 0%Z = c_sep).
Proof.
  intros t y H. split; [exact (separators_l t y H)|].
  intros line Hl. destruct (edges_l t y H line Hl) as [A B]. split; [exact A|].
  unfold table_width in B. replace (sum_nat (l_ws y) + length (l_ws y)) with (sum_nat (l_ws y) + length (l_ws y) + 1 - 1).
  - exact B.
  - rewrite Nat.add_sub. reflexivity.
Qed.
Print Assumptions separators_aligned.

(* ---- column widths: within the configured bounds, and exactly the clipped maximum of the
        title and of the cells of the records that are shown ---- *)
Theorem width_bounds : forall t y, layout_of t = Ok y ->
  Forall (fun c => col_min c <= col_max c) (columns t) ->
  Forall2 (fun c w => col_min c <= w <= col_max c) (columns t) (l_ws y).
Proof. exact width_bounds_l. Qed.
Print Assumptions width_bounds.

Theorem width_negotiated : forall t y j, layout_of t = Ok y -> j < length (columns t) ->
  nth j (l_ws y) 0 =
  want_width (t_fields t) (nth j (columns t) dummy_col) (visible_recs (map fst (l_body y))).
Proof. exact width_exact_l. Qed.
Print Assumptions width_negotiated.

(* ---- cell content: between two marks a record line shows that record's value of that column,
        in full and padded, or a prefix ending in dots -- nothing of another cell ---- *)
Theorem cell_content : forall t y r line j, layout_of t = Ok y ->
  In (TRec r, line) (l_body y) -> j < length (columns t) ->
  let c := nth j (columns t) dummy_col in
  let w := nth j (l_ws y) 0 in
  slice (offset (l_ws y) j + 1) w line = shown (cell_align (t_fields t) c r) (cell_full (t_fields t) c r) w.
Proof. exact cell_content_l. Qed.
Print Assumptions cell_content.

(* what the full text is: str(value) for ordinary columns, the value / name / "value name"
   for enum columns *)
Theorem cell_full_text : forall fields c r,
  (f_kind (col_field fields c) = KDefault ->
     cell_full fields c r = v_text (fetch r c) /\ cell_align fields c r = align_of (v_right (fetch r c))) /\
  (forall e, f_kind (col_field fields c) = KEnum e -> cell_full fields c r = enum_full e (c_mod c) (fetch r c)).
Proof. exact (fun f c r => conj (default_cell_full f c r) (enum_cell_full f c r)). Qed.
Print Assumptions cell_full_text.

Theorem title_content : forall t y i j, layout_of t = Ok y -> i < length (l_titles y) -> j < length (columns t) ->
  slice (offset (l_ws y) j + 1) (nth j (l_ws y) 0) (nth i (l_titles y) []) =
  match nth_error (title_lines (col_field (t_fields t) (nth j (columns t) dummy_col))) i with
  | Some (text, rt) => shown (align_of rt) text (nth j (l_ws y) 0)
  | None => shown ALeft [] (nth j (l_ws y) 0)
  end.
Proof. intros. rewrite (title_content_l t y i j) by assumption. apply title_cell_shown. Qed.
Print Assumptions title_content.

Theorem header_footer_content : forall t y, layout_of t = Ok y ->
  l_header y = match t_header t with
               | Some ((_ :: _) as h) => [c_sep :: shown ALeft h (table_width (l_ws y) - 2) ++ [c_sep]]
               | _ => []
               end /\
  l_footer y = match footer_text t with
               | [] => []
               | f => [shown ALeft f (table_width (l_ws y))]
               end.
Proof. exact header_footer_l. Qed.
Print Assumptions header_footer_content.

(* ---- records: all shown in order, or exactly the first n and last m lines around one notice,
        and then announced + shown = total, the hidden records are a contiguous run, and at
        least one record is hidden ---- *)
Theorem limits_accounting : forall t y, layout_of t = Ok y ->
  let recs := t_records t in
  let tl := all_table_lines t in
  let shown_lines := map fst (l_body y) in
  visible_recs tl = recs /\
  ((shown_lines = tl /\ l_skipped y = 0 /\ visible_recs shown_lines = recs /\
    (forall nf nl, limits t = (Some nf, Some nl) -> length tl <= nf + nl + limit_slack))
   \/
   (exists nf nl, limits t = (Some nf, Some nl) /\ nf + nl + limit_slack < length tl /\
      shown_lines = firstn nf tl ++ [TSkip] ++ skipn (length tl - nl) tl /\
      l_skipped y + count_recs shown_lines = length recs /\
      1 <= l_skipped y /\
      exists a b, a <= b /\ b <= length recs /\ l_skipped y = b - a /\
        visible_recs shown_lines = firstn a recs ++ skipn b recs)).
Proof. intros t y H. split; [apply all_lines_recs|exact (limits_l t y H)]. Qed.
Print Assumptions limits_accounting.

Theorem limits_nontrivial : forall t y, layout_of t = Ok y ->
  In TSkip (map fst (l_body y)) -> 1 <= l_skipped y.
Proof. exact limits_nontrivial_l. Qed.
Print Assumptions limits_nontrivial.

(* the notice announces exactly that number, in decimal; break-by lines are blank *)
Theorem service_lines : forall t y tl line, layout_of t = Ok y -> In (tl, line) (l_body y) ->
  match tl with
  | TRec _ => True
  | TBreak => line = c_sep :: spaces (table_width (l_ws y) - 2) ++ [c_sep]
  | TSkip => line = c_sep :: shown ALeft (skip_prefix ++ dec (l_skipped y) ++ skip_suffix)
                                   (table_width (l_ws y) - 2) ++ [c_sep]
  end.
Proof. exact service_body_l. Qed.
Print Assumptions service_lines.

Theorem dec_is_decimal : forall n,
  dec_value (dec n) 0 = n /\ Forall (fun c => (48 <= c <= 57)%Z) (dec n) /\ dec n <> [].
Proof. exact dec_correct. Qed.
Print Assumptions dec_is_decimal.

(* ---- the comparison made by the correspondence check is exact ---- *)
Theorem run_verdict : forall c, run c = verdict_ok <->
  match c with
  | mkCase t expect => render t = expect
  | FitCase chunks w al expect => fit_text chunks w al = expect
  | ResizeCase chunks n expect => concat (resize_chunks_list chunks n) = expect
  | HistCase ts ops expect => hist_events ts ops = expect
  end.
Proof. exact run_verdict_l. Qed.
Print Assumptions run_verdict.

(* ---- non-vacuity: a table with a zero-width column, min = max, truncation, a break-by line,
        limits that hide records, a header longer than the table ---- *)
Definition ex_cell (s : str) (right : bool) (q : Z) : cell := mkCell s right false q.
Definition ex_table : table :=
  mkTable [mkField [105;100]%Z None KDefault; mkField [110]%Z None KDefault]
          (Some [mkCol 0 MNone false (Some (0, 0)); mkCol 1 MNone true (Some (2, 4)); mkCol 0 MNone false None])
          [] 
          [[ex_cell [49]%Z true 0; ex_cell [97;98;99;100;101]%Z false 1];
           [ex_cell [50]%Z true 2; ex_cell [97;98;99;100;101]%Z false 1];
           [ex_cell [51]%Z true 3; ex_cell [120]%Z false 4];
           [ex_cell [52]%Z true 5; ex_cell [120]%Z false 4];
           [ex_cell [53]%Z true 6; ex_cell [124]%Z false 7]]
          (Some [72;101;97;100;101;114;32;116;101;120;116]%Z) None (Some (1, 1)) None.

Example ex_renders :
  render ex_table = Ok [
    [43;43;45;45;45;45;43;45;45;43]%Z;                 (* ++----+--+ *)
    [124;72;101;97;100;101;46;46;46;124]%Z;            (* |Heade...| *)
    [124;124;110;32;32;32;124;105;100;124]%Z;          (* ||n   |id| *)
    [43;43;45;45;45;45;43;45;45;43]%Z;
    [124;124;97;46;46;46;124;32;49;124]%Z;             (* ||a...| 1| *)
    [124;46;46;46;32;51;46;46;46;124]%Z;               (* |... 3...| : 3 records skipped *)
    [124;124;124;32;32;32;124;32;53;124]%Z;            (* |||   | 5| *)
    [43;43;45;45;45;45;43;45;45;43]%Z;
    [84;111;116;97;108;32;53;46;46;46]%Z].             (* Total 5... *)
Proof. vm_compute. reflexivity. Qed.
Print Assumptions ex_renders.

(* ================================================================== histories (C12/Hist.v)
   Several tables side by side, printed repeatedly, line by line through interleaved
   iterators, re-formatted and cloned: [step] / [exec] / [hist_events] say what every call
   returns; the correspondence check compares this with the implementation call by call. *)

(* ---- a whole print returns the rendering of that table alone and changes nothing,
        whatever iterators are alive ---- *)
Theorem render_alone : forall s i t, nth_error (h_tables s) i = Some t ->
  step s (ORender i) = (s, render t).
Proof. exact render_alone_l. Qed.
Print Assumptions render_alone.

(* ---- an operation changes no table but the one it is addressed to (set_fmt, remove_columns);
        printing, opening and advancing iterators and cloning change no table at all ---- *)
Theorem tables_frame : forall s o j, j < length (h_tables s) -> op_target o <> Some j ->
  nth_error (h_tables (fst (step s o))) j = nth_error (h_tables s) j.
Proof. exact tables_frame_l. Qed.
Print Assumptions tables_frame.

(* ---- history independence: while table j is not re-formatted, every whole print of it --
        after any other prints, iterations, re-formats and clones of this or other tables --
        is [render t], the text of the table printed alone ---- *)
Theorem history_free : forall ops s s' evs j t,
  (forall o, In o ops -> op_target o <> Some j) ->
  nth_error (h_tables s) j = Some t -> exec s ops = (s', evs) ->
  nth_error (h_tables s') j = Some t /\
  forall n, nth_error ops n = Some (ORender j) -> nth_error evs n = Some (render t).
Proof. exact history_free_l. Qed.
Print Assumptions history_free.

(* ---- line iterators: the first next() prints the table as it is at that moment ... ---- *)
Theorem iterator_start : forall s g i t k, nth_error (h_gens s) g = Some (GNew i) ->
  nth_error (h_tables s) i = Some t -> 0 < k ->
  step s (ONext g k) =
  match render t with
  | Ok ls => (set_gen s g (GRun (skipn k ls)), Ok (firstn k ls))
  | Err e => (set_gen s g (GRun []), Err e)
  end.
Proof. exact gen_start_l. Qed.
Print Assumptions iterator_start.

(* ---- ... and from then on delivers exactly those lines, in order, whatever is done in
        between to this or other tables and iterators: what is still to come at any later time
        is what was to come before minus what has been delivered ---- *)
Theorem iterator_stream : forall ops s g rest s' evs,
  nth_error (h_gens s) g = Some (GRun rest) -> exec s ops = (s', evs) ->
  exists rest', nth_error (h_gens s') g = Some (GRun rest') /\ rest = delivered g ops evs ++ rest'.
Proof. exact gen_stream_l. Qed.
Print Assumptions iterator_stream.

Theorem iterators_frame : forall s o g, g < length (h_gens s) -> is_next_of g o = false ->
  nth_error (h_gens (fst (step s o))) g = nth_error (h_gens s) g.
Proof. exact gens_frame_l. Qed.
Print Assumptions iterators_frame.

(* ---- what set_fmt, remove_columns and a clone built from t.fmt keep and change ---- *)
Theorem set_fmt_spec : forall t cs ls t', set_fmt t cs ls = Ok t' ->
  t_fields t' = t_fields t /\ t_records t' = t_records t /\
  t_header t' = t_header t /\ t_footer t' = t_footer t /\
  columns t' = match cs with
               | CKeep => columns t
               | CAll => default_cols (t_fields t)
               | CCols l => l
               end /\
  limits t' = match ls with LKeep => limits t | LSet p => p end.
Proof. exact set_fmt_spec_l. Qed.
Print Assumptions set_fmt_spec.

Theorem set_fmt_ok_iff : forall t cs ls, constructible t = true ->
  ((exists t', set_fmt t cs ls = Ok t' /\ constructible t' = true) <->
   match cs with CCols l => cols_valid (t_fields t) l = true | _ => True end) /\
  (forall e, set_fmt t cs ls = Err e -> e = ValueErr).
Proof. exact set_fmt_ok_iff_l. Qed.
Print Assumptions set_fmt_ok_iff.

Theorem remove_columns_spec : forall t skip,
  t_fields (remove_cols t skip) = t_fields t /\ t_records (remove_cols t skip) = t_records t /\
  limits (remove_cols t skip) = limits t /\
  columns (remove_cols t skip) =
    filter (fun c => negb (existsb (Nat.eqb (c_field c)) skip)) (columns t).
Proof. exact remove_cols_spec_l. Qed.
Print Assumptions remove_columns_spec.

Theorem clone_spec : forall t recs hd ft lim,
  let t' := clone_table t recs hd ft lim in
  t_fields t' = t_fields t /\ t_records t' = recs /\ t_header t' = hd /\ t_footer t' = ft /\
  columns t' = columns t /\
  limits t' = match lim with Some p => p | None => limits t end.
Proof. exact clone_spec_l. Qed.
Print Assumptions clone_spec.

(* ---- non-vacuity: two tables, their iterators interleaved with a whole print, a set_fmt that
        shows everything, a rejected set_fmt, a clone whose only column is removed
        (this history is also corpus/C12/history.json: the implementation returns the same) ---- *)
Definition ex_table2 : table :=
  mkTable [mkField [103]%Z None KDefault]
          (Some [mkCol 0 MNone true None])
          []
          [[ex_cell [97]%Z false 0]; [ex_cell [98]%Z false 1]; [ex_cell [98]%Z false 1]]
          None (Some []) None None.
Definition ex_ops : list op :=
  [OOpen 0; OOpen 1; ONext 0 5; ONext 1 4; ORender 1; ONext 0 2000; ONext 1 2000;
   OSetFmt 0 (CCols [mkCol 1 MNone true None]) (LSet (None, None)); ORender 0;
   OSetFmt 0 (CCols [mkCol 1 MVal true None]) LKeep;
   OClone 1 [[ex_cell [122;122]%Z false 0]] None (Some []) None; ORemove 2 [0]; ORender 2].

Example ex_history :
  hist_events [ex_table; ex_table2] ex_ops =
   ([Ok [];
    Ok [];
    Ok [];
    Ok [];
    Ok [[43; 43; 45; 45; 45; 45; 43; 45; 45; 43];
        [124; 72; 101; 97; 100; 101; 46; 46; 46; 124];
        [124; 124; 110; 32; 32; 32; 124; 105; 100; 124];
        [43; 43; 45; 45; 45; 45; 43; 45; 45; 43];
        [124; 124; 97; 46; 46; 46; 124; 32; 49; 124]];
    Ok [[43; 45; 43];
        [124; 103; 124];
        [ 43; 45; 43];
        [124; 97; 124]];
    Ok [[43; 45; 43];
        [124; 103; 124];
        [ 43; 45; 43];
        [124; 97; 124];
        [ 124; 32; 124];
        [124; 98; 124];
        [ 124; 98; 124];
        [43; 45; 43]];
    Ok [[124; 46; 46; 46; 32; 51; 46; 46; 46; 124];
        [124; 124; 124; 32; 32; 32; 124; 32; 53; 124];
        [43; 43; 45; 45; 45; 45; 43; 45; 45; 43];
        [84; 111; 116; 97; 108; 32; 53; 46; 46; 46]];
    Ok [[124; 32; 124];
        [124; 98; 124];
        [ 124; 98; 124];
        [43; 45; 43]];
    Ok [];
    Ok [[43; 45; 45; 45; 45; 45; 43];
        [124; 72; 101; 46; 46; 46; 124];
        [124; 110; 32; 32; 32; 32; 124];
        [43; 45; 45; 45; 45; 45; 43];
        [124; 97; 98; 99; 100; 101; 124];
        [124; 97; 98; 99; 100; 101; 124];
        [124; 32; 32; 32; 32; 32; 124];
        [124; 120; 32; 32; 32; 32; 124];
        [124; 120; 32; 32; 32; 32; 124];
        [124; 32; 32; 32; 32; 32; 124];
        [124; 124; 32; 32; 32; 32; 124];
        [43; 45; 45; 45; 45; 45; 43];
        [84; 111; 116; 97; 46; 46; 46]];
    Err ValueErr;
    Ok [];
    Ok [];
    Err AssertErr])%Z.
Proof. vm_compute. reflexivity. Qed.
Print Assumptions ex_history.
