(* C19/LemmasVec.v -- multi-token argument vectors.
   [sub_spec_vec]: what is assumed of argparse on vectors
       --f1 .. --fk  w1 .. wm  --g1 .. --gj
   (store_true flags, one block of words for the nargs='*' positionals): when it
   accepts and what the namespace holds.  The executable stand-in [mini_sub]
   meets it; option scope, namespace contents, positionals and the default
   command are then stated on what parse_args returns. *)
From Coq Require Import ZArith List Bool Lia.
From AK Require Import gen.C19_Consts C19.Model C19.Lemmas C19.LemmasOps C19.LemmasParse.
Import ListNotations.
Open Scope Z_scope.

Definition word (w : str) : Prop := starts_dash w = false.

Definition poss_result (P : list str) (ws : list str) : list (str * list str) :=
  match P with
  | [] => []
  | p0 :: ps => (p0, ws) :: map (fun p => (p, [])) ps
  end.

(* no option string of the parser contains '=' *)
Definition no_eq_names (F V : list str) : Prop := forall x, In x F \/ In x V -> ~ In ch_eq x.

Record sub_spec_vec (sub : subparser) : Prop := {
  sv_accept : forall nl F P V os1 ws os2,
      Forall (user_flag nl) (os1 ++ os2) -> Forall (fun o => ~ In o V) (os1 ++ os2) -> Forall word ws ->
      (sub nl F P V (map flag_str os1 ++ ws ++ map flag_str os2) <> None <->
       (Forall (fun o => In o F) (os1 ++ os2) /\ (ws = [] \/ P <> [])));
  sv_result : forall nl F P V os1 ws os2 s,
      Forall (user_flag nl) (os1 ++ os2) -> Forall (fun o => ~ In o V) (os1 ++ os2) -> Forall word ws ->
      sub nl F P V (map flag_str os1 ++ ws ++ map flag_str os2) = Some s ->
      sn_flags s = map (fun o => (o, mem o (os1 ++ os2))) F /\
      sn_poss s = poss_result P ws /\
      sn_vals s = map (fun o => (o, None)) V /\
      sn_verbose s = 0%nat /\ sn_color s = CStr color_default /\ sn_no_color s = false;
  (* a parser without positionals rejects a vector that starts with a word *)
  sv_word_no_pos : forall nl F V w r, word w -> sub nl F [] V (w :: r) = None;
  (* '--o VALUE' and '--o=VALUE': accepted iff o is a value option of the parser;
     the namespace holds the value, the other value options stay None *)
  sv_value : forall nl F P V o v,
      user_flag nl o -> ~ In o F -> word v ->
      (sub nl F P V [flag_str o; v] <> None <-> In o V) /\
      forall s, sub nl F P V [flag_str o; v] = Some s ->
        sn_vals s = map (fun x => (x, if str_eqb x o then Some v else None)) V;
  sv_value_eq : forall nl F P V o v,
      user_flag nl o -> no_eq_names F V ->
      (sub nl F P V [flag_str o ++ ch_eq :: v] <> None <-> In o V) /\
      forall s, sub nl F P V [flag_str o ++ ch_eq :: v] = Some s ->
        sn_vals s = map (fun x => (x, if str_eqb x o then Some v else None)) V
}.

(* ------------------------------------------------------------------ *)
(* the stand-in on flags and words                                       *)

Definition push_word (w : str) (a : acc) : acc :=
  mkAcc (a_verbose a) (a_color a) (a_seen_color a) (a_no_color a) (a_set a) (a_words a ++ [w]) BOpen (a_given a).

Fixpoint push_flags (os : list str) (a : acc) : acc :=
  match os with [] => a | o :: r => push_flags r (push_flag o a) end.

Fixpoint push_words (ws : list str) (a : acc) : acc :=
  match ws with [] => a | w :: r => push_words r (push_word w a) end.

Lemma mini_go_flag_step nl F P V o r a :
  user_flag nl o -> ~ In o V ->
  mini_go nl F P V (flag_str o :: r) a = if mem o F then mini_go nl F P V r (push_flag o a) else None.
Proof.
  intros U HV. rewrite (mini_go_opt_step nl F P V o r a U). apply mem_false in HV. rewrite HV. reflexivity.
Qed.

Lemma mini_go_flags nl F P V os : forall r a,
  Forall (user_flag nl) os -> Forall (fun o => ~ In o V) os ->
  mini_go nl F P V (map flag_str os ++ r) a =
  if forallb (fun o => mem o F) os then mini_go nl F P V r (push_flags os a) else None.
Proof.
  induction os as [|o os IH]; intros r a H HV; cbn [map app forallb push_flags]; [reflexivity|].
  inversion H as [|x l Ho Hos]. inversion HV as [|x' l' Hv Hvs]. subst.
  rewrite (mini_go_flag_step nl F P V o _ a Ho Hv).
  destruct (mem o F); cbn [andb]; [apply IH; assumption|reflexivity].
Qed.

Lemma mini_go_word_step nl F P V w r a :
  word w ->
  mini_go nl F P V (w :: r) a =
  match a_blk a with
  | BClosed => None
  | _ => if is_nil P then None else mini_go nl F P V r (push_word w a)
  end.
Proof. intros H. unfold word in H. cbn [mini_go]. rewrite H. reflexivity. Qed.

Lemma mini_go_words nl F P V ws : forall r a,
  Forall word ws -> P <> [] -> a_blk a <> BClosed ->
  mini_go nl F P V (ws ++ r) a = mini_go nl F P V r (push_words ws a).
Proof.
  induction ws as [|w ws IH]; intros r a H HP Hb; cbn [app push_words]; [reflexivity|].
  inversion H as [|x l Hw Hws]. subst.
  rewrite (mini_go_word_step nl F P V w _ a Hw).
  destruct P as [|p0 ps]; [congruence|]. cbn [is_nil].
  destruct (a_blk a) eqn:Eb; [| |congruence]; apply IH; auto; cbn; discriminate.
Qed.

(* projections of the accumulated state *)
Lemma push_flags_fields os : forall a,
  a_verbose (push_flags os a) = a_verbose a /\ a_color (push_flags os a) = a_color a /\
  a_no_color (push_flags os a) = a_no_color a /\ a_words (push_flags os a) = a_words a /\
  a_set (push_flags os a) = rev os ++ a_set a /\ a_given (push_flags os a) = a_given a /\
  (a_blk a = BNone -> a_blk (push_flags os a) = BNone).
Proof.
  induction os as [|o os IH]; intros a; cbn [push_flags rev app]; [repeat split; auto|].
  destruct (IH (push_flag o a)) as (H1 & H2 & H3 & H4 & H5 & H5g & H6).
  rewrite H1, H2, H3, H4, H5, H5g. cbn [push_flag a_verbose a_color a_no_color a_words a_set a_blk a_given].
  rewrite <- app_assoc. repeat split; auto.
  intros Hb. apply H6. cbn [push_flag a_blk]. rewrite Hb. reflexivity.
Qed.

Lemma push_words_fields ws : forall a,
  a_verbose (push_words ws a) = a_verbose a /\ a_color (push_words ws a) = a_color a /\
  a_no_color (push_words ws a) = a_no_color a /\ a_words (push_words ws a) = a_words a ++ ws /\
  a_set (push_words ws a) = a_set a /\ a_given (push_words ws a) = a_given a.
Proof.
  induction ws as [|w ws IH]; intros a; cbn [push_words]; [rewrite app_nil_r; repeat split; auto|].
  destruct (IH (push_word w a)) as (H1 & H2 & H3 & H4 & H5 & H6).
  rewrite H1, H2, H3, H4, H5, H6. cbn [push_word a_verbose a_color a_no_color a_words a_set a_given].
  rewrite <- app_assoc. repeat split; auto.
Qed.

Lemma forallb_mem_Forall F os : forallb (fun o => mem o F) os = true <-> Forall (fun o => In o F) os.
Proof.
  rewrite forallb_forall, Forall_forall. split; intros H x Hx; [apply mem_In|apply mem_In]; auto.
Qed.

Lemma mem_ext x l l' : (In x l <-> In x l') -> mem x l = mem x l'.
Proof.
  intros H. destruct (mem x l) eqn:E1; destruct (mem x l') eqn:E2; try reflexivity; exfalso.
  - apply mem_In in E1. apply mem_false in E2. tauto.
  - apply mem_In in E2. apply mem_false in E1. tauto.
Qed.

(* the vector  flags os1, words ws, flags os2  from the initial state *)
Lemma mini_go_vector nl F P V os1 ws os2 :
  Forall (user_flag nl) (os1 ++ os2) -> Forall (fun o => ~ In o V) (os1 ++ os2) -> Forall word ws ->
  mini_go nl F P V (map flag_str os1 ++ ws ++ map flag_str os2) acc0 =
  if forallb (fun o => mem o F) (os1 ++ os2) && (is_nil ws || negb (is_nil P))
  then Some (push_flags os2 (push_words ws (push_flags os1 acc0)))
  else None.
Proof.
  intros HF HV HW. apply Forall_app in HF as (H1 & H2). apply Forall_app in HV as (V1 & V2).
  rewrite (mini_go_flags nl F P V os1 _ acc0 H1 V1). rewrite forallb_app.
  destruct (forallb (fun o => mem o F) os1); cbn [andb]; [|reflexivity].
  destruct (push_flags_fields os1 acc0) as (_ & _ & _ & _ & _ & _ & B1).
  specialize (B1 eq_refl).
  destruct ws as [|w ws].
  - cbn [app is_nil orb push_words]. rewrite andb_true_r.
    rewrite <- (app_nil_r (map flag_str os2)). rewrite (mini_go_flags nl F P V os2 [] _ H2 V2).
    destruct (forallb (fun o => mem o F) os2); reflexivity.
  - cbn [is_nil orb]. destruct P as [|p0 ps].
    + cbn [is_nil negb]. rewrite andb_false_r.
      inversion HW as [|x l Hw _]. subst. cbn [app].
      rewrite (mini_go_word_step nl F [] V w _ _ Hw). rewrite B1. reflexivity.
    + cbn [is_nil negb]. rewrite andb_true_r.
      rewrite (mini_go_words nl F (p0 :: ps) V (w :: ws) _ _ HW); [|discriminate|rewrite B1; discriminate].
      rewrite <- (app_nil_r (map flag_str os2)). rewrite (mini_go_flags nl F (p0 :: ps) V os2 [] _ H2 V2).
      destruct (forallb (fun o => mem o F) os2); reflexivity.
Qed.

(* '--o=VALUE' *)
Lemma split_first_at sep a b : ~ In sep a -> split_first sep (a ++ sep :: b) = Some (a, b).
Proof.
  induction a as [|c r IH]; intros H; cbn [app split_first].
  - rewrite Z.eqb_refl. reflexivity.
  - destruct (Z.eqb_spec c sep) as [->|N]; [exfalso; apply H; left; reflexivity|].
    rewrite IH; [reflexivity|]. intros Hi. apply H. right. exact Hi.
Qed.

Lemma app_sep_unique (c : Z) a b x y : ~ In c a -> ~ In c b -> a ++ c :: x = b ++ c :: y -> a = b.
Proof.
  revert b. induction a as [|h a IH]; intros b Ha Hb E; destruct b as [|h' b]; cbn [app] in E.
  - reflexivity.
  - inversion E. subst. exfalso. apply Hb. left. reflexivity.
  - inversion E. subst. exfalso. apply Ha. left. reflexivity.
  - inversion E. subst. f_equal. apply (IH b); [intros H; apply Ha; right; exact H|intros H; apply Hb; right; exact H|assumption].
Qed.

Lemma std_consts_no_eq :
  (exists w, opt_color = ch_dash :: ch_dash :: w /\ ~ In ch_eq w) /\
  ~ In ch_eq opt_no_color /\ ~ In ch_eq opt_verbose_long.
Proof.
  split; [eexists; split; [reflexivity|]|split];
    vm_compute; intros H; repeat (destruct H as [H|H]; [discriminate|]); exact H.
Qed.

Lemma str_eqb_has_eq x c : In ch_eq x -> ~ In ch_eq c -> str_eqb x c = false.
Proof. intros H1 H2. apply str_eqb_neq. intros ->. contradiction. Qed.

Lemma mini_go_eq_step nl F P V o v r a :
  user_flag nl o -> no_eq_names F V ->
  mini_go nl F P V ((flag_str o ++ ch_eq :: v) :: r) a =
  if mem o V then mini_go nl F P V r (give o v (close_blk a)) else None.
Proof.
  intros (Hstd & Heq) NE.
  destruct (std_strings_have nl) as (I1 & I2 & I3).
  pose proof (mem_false_each _ _ Hstd) as E.
  destruct std_consts_no_eq as ((w & Ew & Nw) & N2 & N3).
  set (x := flag_str o ++ ch_eq :: v).
  assert (In ch_eq x) as Hx by (unfold x; apply in_or_app; right; left; reflexivity).
  assert (x = ch_dash :: ch_dash :: (o ++ ch_eq :: v)) as Ex by reflexivity.
  assert (str_eqb x opt_color = false) as C1.
  { apply str_eqb_has_eq; [exact Hx|]. rewrite Ew. intros [H|[H|H]]; [discriminate H|discriminate H|contradiction]. }
  assert (strip_prefix (opt_color ++ [ch_eq]) x = None) as Hsp.
  { destruct (strip_prefix (opt_color ++ [ch_eq]) x) as [r0|] eqn:Es; [|reflexivity].
    exfalso. apply strip_prefix_some in Es. rewrite Ex, Ew in Es. cbn [app] in Es. inversion Es as [Eo].
    rewrite <- app_assoc in Eo. cbn [app] in Eo.
    apply (app_sep_unique ch_eq o w v r0 Heq Nw) in Eo. subst w.
    pose proof (E _ I1) as X. rewrite Ew in X. unfold flag_str in X. rewrite str_eqb_refl in X. discriminate. }
  cbn [mini_go]. fold x. replace (starts_dash x) with true by reflexivity. cbn [negb].
  rewrite C1, Hsp, (str_eqb_has_eq x _ Hx N2).
  assert ((negb nl && str_eqb x opt_verbose_long) = false) as ->.
  { rewrite (str_eqb_has_eq x _ Hx N3). apply andb_false_r. }
  assert ((if nl then None else short_verbose_count x) = None) as ->.
  { destruct nl; [reflexivity|]. rewrite Ex. unfold short_verbose_count.
    replace (ch_dash =? ch_dash) with true by reflexivity. cbn [andb forallb].
    rewrite verbose_letter_not_dash. reflexivity. }
  replace (strip_prefix [ch_dash; ch_dash] x) with (Some (o ++ ch_eq :: v))
    by (symmetry; rewrite Ex; apply (strip_prefix_app [ch_dash; ch_dash] (o ++ ch_eq :: v))).
  assert (In ch_eq (o ++ ch_eq :: v)) as Hov by (apply in_or_app; right; left; reflexivity).
  assert (mem (o ++ ch_eq :: v) F = false) as ->.
  { apply mem_false. intros H. exact (NE _ (or_introl H) Hov). }
  assert (mem (o ++ ch_eq :: v) V = false) as ->.
  { apply mem_false. intros H. exact (NE _ (or_intror H) Hov). }
  rewrite (split_first_at ch_eq o v Heq). reflexivity.
Qed.

Lemma lookup_single (x o v : str) : lookup x [(o, v)] = if str_eqb x o then Some v else None.
Proof. reflexivity. Qed.

Lemma mini_sub_spec_vec : sub_spec_vec mini_sub.
Proof.
  constructor.
  - intros nl F P V os1 ws os2 HF HV HW. rewrite mini_sub_some. rewrite (mini_go_vector nl F P V os1 ws os2 HF HV HW).
    destruct (forallb (fun o => mem o F) (os1 ++ os2)) eqn:E1; cbn [andb].
    + apply forallb_mem_Forall in E1.
      destruct ws as [|w ws]; cbn [is_nil orb].
      * split; [intros _; split; auto|discriminate].
      * destruct P as [|p0 ps]; cbn [is_nil negb].
        -- split; [congruence|]. intros (_ & [H|H]); [discriminate|congruence].
        -- split; [intros _; split; [exact E1|right; discriminate]|discriminate].
    + split; [congruence|]. intros (H & _). apply forallb_mem_Forall in H. congruence.
  - intros nl F P V os1 ws os2 s HF HV HW. unfold mini_sub. fold acc0.
    rewrite (mini_go_vector nl F P V os1 ws os2 HF HV HW).
    destruct (forallb (fun o => mem o F) (os1 ++ os2) && (is_nil ws || negb (is_nil P))); [|discriminate].
    intros [= <-]. cbn [sn_flags sn_poss sn_vals sn_verbose sn_color sn_no_color].
    destruct (push_flags_fields os2 (push_words ws (push_flags os1 acc0))) as (A1 & A2 & A3 & A4 & A5 & A6 & _).
    destruct (push_words_fields ws (push_flags os1 acc0)) as (B1 & B2 & B3 & B4 & B5 & B6).
    destruct (push_flags_fields os1 acc0) as (C1 & C2 & C3 & C4 & C5 & C6 & _).
    rewrite A1, A2, A3, A4, A5, A6, B1, B2, B3, B4, B5, B6, C1, C2, C3, C4, C5, C6.
    cbn [acc0 a_verbose a_color a_no_color a_words a_set a_given app]. rewrite app_nil_r.
    split; [|repeat split; reflexivity].
    apply map_ext. intros o. f_equal. apply mem_ext.
    rewrite !in_app_iff, <- !in_rev. tauto.
  - intros nl F V w r Hw. unfold mini_sub. fold acc0. rewrite (mini_go_word_step nl F [] V w r acc0 Hw).
    reflexivity.
  - intros nl F P V o v U HF Hv. unfold word in Hv.
    assert (mini_go nl F P V [flag_str o; v] acc0 = if mem o V then Some (give o v (close_blk acc0)) else None) as K.
    { rewrite (mini_go_opt_step nl F P V o [v] acc0 U). apply mem_false in HF. rewrite HF, Hv.
      destruct (mem o V); reflexivity. }
    split.
    + rewrite mini_sub_some, K. destruct (mem o V) eqn:Em.
      * split; [intros _; apply mem_In; exact Em|discriminate].
      * split; [congruence|]. intros H. apply mem_In in H. congruence.
    + intros s. unfold mini_sub. fold acc0. rewrite K. destruct (mem o V); [|discriminate].
      intros [= <-]. reflexivity.
  - intros nl F P V o v U NE.
    assert (mini_go nl F P V [flag_str o ++ ch_eq :: v] acc0 =
            if mem o V then Some (give o v (close_blk acc0)) else None) as K.
    { rewrite (mini_go_eq_step nl F P V o v [] acc0 U NE). destruct (mem o V); reflexivity. }
    split.
    + rewrite mini_sub_some, K. destruct (mem o V) eqn:Em.
      * split; [intros _; apply mem_In; exact Em|discriminate].
      * split; [congruence|]. intros H. apply mem_In in H. congruence.
    + intros s. unfold mini_sub. fold acc0. rewrite K. destruct (mem o V); [|discriminate].
      intros [= <-]. reflexivity.
Qed.

(* ------------------------------------------------------------------ *)
(* what the parser of a command holds after the configuration            *)

Lemma configured_command_full ds nl ops st' d :
  configured ds nl ops st' -> In d ds -> d_internal d = false ->
  exists pa, lookup (d_name d) st' = Some pa /\ p_internal pa = false /\
    (forall k o, In o (p_list k pa) <-> exists t, In (t, k, o) ops /\ in_scope ds t (d_name d)).
Proof.
  intros C Hd Hi.
  destruct (configured_command ds nl ops st' d C Hd Hi) as (pa & L & Pi & _).
  exists pa. split; [exact L|]. split; [exact Pi|].
  destruct C as (st & B & OK & A).
  destruct (apply_ops_ok ds st nl ops B OK) as (st2 & A2 & I).
  rewrite A in A2. inversion A2. subst st2. clear A2.
  apply lookup_some_in in L.
  destruct (Forall2_in_r _ _ _ _ I L) as (d' & _ & (E1 & _ & _ & _ & _ & E6)).
  cbn [fst snd] in *. rewrite <- E1 in E6. exact E6.
Qed.

(* the names of the add_argument calls are distinct: a name is of one kind *)
Lemma configured_kind ds nl ops st' t k o t' k' :
  configured ds nl ops st' -> In (t, k, o) ops -> In (t', k', o) ops -> t = t' /\ k = k'.
Proof. intros (st & _ & (ND & _) & _). apply op_name_inj. exact ND. Qed.

Lemma configured_user_flag ds nl ops st' t k o :
  configured ds nl ops st' -> In (t, k, o) ops -> is_optional k = true ->
  mem (flag_str o) (std_option_strings nl) = false.
Proof.
  intros (st & _ & (_ & F) & _) Ho Hk. rewrite Forall_forall in F.
  destruct (F _ Ho) as (_ & H). apply H. exact Hk.
Qed.

Definition vec_tokens (tos : list (target * str)) : list str := map (fun x => flag_str (snd x)) tos.

Lemma vec_tokens_map tos : vec_tokens tos = map flag_str (map snd tos).
Proof. unfold vec_tokens. rewrite map_map. reflexivity. Qed.

(* the flags of a vector: each was added by an add_argument call of [ops] *)
Definition added_flags (ops : list op) (tos : list (target * str)) : Prop :=
  Forall (fun x => In (fst x, KFlag, snd x) ops /\ ~ In ch_eq (snd x)) tos.

Lemma added_user_flags ds nl ops st' tos :
  configured ds nl ops st' -> added_flags ops tos -> Forall (user_flag nl) (map snd tos).
Proof.
  intros C H. apply Forall_map. eapply Forall_impl; [|exact H].
  intros x (Hx & He). split; [eapply configured_user_flag; [eassumption|eassumption|reflexivity]|exact He].
Qed.

(* ... and none of them is a value option of a command's parser *)
Lemma added_not_vals ds nl ops st' d pa tos :
  configured ds nl ops st' ->
  (forall k o, In o (p_list k pa) <-> exists t, In (t, k, o) ops /\ in_scope ds t (d_name d)) ->
  added_flags ops tos -> Forall (fun o => ~ In o (p_vals pa)) (map snd tos).
Proof.
  intros C Fl H. apply Forall_map. eapply Forall_impl; [|exact H].
  intros x (Hx & _) Hv. apply (Fl KVal) in Hv. destruct Hv as (t' & H1 & _).
  destruct (configured_kind ds nl ops st' _ _ _ _ _ C Hx H1) as (_ & [=]).
Qed.

(* option scope on vectors: "d --f1 .. w1 .. wm --g1 .." is accepted iff every
   flag is in scope of d and, when there are words, some positional is *)
Lemma option_scope_vec_l sub : sub_spec_vec sub ->
  forall ds c0 ops st' dflt d,
  configured ds (c_no_log c0) ops st' ->
  In d ds -> d_internal d = false -> starts_dash (d_name d) = false ->
  forall tos1 ws tos2, added_flags ops (tos1 ++ tos2) -> Forall word ws ->
  (accepted (parse_args sub c0 st' dflt (d_name d :: vec_tokens tos1 ++ ws ++ vec_tokens tos2)) <->
   Forall (fun x => in_scope ds (fst x) (d_name d)) (tos1 ++ tos2) /\
   (ws = [] \/ exists t p, In (t, KPos, p) ops /\ in_scope ds t (d_name d))).
Proof.
  intros SV ds c0 ops st' dflt d C Hd Hi Hdash tos1 ws tos2 HA HW.
  destruct (configured_command_full ds _ ops st' d C Hd Hi) as (pa & L & Pi & Fl).
  rewrite (accepted_command sub c0 st' dflt _ _ pa Hdash L Pi).
  pose proof (added_user_flags ds _ ops st' _ C HA) as UF. rewrite map_app in UF.
  pose proof (added_not_vals ds _ ops st' d pa _ C Fl HA) as NV. rewrite map_app in NV.
  rewrite !vec_tokens_map. rewrite (sv_accept sub SV _ (p_flags pa) (p_poss pa) (p_vals pa) _ ws _ UF NV HW).
  rewrite <- map_app, Forall_map.
  assert (Forall (fun x => In (snd x) (p_flags pa)) (tos1 ++ tos2) <->
          Forall (fun x => in_scope ds (fst x) (d_name d)) (tos1 ++ tos2)) as ->.
  { unfold added_flags in HA. rewrite !Forall_forall in *. split; intros H x Hx; destruct (HA x Hx) as (Ho & _).
    - specialize (H x Hx). apply (Fl KFlag) in H. destruct H as (t' & H1 & H2).
      destruct (configured_kind ds _ ops st' _ _ _ _ _ C Ho H1) as (-> & _). exact H2.
    - apply (Fl KFlag). exists (fst x). auto. }
  assert (p_poss pa <> [] <-> exists t p, In (t, KPos, p) ops /\ in_scope ds t (d_name d)) as ->; [|tauto].
  split.
  - intros H. destruct (p_poss pa) as [|p0 ps] eqn:E; [congruence|].
    destruct (proj1 (Fl KPos p0)) as (t & H1 & H2); [cbn [p_list]; rewrite E; left; reflexivity|]. eauto.
  - intros (t & p & H1 & H2) E. assert (In p (p_poss pa)) as H by (apply (Fl KPos); eauto).
    rewrite E in H. destruct H.
Qed.

(* ... and the namespace it yields *)
Lemma vec_namespace_l sub : sub_spec_vec sub ->
  forall ds c0 ops st' dflt d,
  configured ds (c_no_log c0) ops st' ->
  In d ds -> d_internal d = false -> starts_dash (d_name d) = false ->
  forall tos1 ws tos2, added_flags ops (tos1 ++ tos2) -> Forall word ws ->
  forall n, parse_args sub c0 st' dflt (d_name d :: vec_tokens tos1 ++ ws ++ vec_tokens tos2) = Ret n ->
  ns_command n = d_name d /\
  (forall o b, In (o, b) (ns_flags n) <->
     (exists t, In (t, KFlag, o) ops /\ in_scope ds t (d_name d)) /\ b = mem o (map snd (tos1 ++ tos2))) /\
  (ws <> [] -> exists p0 rest, ns_poss n = (p0, ws) :: rest /\
     (exists t, In (t, KPos, p0) ops /\ in_scope ds t (d_name d)) /\ Forall (fun e => snd e = []) rest) /\
  (forall o x, In (o, x) (ns_vals n) <->
     (exists t, In (t, KVal, o) ops /\ in_scope ds t (d_name d)) /\ x = None) /\
  ns_verbose n = (if c_no_log c0 then None else Some 0%nat) /\ ns_color n = CStr color_default.
Proof.
  intros SV ds c0 ops st' dflt d C Hd Hi Hdash tos1 ws tos2 HA HW n.
  destruct (configured_command_full ds _ ops st' d C Hd Hi) as (pa & L & Pi & Fl).
  rewrite (parse_args_command sub c0 st' dflt _ _ pa Hdash L Pi).
  pose proof (added_user_flags ds _ ops st' _ C HA) as UF. rewrite map_app in UF.
  pose proof (added_not_vals ds _ ops st' d pa _ C Fl HA) as NV. rewrite map_app in NV.
  rewrite !vec_tokens_map.
  destruct (sub (c_no_log c0) (p_flags pa) (p_poss pa) (p_vals pa) _) as [s|] eqn:E; [|discriminate].
  intros [= <-].
  destruct (sv_result sub SV _ _ _ _ _ ws _ s UF NV HW E) as (R1 & R2 & R2v & R3 & R4 & R5).
  assert (sub (c_no_log c0) (p_flags pa) (p_poss pa) (p_vals pa)
              (map flag_str (map snd tos1) ++ ws ++ map flag_str (map snd tos2)) <> None) as NN by congruence.
  apply (sv_accept sub SV _ _ _ _ _ ws _ UF NV HW) in NN. destruct NN as (_ & NP).
  cbn [finish ns_command ns_flags ns_poss ns_vals ns_verbose ns_color]. rewrite R1, R2, R2v, R3, R4, R5.
  split; [reflexivity|]. split; [|split; [|split; [|split; reflexivity]]].
  - intros o b. rewrite in_map_iff, <- map_app. split.
    + intros (o' & [= <- <-] & Ho). split; [apply (Fl KFlag); exact Ho|reflexivity].
    + intros (Ho & ->). exists o. split; [reflexivity|apply (Fl KFlag); exact Ho].
  - intros Hws. destruct NP as [NP|NP]; [contradiction|].
    destruct (p_poss pa) as [|p0 ps] eqn:EP; [congruence|]. cbn [poss_result].
    exists p0, (map (fun p => (p, [])) ps). split; [reflexivity|]. split.
    + apply (Fl KPos). cbn [p_list]. rewrite EP. left. reflexivity.
    + apply Forall_map. apply Forall_forall. reflexivity.
  - intros o x. rewrite in_map_iff. split.
    + intros (o' & [= <- <-] & Ho). split; [apply (Fl KVal); exact Ho|reflexivity].
    + intros (Ho & ->). exists o. split; [reflexivity|apply (Fl KVal); exact Ho].
Qed.

(* ------------------------------------------------------------------ *)
(* default command                                                      *)

Lemma help_choices_std nl a : In a help_choices -> In a (std_option_strings nl).
Proof.
  unfold help_choices. cbn [In]. intros H.
  repeat (destruct H as [<-|H]; [destruct nl; vm_compute; auto 10|]). destruct H.
Qed.

Lemma word_not_help w : word w -> ~ In w help_choices.
Proof.
  intros Hw Hi. pose proof help_choices_dashed as D. rewrite forallb_forall in D.
  unfold word in Hw. rewrite (D _ Hi) in Hw. discriminate.
Qed.

(* the first token of a vector of added flags and words is not a help option *)
Lemma vec_head_not_help ds nl ops st' tos1 ws tos2 a :
  configured ds nl ops st' -> added_flags ops (tos1 ++ tos2) -> Forall word ws ->
  hd_error (vec_tokens tos1 ++ ws ++ vec_tokens tos2) = Some a -> ~ In a help_choices.
Proof.
  intros C HA HW Hh Hi.
  pose proof (added_user_flags ds nl ops st' _ C HA) as UF. rewrite map_app in UF.
  apply Forall_app in UF as (U1 & U2).
  assert (forall os, Forall (user_flag nl) os -> forall x, hd_error (map flag_str os) = Some x -> ~ In x help_choices) as K.
  { intros os U x Hx Hin. destruct os as [|o os]; [discriminate|]. cbn in Hx. inversion Hx. subst x.
    inversion U as [|y l (Hy & _) _]. subst. apply (help_choices_std nl) in Hin. apply mem_In in Hin. congruence. }
  rewrite !vec_tokens_map in Hh.
  destruct (map flag_str (map snd tos1)) as [|x r] eqn:E1.
  - cbn [app] in Hh. destruct ws as [|w ws'].
    + cbn [app] in Hh. exact (K _ U2 a Hh Hi).
    + cbn in Hh. inversion Hh. subst a. inversion HW. subst. exact (word_not_help w H1 Hi).
  - cbn in Hh. inversion Hh. subst a. apply (K _ U1 x); [rewrite E1; reflexivity|exact Hi].
Qed.

Lemma default_command_vec_l sub : sub_spec_vec sub ->
  forall ds c0 ops st' d,
  configured ds (c_no_log c0) ops st' ->
  In d ds -> d_internal d = false -> starts_dash (d_name d) = false ->
  forall tos1 ws tos2, added_flags ops (tos1 ++ tos2) -> Forall word ws ->
  ~ (vec_tokens tos1 ++ ws ++ vec_tokens tos2 = [] /\ c_help_if_no_args c0 = true) ->
  (forall a, hd_error (vec_tokens tos1 ++ ws ++ vec_tokens tos2) = Some a -> ~ In a (keys st')) ->
  (accepted (parse_args sub c0 st' (Some (d_name d)) (vec_tokens tos1 ++ ws ++ vec_tokens tos2)) <->
   Forall (fun x => in_scope ds (fst x) (d_name d)) (tos1 ++ tos2) /\
   (ws = [] \/ exists t p, In (t, KPos, p) ops /\ in_scope ds t (d_name d))) /\
  forall n, parse_args sub c0 st' (Some (d_name d)) (vec_tokens tos1 ++ ws ++ vec_tokens tos2) = Ret n ->
    ns_command n = d_name d /\
    (forall o b, In (o, b) (ns_flags n) <->
       (exists t, In (t, KFlag, o) ops /\ in_scope ds t (d_name d)) /\ b = mem o (map snd (tos1 ++ tos2))) /\
    (ws <> [] -> exists p0 rest, ns_poss n = (p0, ws) :: rest /\
       (exists t, In (t, KPos, p0) ops /\ in_scope ds t (d_name d)) /\ Forall (fun e => snd e = []) rest).
Proof.
  intros SV ds c0 ops st' d C Hd Hi Hdash tos1 ws tos2 HA HW Hne Hk.
  rewrite (default_command_guarded_l sub c0 st' (d_name d) _ Hne).
  - split.
    + apply option_scope_vec_l; assumption.
    + intros n Hn.
      destruct (vec_namespace_l sub SV ds c0 ops st' _ d C Hd Hi Hdash tos1 ws tos2 HA HW n Hn) as (N1 & N2 & N3 & _).
      auto.
  - intros a Ha. split; [|apply Hk; exact Ha].
    eapply vec_head_not_help; eassumption.
Qed.

Lemma lookup_not_command a (st : state) pa :
  lookup a st = Some pa -> ~ In a (command_names st) -> p_internal pa = true.
Proof.
  intros L H. destruct (p_internal pa) eqn:E; [reflexivity|]. exfalso. apply H.
  apply lookup_some_in in L. unfold command_names, keys.
  change a with (fst (a, pa)). apply in_map. apply filter_In. split; [exact L|]. cbn [snd]. rewrite E. reflexivity.
Qed.

(* the property's wording holds for every default command WITHOUT a positional:
   a first argument that names an internal option set is rejected either way *)
Lemma default_no_positional_l sub : sub_spec_vec sub ->
  forall c0 (st : state) d pa argv,
  lookup d st = Some pa -> p_internal pa = false -> p_poss pa = [] -> starts_dash d = false ->
  ~ (argv = [] /\ c_help_if_no_args c0 = true) ->
  (forall a, hd_error argv = Some a ->
     ~ In a help_choices /\ ~ In a (command_names st) /\ (In a (keys st) -> word a)) ->
  parse_args sub c0 st (Some d) argv = parse_args sub c0 st (Some d) (d :: argv).
Proof.
  intros SV c0 st d pa argv L Pi PP Hd Hne G.
  destruct argv as [|a r].
  - apply default_command_guarded_l; [exact Hne|]. intros a [=].
  - destruct (G a eq_refl) as (G1 & G2 & G3).
    destruct (mem a (keys st)) eqn:Ek.
    + apply mem_In in Ek. specialize (G3 Ek). unfold word in G3.
      destruct (lookup_in_some _ _ Ek) as (pi & Li).
      pose proof (lookup_not_command a st pi Li G2) as Ii.
      rewrite (parse_args_command sub c0 st (Some d) d (a :: r) pa Hd L Pi).
      rewrite PP, (sv_word_no_pos sub SV _ _ _ a r G3).
      unfold parse_args. apply mem_In in Ek. rewrite Ek, orb_true_r.
      unfold main_parse. rewrite G3, Li, Ii. reflexivity.
    + apply mem_false in Ek. apply default_command_guarded_l; [exact Hne|].
      intros a' [= <-]. auto.
Qed.

(* ... and fails for every default command WITH a positional, on the vector
   that consists of the name of an internal option set *)
Lemma default_internal_name_disagrees_l sub : sub_spec_vec sub ->
  forall c0 (st : state) d pa s ps,
  lookup d st = Some pa -> p_internal pa = false -> p_poss pa <> [] -> starts_dash d = false ->
  lookup s st = Some ps -> p_internal ps = true -> word s ->
  parse_args sub c0 st (Some d) [s] = Raise SystemExit /\
  accepted (parse_args sub c0 st (Some d) [d; s]).
Proof.
  intros SV c0 st d pa s ps L Pi PP Hd Ls Is Ws. split.
  - unfold parse_args.
    assert (mem s (keys st) = true) as ->.
    { apply mem_In. apply lookup_some_in in Ls. apply (in_map fst) in Ls. exact Ls. }
    rewrite orb_true_r. unfold main_parse. unfold word in Ws. rewrite Ws, Ls, Is. reflexivity.
  - apply (accepted_command sub c0 st (Some d) d [s] pa Hd L Pi).
    pose proof (sv_accept sub SV (c_no_log c0) (p_flags pa) (p_poss pa) (p_vals pa) [] [s] []) as A.
    cbn [map app] in A. apply A; [constructor|constructor|repeat constructor; exact Ws|].
    split; [constructor|right; exact PP].
Qed.

(* ------------------------------------------------------------------ *)
(* options that take a value                                            *)

(* no name of an add_argument call contains '=' *)
Definition plain_names (ops : list op) : Prop := Forall (fun x => ~ In ch_eq (op_name x)) ops.

Lemma value_option_scope_l sub : sub_spec_vec sub ->
  forall ds c0 ops st' dflt d,
  configured ds (c_no_log c0) ops st' ->
  In d ds -> d_internal d = false -> starts_dash (d_name d) = false ->
  forall t o v, In (t, KVal, o) ops -> ~ In ch_eq o -> word v ->
  (accepted (parse_args sub c0 st' dflt [d_name d; flag_str o; v]) <-> in_scope ds t (d_name d)) /\
  (forall n, parse_args sub c0 st' dflt [d_name d; flag_str o; v] = Ret n ->
     ns_command n = d_name d /\
     forall o' x, In (o', x) (ns_vals n) <->
       (exists t', In (t', KVal, o') ops /\ in_scope ds t' (d_name d)) /\ x = (if str_eqb o' o then Some v else None)) /\
  (plain_names ops ->
   (accepted (parse_args sub c0 st' dflt [d_name d; flag_str o ++ ch_eq :: v]) <-> in_scope ds t (d_name d)) /\
   (forall n, parse_args sub c0 st' dflt [d_name d; flag_str o ++ ch_eq :: v] = Ret n ->
      ns_command n = d_name d /\
      forall o' x, In (o', x) (ns_vals n) <->
        (exists t', In (t', KVal, o') ops /\ in_scope ds t' (d_name d)) /\ x = (if str_eqb o' o then Some v else None))).
Proof.
  intros SV ds c0 ops st' dflt d C Hd Hi Hdash t o v Ho Heq Hv.
  destruct (configured_command_full ds _ ops st' d C Hd Hi) as (pa & L & Pi & Fl).
  assert (user_flag (c_no_log c0) o) as U.
  { split; [eapply configured_user_flag; [exact C|exact Ho|reflexivity]|exact Heq]. }
  assert (~ In o (p_flags pa)) as NF.
  { intros H. apply (Fl KFlag) in H. destruct H as (t' & H1 & _).
    destruct (configured_kind ds _ ops st' _ _ _ _ _ C Ho H1) as (_ & [=]). }
  assert (In o (p_vals pa) <-> in_scope ds t (d_name d)) as SC.
  { rewrite (Fl KVal o). split.
    - intros (t' & H1 & H2). destruct (configured_kind ds _ ops st' _ _ _ _ _ C Ho H1) as (-> & _). exact H2.
    - intros S. eauto. }
  assert (forall V' (f : str -> option str) o' x,
            V' = p_vals pa ->
            (In (o', x) (map (fun y => (y, f y)) V') <->
             (exists t', In (t', KVal, o') ops /\ in_scope ds t' (d_name d)) /\ x = f o')) as NSV.
  { intros V' f o' x ->. rewrite in_map_iff. split.
    - intros (y & [= <- <-] & Hy). split; [apply (Fl KVal); exact Hy|reflexivity].
    - intros (Hy & ->). exists o'. split; [reflexivity|apply (Fl KVal); exact Hy]. }
  split; [|split].
  - rewrite (accepted_command sub c0 st' dflt _ _ pa Hdash L Pi).
    rewrite (proj1 (sv_value sub SV _ (p_flags pa) (p_poss pa) (p_vals pa) o v U NF Hv)). exact SC.
  - intros n. rewrite (parse_args_command sub c0 st' dflt _ _ pa Hdash L Pi).
    destruct (sub (c_no_log c0) (p_flags pa) (p_poss pa) (p_vals pa) [flag_str o; v]) as [s|] eqn:E; [|discriminate].
    intros [= <-]. cbn [finish ns_command ns_vals]. split; [reflexivity|].
    rewrite (proj2 (sv_value sub SV _ _ _ _ o v U NF Hv) s E).
    intros o' x. apply (NSV _ (fun y => if str_eqb y o then Some v else None)). reflexivity.
  - intros PN.
    assert (no_eq_names (p_flags pa) (p_vals pa)) as NE.
    { intros x [H|H]; [apply (Fl KFlag) in H|apply (Fl KVal) in H]; destruct H as (t' & H1 & _);
        unfold plain_names in PN; rewrite Forall_forall in PN; exact (PN _ H1). }
    split.
    + rewrite (accepted_command sub c0 st' dflt _ _ pa Hdash L Pi).
      rewrite (proj1 (sv_value_eq sub SV _ (p_flags pa) (p_poss pa) (p_vals pa) o v U NE)). exact SC.
    + intros n. rewrite (parse_args_command sub c0 st' dflt _ _ pa Hdash L Pi).
      destruct (sub (c_no_log c0) (p_flags pa) (p_poss pa) (p_vals pa) [flag_str o ++ ch_eq :: v]) as [s|] eqn:E; [|discriminate].
      intros [= <-]. cbn [finish ns_command ns_vals]. split; [reflexivity|].
      rewrite (proj2 (sv_value_eq sub SV _ _ _ _ o v U NE) s E).
      intros o' x. apply (NSV _ (fun y => if str_eqb y o then Some v else None)). reflexivity.
Qed.
