(* C19/Props.v -- the property theorems, nothing else.
   Command options are inherited exactly along the declared command graph.

   Vocabulary (C19/Model.v, Lemmas*.v):
     decl               (name, internal?, parents) -- one entry of commands=[...]
     wf ds              names are non-empty and new, every parent is an EARLIER name
                        (hence every acyclic declaration order, diamonds included)
     anc ds p c         p is a transitive parent of c in the declared graph
     build ds           _init_multicmd_parser on structured declarations
     init_multicmd      the same on the declaration strings '!name:parent, parent'
     apply_ops nl st ops   add_argument calls; op = (TGlobal | TCmd p, KFlag | KPos, name)
     in_scope ds t c    t = TGlobal, or t = TCmd p with c = p or anc ds p c
     parse_args sub ..  ArgParser.parse_args, [sub] = argparse for one command parser
     sub_spec sub       what is assumed of argparse; mini_sub = the stand-in compared
                        with the real argparse on every run *)
From Coq Require Import ZArith List Bool.
From AK Require Import gen.C19_Consts C19.Model C19.Lemmas C19.LemmasOps C19.LemmasParse C19.LemmasDecl.
Import ListNotations.
Open Scope Z_scope.

(* the shape and literals read from ak/cli_tools.py meet what the proofs need:
   register_dependent is idempotent; the tokens exempt from default-command
   insertion are options; the appended help option is one of them *)
Theorem source_shape :
  reg_idempotent = true /\ forallb starts_dash help_choices = true /\
  mem help_appended help_choices = true /\ mem color_default color_choices = true.
Proof. exact (conj reg_idempotent_true (conj help_choices_dashed (conj help_appended_is_help color_default_is_choice))). Qed.
Print Assumptions source_shape.

(* ---- declarations -------------------------------------------------- *)

(* a declaration list is accepted iff it is well-formed: in particular no
   acyclic parent declaration (diamonds, a parent together with its own
   ancestor, repeated parents) raises ... *)
Theorem declare_never_fails : forall ds, wf ds <-> exists st, build ds = Ret st.
Proof. exact declare_never_fails_l. Qed.
Print Assumptions declare_never_fails.

(* ... and the only exception is AssertionError, for ill-formed lists *)
Theorem declare_fails_only_by_assertion : forall ds x,
  build ds = Raise x -> x = AssertionError /\ ~ wf ds.
Proof. exact build_raise. Qed.
Print Assumptions declare_fails_only_by_assertion.

(* the same for the constructor on declaration strings *)
Theorem constructor_never_fails : forall cmds dflt,
  cmds <> [] -> wf (map parse_decl cmds) ->
  exists st d, init_multicmd cmds dflt = Ret (st, d) /\ build (map parse_decl cmds) = Ret st.
Proof. exact init_ok_l. Qed.
Print Assumptions constructor_never_fails.

(* the declaration syntax: '!name:parent,parent' is read back as written (names
   without ':' and not starting with '!', parents without ',' and without
   surrounding white space, no repeated parent), so every well-formed structured
   declaration list can be written down and is accepted by the constructor *)
Theorem declaration_syntax : forall d, plain_decl d -> parse_decl (render d) = d.
Proof. exact parse_decl_render_l. Qed.
Print Assumptions declaration_syntax.

Theorem constructor_accepts_rendered : forall ds dflt,
  ds <> [] -> Forall plain_decl ds -> wf ds ->
  exists st d, init_multicmd (map render ds) dflt = Ret (st, d) /\ build ds = Ret st.
Proof. exact init_rendered_l. Qed.
Print Assumptions constructor_accepts_rendered.

Theorem constructor_fails_only_by_assertion : forall cmds dflt x,
  init_multicmd cmds dflt = Raise x -> x = AssertionError /\ (cmds = [] \/ ~ wf (map parse_decl cmds)).
Proof. exact init_raise_l. Qed.
Print Assumptions constructor_fails_only_by_assertion.

(* after the declarations, the dependents of every parser are exactly its
   transitive descendants, each registered once *)
Theorem dependents_are_descendants : forall ds st,
  build ds = Ret st ->
  keys st = names ds /\
  forall p pa, In (p, pa) st ->
    NoDup (dep_names pa) /\ forall q, In q (dep_names pa) <-> anc ds p q.
Proof. exact dependents_are_descendants_l. Qed.
Print Assumptions dependents_are_descendants.

(* ---- options -------------------------------------------------------- *)

(* add_argument calls with distinct names (flags: not a standard option
   string) on declared parsers or on the ArgParser never raise, and afterwards
   the parser of c holds the option o iff the call that added o is in scope of c *)
Theorem option_scope_state : forall ds st nl ops,
  build ds = Ret st -> ops_ok ds nl ops ->
  exists st', apply_ops nl st ops = Ret st' /\ keys st' = names ds /\
    forall c pa, In (c, pa) st' ->
      (exists d, In d ds /\ d_name d = c /\ p_internal pa = d_internal d) /\
      forall t k o, In (t, k, o) ops ->
        (In o (match k with KFlag => p_flags pa | KPos => p_poss pa end) <-> in_scope ds t c).
Proof. exact option_scope_state_l. Qed.
Print Assumptions option_scope_state.

(* observable form: for every argparse meeting sub_spec, every command d and
   every added flag o, "d --o" is accepted iff o was added to the ArgParser
   itself, to d, or to a transitive parent of d -- and rejected otherwise *)
Theorem option_scope : forall sub, sub_spec sub ->
  forall ds c0 ops st' dflt d,
  configured ds (c_no_log c0) ops st' ->
  In d ds -> d_internal d = false -> starts_dash (d_name d) = false ->
  forall t o, In (t, KFlag, o) ops -> ~ In ch_eq o ->
  (accepted (parse_args sub c0 st' dflt [d_name d; flag_str o]) <->
   (t = TGlobal \/ t = TCmd (d_name d) \/ exists p, t = TCmd p /\ anc ds p (d_name d))).
Proof.
  intros sub SS ds c0 ops st' dflt d C Hd Hi Hdash t o Ho Heq.
  rewrite (option_scope_l sub SS ds c0 ops st' dflt d C Hd Hi Hdash t o Ho Heq).
  destruct t as [|p]; cbn [in_scope].
  - split; auto.
  - split.
    + intros [->|A]; [auto|]. right. right. exists p. auto.
    + intros [H|[H|(q & H & A)]]; [discriminate| |]; inversion H; subst; auto.
Qed.
Print Assumptions option_scope.

(* the standard colour and verbosity options are accepted by every command
   (verbosity unless the ArgParser was created with _no_log) *)
Theorem std_options_everywhere : forall sub, sub_spec sub ->
  forall ds c0 ops st' dflt d,
  configured ds (c_no_log c0) ops st' ->
  In d ds -> d_internal d = false -> starts_dash (d_name d) = false ->
  accepted (parse_args sub c0 st' dflt [d_name d]) /\
  accepted (parse_args sub c0 st' dflt [d_name d; opt_color]) /\
  accepted (parse_args sub c0 st' dflt [d_name d; opt_no_color]) /\
  (forall v, In v color_choices -> accepted (parse_args sub c0 st' dflt [d_name d; opt_color ++ ch_eq :: v])) /\
  (c_no_log c0 = false ->
   accepted (parse_args sub c0 st' dflt [d_name d; opt_verbose_short]) /\
   accepted (parse_args sub c0 st' dflt [d_name d; opt_verbose_long])).
Proof. exact std_options_l. Qed.
Print Assumptions std_options_everywhere.

(* the hypotheses about argparse are satisfiable: the executable stand-in that
   the correspondence check compares with the real argparse meets them *)
Theorem argparse_model_meets_spec : sub_spec mini_sub.
Proof. exact mini_sub_spec. Qed.
Print Assumptions argparse_model_meets_spec.

(* ---- default command ------------------------------------------------- *)

(* without default_command= the default is the first command that is not an
   internal option set *)
Theorem default_is_first_command : forall cmds st d,
  init_multicmd cmds None = Ret (st, d) -> d = hd_error (command_names st).
Proof. exact init_default_l. Qed.
Print Assumptions default_is_first_command.

(* property text: "arguments that do not start with a command name are parsed
   as the default command" *)
Definition default_command_statement : Prop :=
  forall (sub : subparser) c0 (st : state) d argv,
    ~ (argv = [] /\ c_help_if_no_args c0 = true) ->
    (forall a, hd_error argv = Some a -> ~ In a help_choices /\ ~ In a (command_names st)) ->
    parse_args sub c0 st (Some d) argv = parse_args sub c0 st (Some d) (d :: argv).

(* proved under the explicit guard: the first argument is not the name of ANY
   declared parser, i.e. not the name of an internal option set either *)
Theorem default_command : forall (sub : subparser) c0 (st : state) d argv,
  ~ (argv = [] /\ c_help_if_no_args c0 = true) ->
  (forall a, hd_error argv = Some a -> ~ In a help_choices /\ ~ In a (keys st)) ->
  parse_args sub c0 st (Some d) argv = parse_args sub c0 st (Some d) (d :: argv).
Proof. exact default_command_guarded_l. Qed.
Print Assumptions default_command.

(* ... which means: by the default command's own parser, on all of argv *)
Theorem default_command_subparse : forall (sub : subparser) c0 (st : state) d argv pa,
  ~ (argv = [] /\ c_help_if_no_args c0 = true) ->
  (forall a, hd_error argv = Some a -> ~ In a help_choices /\ ~ In a (keys st)) ->
  starts_dash d = false -> lookup d st = Some pa -> p_internal pa = false ->
  parse_args sub c0 st (Some d) argv =
  match sub (c_no_log c0) (p_flags pa) (p_poss pa) argv with
  | Some s => Ret (finish c0 d s)
  | None => Raise SystemExit
  end.
Proof. exact default_command_subparse_l. Qed.
Print Assumptions default_command_subparse.

(* the guard's complement is a defect of the current code (open finding
   default-internal-set-name): ArgParser([('ca', ..), ('!sa', ..)]),
   get_cmd_parser('ca').add_argument('paa', nargs='*'), parse_args(['sa'])
   exits although 'sa' is not a command and ['ca', 'sa'] is accepted *)
Theorem default_command_internal_name_refuted :
  exists cmds ops argv st d st',
    init_multicmd cmds None = Ret (st, Some d) /\
    apply_ops false st ops = Ret st' /\
    (forall a, hd_error argv = Some a -> ~ In a help_choices /\ ~ In a (command_names st')) /\
    parse_args mini_sub (mkCfg false false false) st' (Some d) argv = Raise SystemExit /\
    accepted (parse_args mini_sub (mkCfg false false false) st' (Some d) (d :: argv)).
Proof. exists w_cmds, w_ops, w_argv. exact default_internal_name_refuted_l. Qed.
Print Assumptions default_command_internal_name_refuted.

Theorem default_command_statement_refuted : ~ default_command_statement.
Proof.
  intros S. destruct default_internal_name_refuted_l as (st & d & st' & _ & _ & G & E1 & (n & E2)).
  specialize (S mini_sub cfg0 st' d w_argv). rewrite E1, E2 in S.
  assert (@Raise ns SystemExit = Ret n) as X; [apply S; [intros (H & _); discriminate|exact G]|discriminate].
Qed.
Print Assumptions default_command_statement_refuted.

(* ---- non-vacuity: the diamond a, b:a, c:a, d:b,c ---------------------- *)

Definition ex_a : str := [97].  Definition ex_b : str := [98].
Definition ex_c : str := [99].  Definition ex_d : str := [100].
Definition ex_diamond : list decl :=
  [mkDecl ex_a false []; mkDecl ex_b false [ex_a]; mkDecl ex_c false [ex_a]; mkDecl ex_d false [ex_b; ex_c]].
Definition ex_ops : list op :=
  [(TCmd ex_a, KFlag, [111; 97]); (TCmd ex_b, KFlag, [111; 98]); (TGlobal, KFlag, [111; 103])].

Example diamond_wf : wf ex_diamond /\ map parse_decl [[97]; [98; 58; 97]; [99; 58; 97]; [100; 58; 98; 44; 99]] = ex_diamond.
Proof. split; [apply declare_never_fails_l; eexists; vm_compute; reflexivity|vm_compute; reflexivity]. Qed.
Print Assumptions diamond_wf.

Example diamond_plain :
  Forall plain_decl ex_diamond /\
  map render ex_diamond = [[97]; [98; 58; 97]; [99; 58; 97]; [100; 58; 98; 44; 99]].
Proof.
  split; [|vm_compute; reflexivity].
  repeat constructor; try discriminate; cbn; try tauto;
    try (intros H; repeat (destruct H as [H|H]; [discriminate|]); exact H).
Qed.
Print Assumptions diamond_plain.

Example diamond_dependents :
  exists st, build ex_diamond = Ret st /\
    map (fun e => (fst e, dep_names (snd e))) st =
    [(ex_a, [ex_b; ex_c; ex_d]); (ex_b, [ex_d]); (ex_c, [ex_d]); (ex_d, [])].
Proof. eexists. split; vm_compute; reflexivity. Qed.
Print Assumptions diamond_dependents.

Example diamond_configured :
  exists st', configured ex_diamond false ex_ops st' /\
    map (fun e => (fst e, p_flags (snd e))) st' =
    [(ex_a, [[111; 97]; [111; 103]]); (ex_b, [[111; 97]; [111; 98]; [111; 103]]);
     (ex_c, [[111; 97]; [111; 103]]); (ex_d, [[111; 97]; [111; 98]; [111; 103]])] /\
    accepted (parse_args mini_sub (mkCfg false false false) st' (Some ex_a) [ex_d; flag_str [111; 98]]) /\
    parse_args mini_sub (mkCfg false false false) st' (Some ex_a) [ex_c; flag_str [111; 98]] = Raise SystemExit.
Proof.
  eexists. split; [|split; [|split]].
  - eexists. split; [vm_compute; reflexivity|]. split; [|vm_compute; reflexivity].
    split.
    + vm_compute. repeat constructor; intros H; repeat (destruct H as [H|H]; [discriminate|]); exact H.
    + repeat constructor; try (vm_compute; auto; fail); intros _; vm_compute; reflexivity.
  - vm_compute. reflexivity.
  - eexists. vm_compute. reflexivity.
  - vm_compute. reflexivity.
Qed.
Print Assumptions diamond_configured.
