(* C13/LemView.v -- what a rendering reads from the format (visible lines,
   skipped count, column widths) is the same before and after the round trip *)
From Coq Require Import ZArith List Bool Lia.
From AK Require Import Common.Sx Common.Err C13.Model C13.LemStr C13.LemFmt C13.LemState.
Import ListNotations.
Open Scope Z_scope.

(* ------------------------------------------------------------------ *)
(* functions of the format that ignore the negotiated width *)
Definition keeps (g : column -> column) : Prop :=
  forall c, c_name (g c) = c_name c /\ c_mod (g c) = c_mod c /\ c_break (g c) = c_break c /\
            c_min (g c) = c_min c /\ c_max (g c) = c_max c.

Lemma keeps_clone : keeps clone_col.
Proof. intros c. repeat split. Qed.

Lemma keeps_set_width (w : column -> Z) : keeps (fun c => set_width c (w c)).
Proof. intros c. repeat split. Qed.

Lemma break_key_keeps g fs cols r : keeps g -> break_key fs (map g cols) r = break_key fs cols r.
Proof.
  intros Hg. unfold break_key. induction cols as [|c cs IH]; [reflexivity|].
  cbn [map filter]. destruct (Hg c) as (E1 & _ & E3 & _). rewrite E3.
  destruct (c_break c); [|exact IH]. cbn [map]. rewrite E1. f_equal. exact IH.
Qed.

Lemma lines_from_keeps g fs cols : keeps g -> forall rows prev i,
  lines_from fs (map g cols) prev i rows = lines_from fs cols prev i rows.
Proof.
  intros Hg. induction rows as [|r rs IH]; intros prev i; [reflexivity|].
  cbn [lines_from]. rewrite (break_key_keeps g fs cols r Hg). rewrite IH. reflexivity.
Qed.

Lemma negotiate_keeps g fs rows vis c : keeps g ->
  negotiate_col fs rows vis (g c) = negotiate_col fs rows vis c.
Proof.
  intros Hg. destruct (Hg c) as (E1 & E2 & _ & E4 & E5).
  unfold negotiate_col, title_w, cell_len. rewrite E1, E2, E4, E5. reflexivity.
Qed.

(* ------------------------------------------------------------------ *)
(* visible lines *)
Lemma visible_norm lf ll n lines :
  visible (fst (norm_limits lf ll)) (snd (norm_limits lf ll)) n lines = visible lf ll n lines.
Proof. destruct lf, ll; reflexivity. Qed.

Fixpoint alt (l : list line) : bool :=
  match l with
  | x :: r => match r with
              | y :: _ => (is_rec x || is_rec y) && alt r
              | [] => true
              end
  | [] => true
  end.

Lemma alt_tail x r : alt (x :: r) = true -> alt r = true.
Proof. cbn [alt]. destruct r; [reflexivity|]. intros H. apply andb_prop in H as [_ H]. exact H. Qed.

Lemma alt_rec_cons i r : alt r = true -> alt (LRec i :: r) = true.
Proof. intros H. cbn [alt]. destruct r; [reflexivity|]. cbn [is_rec orb andb]. exact H. Qed.

Lemma alt_lines_from fs cols rows : forall prev i, alt (lines_from fs cols prev i rows) = true.
Proof.
  induction rows as [|r rs IH]; intros prev i; [reflexivity|].
  cbn [lines_from].
  match goal with |- context [if ?b then _ else _] => destruct b end; cbn [app].
  - change (alt (LBreak :: LRec i :: lines_from fs cols (Some (break_key fs cols r)) (S i) rs))
      with ((false || true) && alt (LRec i :: lines_from fs cols (Some (break_key fs cols r)) (S i) rs)).
    cbn [orb andb]. apply alt_rec_cons, IH.
  - apply alt_rec_cons, IH.
Qed.

Lemma alt_skipn n : forall l, alt l = true -> alt (skipn n l) = true.
Proof.
  induction n as [|n IH]; intros l H; [exact H|]. destruct l as [|x r]; [reflexivity|].
  cbn [skipn]. apply IH. apply (alt_tail x r H).
Qed.

Lemma alt_firstn n : forall l, alt l = true -> alt (firstn n l) = true.
Proof.
  induction n as [|n IH]; intros l H; [reflexivity|]. destruct l as [|x r]; [reflexivity|].
  cbn [firstn]. pose proof (IH r (alt_tail x r H)) as Hr.
  destruct n as [|n']; [reflexivity|]. destruct r as [|y r']; [reflexivity|].
  cbn [firstn] in *. cbn [alt] in H. apply andb_prop in H as [H1 _].
  change (alt (x :: y :: firstn n' r')) with ((is_rec x || is_rec y) && alt (y :: firstn n' r')).
  rewrite H1. exact Hr.
Qed.

Lemma count_recs_app a b : count_recs (a ++ b) = count_recs a + count_recs b.
Proof. unfold count_recs. rewrite filter_app, app_length. lia. Qed.

Lemma count_recs_nonneg l : 0 <= count_recs l.
Proof. unfold count_recs. lia. Qed.

Lemma alt_count l : alt l = true -> (2 <= length l)%nat -> 1 <= count_recs l.
Proof.
  destruct l as [|x [|y r]]; cbn [length]; try lia. intros H _.
  cbn [alt] in H. apply andb_prop in H as [H _].
  change (x :: y :: r) with ([x] ++ [y] ++ r). rewrite !count_recs_app.
  pose proof (count_recs_nonneg r).
  destruct x, y; cbn in H; try discriminate; unfold count_recs; cbn [filter is_rec length]; lia.
Qed.

Lemma count_recs_lines_from fs cols rows : forall prev i,
  count_recs (lines_from fs cols prev i rows) = Z.of_nat (length rows).
Proof.
  induction rows as [|r rs IH]; intros prev i; [reflexivity|].
  cbn [lines_from]. rewrite count_recs_app.
  change (LRec i :: lines_from fs cols (Some (break_key fs cols r)) (S i) rs)
    with ([LRec i] ++ lines_from fs cols (Some (break_key fs cols r)) (S i) rs).
  rewrite count_recs_app, IH. cbn [length]. rewrite Nat2Z.inj_succ.
  change (count_recs [LRec i]) with 1.
  match goal with |- context [if ?b then _ else _] => destruct b end;
    [change (count_recs [LBreak]) with 0|change (count_recs []) with 0]; lia.
Qed.

Lemma three_parts (l : list line) n1 n2 : (n1 <= n2)%nat ->
  l = firstn n1 l ++ skipn n1 (firstn n2 l) ++ skipn n2 l.
Proof.
  intros H. rewrite app_assoc.
  replace (firstn n1 l) with (firstn n1 (firstn n2 l)) by (rewrite firstn_firstn; f_equal; lia).
  rewrite firstn_skipn. rewrite firstn_skipn. reflexivity.
Qed.

(* with non-negative limits, hidden lines always contain a record *)
Lemma exceeded_skips fs cols rows a b :
  0 <= a -> 0 <= b ->
  let lines := lines_from fs cols None 0 rows in
  Z.of_nat (length lines) > a + b + 1 ->
  0 < snd (visible (Some a) (Some b) (Z.of_nat (length rows)) lines).
Proof.
  intros Ha Hb lines Hex. unfold visible.
  replace (Z.of_nat (length lines) >? a + b + 1) with true by (symmetry; apply Z.gtb_lt; lia).
  cbn [snd].
  set (len := length lines) in *.
  assert ((if a =? 0 then [] else py_take lines a) = firstn (Z.to_nat a) lines) as ->.
  { destruct (a =? 0) eqn:E; [apply Z.eqb_eq in E; subst a; reflexivity|].
    unfold py_take. replace (0 <=? a) with true by (symmetry; apply Z.leb_le; lia). reflexivity. }
  assert ((if b =? 0 then [] else py_last lines b) = skipn (len - Z.to_nat b) lines) as ->.
  { destruct (b =? 0) eqn:E.
    - apply Z.eqb_eq in E; subst b. cbn [Z.to_nat]. rewrite Nat.sub_0_r. symmetry. apply skipn_all.
    - apply Z.eqb_neq in E. unfold py_last. replace (0 <? b) with true by (symmetry; apply Z.ltb_lt; lia).
      f_equal. fold len. lia. }
  set (n1 := Z.to_nat a). set (n2 := (len - Z.to_nat b)%nat).
  assert (n1 <= n2)%nat as Hle by (unfold n1, n2; lia).
  pose proof (count_recs_lines_from fs cols rows None 0%nat) as Hc. fold lines in Hc.
  rewrite (three_parts lines n1 n2 Hle) in Hc. rewrite !count_recs_app in Hc.
  assert (1 <= count_recs (skipn n1 (firstn n2 lines))) as Hmid.
  { apply alt_count.
    - apply alt_skipn, alt_firstn. apply alt_lines_from.
    - rewrite skipn_length, firstn_length. fold len. unfold n1, n2. lia. }
  lia.
Qed.

(* ------------------------------------------------------------------ *)
(* print *)
Definition lines_of (rows : list row) (t : tstate) : list line :=
  lines_from (t_fields t) (t_cols t) None 0 rows.

Definition vis_pair (rows : list row) (t : tstate) : list line * Z :=
  visible (t_lf t) (t_ll t) (Z.of_nat (length rows)) (lines_of rows t).

Definition view_from (ws : list Z) (ncols : nat) (vis : list line) (nskip : Z) : res view :=
  if fold_right Z.add 0 ws + Z.of_nat ncols + 1 - 2 <? 0 then Err AssertErr
  else Ok (mkView ws vis nskip).

(* the view a table shows when its widths are (re)negotiated now *)
Definition expected_view (rows : list row) (t : tstate) : res view :=
  let vis := fst (vis_pair rows t) in
  view_from (map (negotiate_col (t_fields t) rows vis) (t_cols t)) (length (t_cols t))
            vis (snd (vis_pair rows t)).

Definition fresh (t : tstate) : bool :=
  forallb (fun c => match c_width c with None => true | Some _ => false end) (t_cols t).

Definition printed_ok (rows : list row) (t : tstate) : Prop :=
  t_skipped t = Some (snd (vis_pair rows t) >? 0) /\
  Forall (fun c => c_width c = Some (negotiate_col (t_fields t) rows (fst (vis_pair rows t)) c)) (t_cols t).

(* states in which the stored widths / flag agree with the records *)
Definition coherent (rows : list row) (t : tstate) : Prop :=
  (fresh t = true /\ t_skipped t = None) \/ printed_ok rows t.

Lemma fresh_not_finalized cols : cols <> [] ->
  forallb (fun c => match c_width c with None => true | Some _ => false end) cols = true ->
  finalized cols = false.
Proof.
  destruct cols as [|c r]; [congruence|]. intros _ H. cbn [forallb] in H. apply andb_prop in H as [H _].
  unfold finalized. cbn [forallb]. destruct (c_width c); [discriminate|reflexivity].
Qed.

Lemma print_unfold rows t :
  print rows t =
  (let vis := fst (vis_pair rows t) in
   let nskip := snd (vis_pair rows t) in
   let cols := if finalized (t_cols t) then t_cols t
               else map (fun c => set_width c (negotiate_col (t_fields t) rows vis c)) (t_cols t) in
   let ws := map (fun c => dflt (c_width c) 0) cols in
   (mkT (t_fields t) cols (t_lf t) (t_ll t) (Some (nskip >? 0)),
    view_from ws (length cols) vis nskip)).
Proof.
  unfold print, vis_pair, lines_of, view_from.
  destruct (visible (t_lf t) (t_ll t) (Z.of_nat (length rows))
              (lines_from (t_fields t) (t_cols t) None 0 rows)) as [vis nskip].
  reflexivity.
Qed.

Lemma print_fresh rows t : t_cols t <> [] -> fresh t = true ->
  print rows t =
  (mkT (t_fields t)
       (map (fun c => set_width c (negotiate_col (t_fields t) rows (fst (vis_pair rows t)) c)) (t_cols t))
       (t_lf t) (t_ll t) (Some (snd (vis_pair rows t) >? 0)),
   expected_view rows t).
Proof.
  intros Hne Hf. rewrite print_unfold. cbv zeta.
  rewrite (fresh_not_finalized _ Hne Hf). unfold expected_view.
  rewrite map_map, map_length. reflexivity.
Qed.

Lemma printed_widths rows t : printed_ok rows t ->
  finalized (t_cols t) = true /\
  map (fun c => dflt (c_width c) 0) (t_cols t)
  = map (negotiate_col (t_fields t) rows (fst (vis_pair rows t))) (t_cols t).
Proof.
  intros [_ H]. unfold finalized. induction H as [|c r Hc Hr IH]; [split; reflexivity|].
  destruct IH as [IH1 IH2]. cbn [forallb map]. rewrite Hc, IH1, IH2. split; reflexivity.
Qed.

Lemma print_printed rows t : printed_ok rows t ->
  print rows t = (t, expected_view rows t).
Proof.
  intros H. destruct (printed_widths rows t H) as [E1 E2]. destruct H as [Hs _].
  rewrite print_unfold. cbv zeta. rewrite E1, E2. unfold expected_view. rewrite <- Hs.
  destruct t; reflexivity.
Qed.

Theorem print_view rows t : t_cols t <> [] -> coherent rows t ->
  snd (print rows t) = expected_view rows t.
Proof.
  intros Hne [[Hf _]|Hp].
  - rewrite (print_fresh rows t Hne Hf). reflexivity.
  - rewrite (print_printed rows t Hp). reflexivity.
Qed.

(* printing keeps the state coherent, and printing again shows the same *)
Lemma vis_pair_keeps g rows t cols' sk : keeps g -> cols' = map g (t_cols t) ->
  vis_pair rows (mkT (t_fields t) cols' (t_lf t) (t_ll t) sk) = vis_pair rows t.
Proof.
  intros Hg ->. unfold vis_pair, lines_of. cbn [t_fields t_cols t_lf t_ll].
  rewrite (lines_from_keeps g _ _ Hg). reflexivity.
Qed.

Theorem print_coherent rows t : t_cols t <> [] -> coherent rows t ->
  printed_ok rows (fst (print rows t)).
Proof.
  intros Hne [[Hf _]|Hp].
  - rewrite (print_fresh rows t Hne Hf). cbn [fst].
    set (w := fun c => negotiate_col (t_fields t) rows (fst (vis_pair rows t)) c).
    assert (forall sk, vis_pair rows (mkT (t_fields t) (map (fun c => set_width c (w c)) (t_cols t))
                                       (t_lf t) (t_ll t) sk) = vis_pair rows t) as Ev.
    { intros sk. apply (vis_pair_keeps (fun c => set_width c (w c))); [apply keeps_set_width|reflexivity]. }
    unfold printed_ok. rewrite Ev. cbn [t_skipped t_cols t_fields]. split; [reflexivity|].
    apply Forall_forall. intros c Hc. apply in_map_iff in Hc as (c0 & <- & _).
    cbn [set_width c_width]. reflexivity.
  - rewrite (print_printed rows t Hp). exact Hp.
Qed.

Theorem print_idempotent rows t : t_cols t <> [] -> coherent rows t ->
  snd (print rows (fst (print rows t))) = snd (print rows t).
Proof.
  intros Hne Hc. pose proof (print_coherent rows t Hne Hc) as Hp.
  rewrite (print_printed _ _ Hp). cbn [snd].
  destruct Hc as [[Hf _]|Hp0].
  - rewrite (print_fresh rows t Hne Hf). cbn [fst snd].
    set (w := fun c => negotiate_col (t_fields t) rows (fst (vis_pair rows t)) c).
    unfold expected_view.
    rewrite (vis_pair_keeps (fun c => set_width c (w c)) rows t _ _ (keeps_set_width w) eq_refl).
    cbn [t_fields t_cols]. rewrite map_map, map_length. reflexivity.
  - rewrite (print_printed rows t Hp0). reflexivity.
Qed.

(* ------------------------------------------------------------------ *)
(* round trips at the level of the view *)
Lemma expected_view_clone rows t lf ll sk :
  visible lf ll (Z.of_nat (length rows)) (lines_of rows t) = vis_pair rows t ->
  expected_view rows (mkT (t_fields t) (map clone_col (t_cols t)) lf ll sk) = expected_view rows t.
Proof.
  intros Hv. unfold expected_view.
  assert (vis_pair rows (mkT (t_fields t) (map clone_col (t_cols t)) lf ll sk) = vis_pair rows t) as ->.
  { unfold vis_pair at 1, lines_of. cbn [t_fields t_cols t_lf t_ll].
    rewrite (lines_from_keeps clone_col _ _ keeps_clone). exact Hv. }
  cbn [t_fields t_cols]. rewrite map_map, map_length. reflexivity.
Qed.

Lemma clone_fresh (t : tstate) lf ll :
  fresh (mkT (t_fields t) (map clone_col (t_cols t)) lf ll None) = true.
Proof. unfold fresh. cbn [t_cols]. induction (t_cols t) as [|c r IH]; [reflexivity|]. cbn. exact IH. Qed.

Lemma clone_coherent rows (t : tstate) lf ll :
  coherent rows (mkT (t_fields t) (map clone_col (t_cols t)) lf ll None).
Proof. left. split; [apply clone_fresh|reflexivity]. Qed.

Lemma map_clone_nonempty (cs : list column) : cs <> [] -> map clone_col cs <> [].
Proof. destruct cs; [congruence|discriminate]. Qed.

Theorem view_setter rows t : t_cols t <> [] -> coherent rows t ->
  snd (print rows (reformatted t)) = snd (print rows t).
Proof.
  intros Hne Hc. rewrite (print_view rows t Hne Hc).
  unfold reformatted. rewrite print_view; [|apply map_clone_nonempty, Hne|apply clone_coherent].
  apply expected_view_clone. unfold setter_limits, vis_pair.
  destruct (t_skipped t) as [[|]|]; cbn [fst snd]; try apply visible_norm. reflexivity.
Qed.

Theorem view_cleared rows t : t_cols t <> [] -> coherent rows t ->
  snd (print rows (cleared t)) = snd (print rows t).
Proof.
  intros Hne Hc. rewrite (print_view rows t Hne Hc).
  unfold cleared. rewrite print_view; [|apply map_clone_nonempty, Hne|apply clone_coherent].
  apply expected_view_clone. reflexivity.
Qed.

Definition nonneg_limits (t : tstate) : Prop :=
  match t_lf t, t_ll t with Some a, Some b => 0 <= a /\ 0 <= b | _, _ => True end.

Theorem view_ctor rows t : t_cols t <> [] -> coherent rows t -> nonneg_limits t ->
  snd (print rows (rebuilt t)) = snd (print rows t).
Proof.
  intros Hne Hc Hnn. rewrite (print_view rows t Hne Hc).
  unfold rebuilt. rewrite print_view; [|apply map_clone_nonempty, Hne|apply clone_coherent].
  apply expected_view_clone. unfold ctor_limits.
  destruct (t_skipped t) as [[|]|] eqn:Es; cbn [fst snd]; try apply visible_norm.
  (* printed, nothing skipped: the limits are dropped; they were not exceeded *)
  destruct Hc as [[_ Hn]|[Hs _]]; [congruence|].
  rewrite Es in Hs. inversion Hs as [Hs']. symmetry in Hs'. rewrite Z.gtb_ltb in Hs'. apply Z.ltb_ge in Hs'.
  unfold vis_pair in *. unfold nonneg_limits in Hnn.
  destruct (t_lf t) as [a|], (t_ll t) as [b|]; try reflexivity.
  destruct Hnn as [Ha Hb].
  destruct (Z.of_nat (length (lines_of rows t)) >? a + b + 1) eqn:E.
  - apply Z.gtb_lt in E.
    pose proof (exceeded_skips (t_fields t) (t_cols t) rows a b Ha Hb ltac:(unfold lines_of in E; lia)) as Hx.
    unfold lines_of in Hs'. lia.
  - unfold visible. rewrite E. reflexivity.
Qed.
