(* C01/LemmasTop.v -- parse_sound assembled: validator + table containment +
   parse-loop invariant; the instance for a parser made by [build]. *)
From Coq Require Import ZArith List Bool Lia.
From AK Require Import LLP.Build C01.Basics C01.Spec C01.Run C01.Lemmas C01.LemmasFact C01.LemmasTable
  C01.FactProps C01.FactAll C01.FactSmart4.
Import ListNotations.
Local Open Scope nat_scope.

Theorem parse_sound_l : forall ug fg sfxs is_term table toks k start t,
  fact_ok ug fg sfxs = true ->
  (forall nt tok r, In r (table nt tok) -> In r (grules fg nt)) ->
  (forall s, mem s sfxs = true -> is_term s = false) ->
  is_term END_TOKEN = true ->
  In start (map fst ug) ->
  parse is_term table sfxs toks k start = Ok t ->
  tree_name t = start /\ valid_tree ug t /\ no_helper sfxs t /\ kinds_ok is_term t /\
  exists n tk, nth_error toks n = Some tk /\ tname tk = END_TOKEN /\
               leaves t = map tok_pair (firstn n toks).
Proof.
  intros ug fg sfxs is_term table toks k start t Hok Htbl Hterm Hend Hstart Hp.
  pose proof (parse_result_ok ug fg sfxs is_term table toks start
                (fact_ok_sound ug fg sfxs Hok) (fact_ok_last ug fg sfxs Hok)
                Hterm (fact_ok_fresh ug fg sfxs Hok start Hstart) Hend Htbl k t Hp) as [H1 [[H2 [H3 H4]] H5]].
  tauto.
Qed.

(* the tokens before the first (= only) $END$ token *)
Lemma firstn_before_end : forall (body : list token) e n tk,
  (forall b, In b body -> tname b <> END_TOKEN) ->
  nth_error (body ++ [e]) n = Some tk -> tname tk = END_TOKEN -> firstn n (body ++ [e]) = body.
Proof.
  intros body e n tk Hb Hn He.
  destruct (Nat.lt_ge_cases n (length body)) as [Hlt|Hge].
  - rewrite nth_error_app1 in Hn by assumption. apply nth_error_In in Hn. apply Hb in Hn. contradiction.
  - assert (Hlen : n < length (body ++ [e])) by (apply nth_error_Some; congruence).
    rewrite app_length in Hlen. cbn in Hlen. assert (n = length body) by lia. subst n.
    rewrite firstn_app, firstn_all, Nat.sub_diag. cbn. now rewrite app_nil_r.
Qed.

Theorem parse_sound_tokens_l : forall ug fg sfxs is_term table body e k start t,
  fact_ok ug fg sfxs = true ->
  (forall nt tok r, In r (table nt tok) -> In r (grules fg nt)) ->
  (forall s, mem s sfxs = true -> is_term s = false) ->
  is_term END_TOKEN = true ->
  In start (map fst ug) ->
  (forall b, In b body -> tname b <> END_TOKEN) ->
  parse is_term table sfxs (body ++ [e]) k start = Ok t ->
  tree_name t = start /\ valid_tree ug t /\ no_helper sfxs t /\ kinds_ok is_term t /\
  leaves t = map tok_pair body.
Proof.
  intros ug fg sfxs is_term table body e k start t Hok Htbl Hterm Hend Hstart Hb Hp.
  destruct (parse_sound_l _ _ _ _ _ _ _ _ _ Hok Htbl Hterm Hend Hstart Hp) as [H1 [H2 [H3 [H4 [n [tk [Hn [He Hl]]]]]]]].
  repeat split; try assumption. rewrite Hl. f_equal. eapply firstn_before_end; eassumption.
Qed.

(* ---------------- the parser made by the constructor model ---------------- *)
Lemma build_inv : forall ug terminals smart start p,
  build ug terminals smart start = Ok p ->
  exists g sfxs, factorize ug terminals smart = Ok (g, sfxs) /\
    p = mkParser start (terminals ++ [END_TOKEN]) g sfxs (make_tables g (terminals ++ [END_TOKEN]) start).
Proof.
  intros ug terminals smart start p H. unfold build in H.
  destruct (existsb has_dunder terminals || has_dunder start); [discriminate|].
  destruct (factorize ug terminals smart) as [[g sfxs]|] eqn:E; [|discriminate].
  cbn [bind] in H.
  destruct (rec_check g (terminals ++ [END_TOKEN]) (t_nulls (make_tables g (terminals ++ [END_TOKEN]) start))); [|discriminate].
  cbn [bind] in H. injection H as <-. now exists g, sfxs.
Qed.

Theorem parse_sound_build_l : forall ug terminals smart start p k body e t,
  build ug terminals smart start = Ok p ->
  fact_ok ug (p_grammar p) (p_sfxs p) = true ->
  (forall s, In s (p_sfxs p) -> ~ In s (p_terminals p)) ->
  In start (map fst ug) ->
  (forall b, In b body -> tname b <> END_TOKEN) ->
  p_parse p k (body ++ [e]) = Ok t ->
  tree_name t = start /\ valid_tree ug t /\ no_helper (p_sfxs p) t /\
  kinds_ok (fun s => mem s (p_terminals p)) t /\ leaves t = map tok_pair body.
Proof.
  intros ug terminals smart start p k body e t Hb Hok Hdis Hstart Hbody Hp.
  destruct (build_inv _ _ _ _ _ Hb) as [g [sfxs [Hf ->]]]. cbn [p_grammar p_sfxs p_terminals p_tables p_start] in *.
  unfold p_parse in Hp. cbn [p_grammar p_sfxs p_terminals p_tables p_start] in Hp.
  eapply parse_sound_tokens_l; try eassumption.
  - intros nt tok r Hr. eapply table_sub; eassumption.
  - intros s Hs. apply mem_In in Hs. apply mem_not_In. now apply Hdis.
  - rewrite mem_app. replace (mem END_TOKEN [END_TOKEN]) with true by (symmetry; apply mem_In; now left).
    apply orb_true_r.
Qed.

Lemma hyps_ok_parts : forall ug start p, hyps_ok ug start p = true ->
  fact_ok ug (p_grammar p) (p_sfxs p) = true /\
  (forall s, In s (p_sfxs p) -> ~ In s (p_terminals p)) /\ In start (map fst ug).
Proof.
  intros ug start p H. unfold hyps_ok in H. repeat rewrite andb_true_iff in H. destruct H as [[H1 H2] H3].
  split; [assumption|]. split.
  - intros s Hs. rewrite forallb_forall in H2. apply H2 in Hs. apply negb_true_iff in Hs. now apply mem_not_In.
  - now apply mem_In.
Qed.

Theorem parse_sound_build_h : forall ug terminals smart start p k body e t,
  build ug terminals smart start = Ok p ->
  hyps_ok ug start p = true ->
  (forall b, In b body -> tname b <> END_TOKEN) ->
  p_parse p k (body ++ [e]) = Ok t ->
  tree_name t = start /\ valid_tree ug t /\ no_helper (p_sfxs p) t /\
  kinds_ok (fun s => mem s (p_terminals p)) t /\ leaves t = map tok_pair body.
Proof.
  intros ug terminals smart start p k body e t Hb Hh Hbody Hp.
  destruct (hyps_ok_parts _ _ _ Hh) as [H1 [H2 H3]].
  eapply parse_sound_build_l; eassumption.
Qed.

(* ---------------- no validator hypothesis: the factorization is proved correct ---------------- *)
Theorem parse_sound_gen : forall ug fg sfxs is_term table body e k start t,
  fact_ok ug fg sfxs = true ->
  (forall nt tok r, In r (table nt tok) -> In r (grules fg nt)) ->
  (forall s, mem s sfxs = true -> is_term s = false) ->
  is_term END_TOKEN = true ->
  mem start sfxs = false ->
  (forall b, In b body -> tname b <> END_TOKEN) ->
  parse is_term table sfxs (body ++ [e]) k start = Ok t ->
  tree_name t = start /\ valid_tree ug t /\ no_helper sfxs t /\ kinds_ok is_term t /\
  leaves t = map tok_pair body.
Proof.
  intros ug fg sfxs is_term table body e k start t Hok Htbl Hterm Hend Hstart Hb Hp.
  pose proof (parse_result_ok ug fg sfxs is_term table (body ++ [e]) start
                (fact_ok_sound ug fg sfxs Hok) (fact_ok_last ug fg sfxs Hok)
                Hterm Hstart Hend Htbl k t Hp) as [H1 [[H2 [H3 H4]] [n [tk [Hn [He Hl]]]]]].
  repeat split; try assumption. rewrite Hl. f_equal. eapply firstn_before_end; eassumption.
Qed.

Lemma factorize_sfxs_dunder : forall ug terminals smart g sfxs,
  factorize ug terminals smart = Ok (g, sfxs) -> forall x, In x sfxs -> has_dunder x = true.
Proof.
  intros ug terminals smart g sfxs H x Hx.
  destruct (factorize_inv _ _ _ _ _ H) as [Hd [g1 [ss [Hf [Hnd Heq]]]]].
  pose proof (factorize_all_g1spec ug g1 ss Hd Hf Hnd) as Hspec.
  apply (g1_dunder _ _ _ Hspec). destruct smart.
  - unfold smart_pass in Heq.
    destruct (fold_left _ (sort_by_len_desc (gkeys g1)) (g1, [])) as [g' rem] in Heq.
    injection Heq as _ ->. now apply filter_In in Hx as [Hx _].
  - now injection Heq as _ ->.
Qed.

Lemma build_inv_names : forall ug terminals smart start p,
  build ug terminals smart start = Ok p ->
  (forall t, In t terminals -> has_dunder t = false) /\ has_dunder start = false.
Proof.
  intros ug terminals smart start p H. unfold build in H.
  destruct (existsb has_dunder terminals || has_dunder start) eqn:E; [discriminate|].
  apply orb_false_iff in E as [E1 E2]. split; [|assumption].
  intros t Ht. rewrite existsb_false in E1. now apply E1.
Qed.

Theorem parse_sound_constructor_l : forall ug terminals smart start p k body e t,
  build ug terminals smart start = Ok p ->
  (forall b, In b body -> tname b <> END_TOKEN) ->
  p_parse p k (body ++ [e]) = Ok t ->
  tree_name t = start /\ valid_tree ug t /\ no_helper (p_sfxs p) t /\
  kinds_ok (fun s => mem s (p_terminals p)) t /\ leaves t = map tok_pair body.
Proof.
  intros ug terminals smart start p k body e t Hb Hbody Hp.
  destruct (build_inv_names _ _ _ _ _ Hb) as [Hterm Hstart].
  destruct (build_inv _ _ _ _ _ Hb) as [g [sfxs [Hf ->]]].
  cbn [p_grammar p_sfxs p_terminals p_tables p_start] in *.
  unfold p_parse in Hp. cbn [p_grammar p_sfxs p_terminals p_tables p_start] in Hp.
  pose proof (factorize_sfxs_dunder _ _ _ _ _ Hf) as Hd.
  eapply parse_sound_gen; try eassumption.
  - eapply factorize_ok_l; eassumption.
  - intros nt tok r Hr. eapply table_sub; eassumption.
  - intros s Hs. apply mem_In in Hs. apply Hd in Hs. apply mem_not_In. intros Hin.
    apply in_app_or in Hin as [Hin|[<-|[]]]; [apply Hterm in Hin; congruence|].
    vm_compute in Hs. discriminate.
  - rewrite mem_app. replace (mem END_TOKEN [END_TOKEN]) with true by (symmetry; apply mem_In; now left).
    apply orb_true_r.
  - apply mem_not_In. intros Hin. apply Hd in Hin. congruence.
Qed.

(* the check evaluated in the correspondence run is implied by the constructor's success *)
Theorem build_hyps_ok_l : forall ug terminals smart start p,
  build ug terminals smart start = Ok p -> In start (map fst ug) -> hyps_ok ug start p = true.
Proof.
  intros ug terminals smart start p Hb Hstart.
  destruct (build_inv_names _ _ _ _ _ Hb) as [Hterm Hst].
  destruct (build_inv _ _ _ _ _ Hb) as [g [sfxs [Hf ->]]].
  unfold hyps_ok. cbn [p_grammar p_sfxs p_terminals].
  apply andb_true_iff; split; [apply andb_true_iff; split|].
  - eapply factorize_ok_l; eassumption.
  - apply forallb_forall. intros s Hs. apply negb_true_iff. apply mem_not_In. intros Hin.
    pose proof (factorize_sfxs_dunder _ _ _ _ _ Hf s Hs) as Hd.
    apply in_app_or in Hin as [Hin|[<-|[]]]; [apply Hterm in Hin; congruence|]. vm_compute in Hd. discriminate.
  - now apply mem_In.
Qed.
