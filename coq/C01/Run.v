(* C01/Run.v -- correspondence entry point: build a parser from the user's
   grammar, report is_ambiguous and the raw parse tree of each token list. *)
From Coq Require Import ZArith List Bool.
From AK Require Export LLP.Build.
Import ListNotations.

Inductive case :=
| Grammar (ug : list (sym * list (list sym))) (terminals : list sym) (smart : bool) (start : sym)
          (fuel : nat) (inputs : list (list (sym * list Z))).

Definition run (c : case) : sx :=
  match c with
  | Grammar ug terminals smart start fuel inputs =>
      match build ug terminals smart start with
      | Err e => SL [SZ 1; SZ (err_code e)]
      | Ok p =>
          SL [SZ 0; sx_bool (is_ambiguous (p_tables p));
              SL (map (fun inp => sx_res sx_tree (p_parse p fuel (mk_toks inp))) inputs)]
      end
  end.
