(* C02/LemNull.v -- nullables g (model of _get_nullables) is exactly the
   inductive set Nullable g. *)
From Coq Require Import ZArith List Bool Lia.
From AK Require Import Common.Err LLP.Base LLP.Table C02.Model C02.Spec C02.LemBase.
Import ListNotations.

Lemma NullSeq_Forall : forall g p, NullSeq g p <-> Forall (Nullable g) p.
Proof.
  intros g p. split; intro H.
  - induction p as [|s p IH]; [constructor|]. inversion H; subst. constructor; auto.
  - induction H; constructor; auto.
Qed.

Lemma NullSeq_app : forall g p q, NullSeq g (p ++ q) <-> NullSeq g p /\ NullSeq g q.
Proof.
  intros g p q. rewrite !NullSeq_Forall. rewrite Forall_app. tauto.
Qed.

Definition nstep_f (S0 : list sym) : list sym -> sym * list rule -> list sym :=
  fun acc '(nt, rules) =>
    if mem nt acc then acc
    else if existsb (fun r => prod_all_in S0 (rprod r)) rules then acc ++ [nt] else acc.

Lemma null_step_unfold : forall g S0, null_step g S0 = fold_left (nstep_f S0) g S0.
Proof. reflexivity. Qed.

Lemma nstep_ext : forall S0 l acc, exists e, fold_left (nstep_f S0) l acc = acc ++ e.
Proof.
  intros S0 l. induction l as [|[nt rules] l IH]; simpl; intro acc.
  - exists []. rewrite app_nil_r. reflexivity.
  - destruct (mem nt acc); [apply IH|].
    destruct (existsb _ rules); [|apply IH].
    destruct (IH (acc ++ [nt])) as [e E]. exists ([nt] ++ e). rewrite E. rewrite app_assoc. reflexivity.
Qed.

Lemma nstep_mono : forall S0 l acc x, In x acc -> In x (fold_left (nstep_f S0) l acc).
Proof.
  intros S0 l acc x H. destruct (nstep_ext S0 l acc) as [e E]. rewrite E. apply in_or_app. auto.
Qed.

Lemma nstep_inv : forall (P : sym -> Prop) S0 l acc,
  (forall nt rules r, In (nt, rules) l -> In r rules -> prod_all_in S0 (rprod r) = true -> P nt) ->
  (forall x, In x acc -> P x) ->
  forall x, In x (fold_left (nstep_f S0) l acc) -> P x.
Proof.
  intros P S0 l. induction l as [|[nt rules] l IH]; simpl; intros acc Hl Ha x Hx; auto.
  revert Hx. apply IH.
  - intros nt' rules' r H1 H2 H3. apply (Hl nt' rules' r); auto.
  - intros y Hy. destruct (mem nt acc); auto.
    destruct (existsb (fun r => prod_all_in S0 (rprod r)) rules) eqn:E; auto.
    apply in_app_or in Hy. destruct Hy as [Hy|[Hy|[]]]; auto. subst y.
    apply existsb_exists in E. destruct E as [r [Hr Hp]]. apply (Hl nt rules r); auto.
Qed.

Lemma nstep_NoDup : forall S0 l acc, NoDup acc -> NoDup (fold_left (nstep_f S0) l acc).
Proof.
  intros S0 l. induction l as [|[nt rules] l IH]; simpl; intros acc H; auto.
  apply IH. destruct (mem nt acc) eqn:E; auto.
  destruct (existsb _ rules); auto. apply NoDup_snoc; auto. apply mem_false. exact E.
Qed.

Lemma nstep_complete : forall S0 l acc nt rules r,
  In (nt, rules) l -> In r rules -> prod_all_in S0 (rprod r) = true ->
  In nt (fold_left (nstep_f S0) l acc).
Proof.
  intros S0 l. induction l as [|[nt0 rules0] l IH]; simpl; intros acc nt rules r Hl Hr Hp; [contradiction|].
  destruct Hl as [Hl|Hl].
  - inversion Hl; subst. apply nstep_mono.
    destruct (mem nt acc) eqn:E; [apply mem_In; exact E|].
    assert (X : existsb (fun r => prod_all_in S0 (rprod r)) rules = true).
    { apply existsb_exists. exists r. auto. }
    rewrite X. apply in_or_app. right. left. reflexivity.
  - apply (IH _ nt rules r); auto.
Qed.

Lemma prod_all_in_spec : forall S0 p, prod_all_in S0 p = true <-> (forall s, In s p -> In s S0).
Proof.
  intros S0 p. unfold prod_all_in. rewrite forallb_forall. split; intros H s Hs.
  - apply mem_In. auto.
  - apply mem_In. auto.
Qed.

Section Null.
  Variable g : grammar.
  Hypothesis Hnodup : NoDup (gkeys g).

  Lemma all_Nullable_NullSeq : forall p, (forall s, In s p -> Nullable g s) -> NullSeq g p.
  Proof.
    intros p H. apply NullSeq_Forall. apply Forall_forall. exact H.
  Qed.

  Definition null_inv (S0 : list sym) : Prop :=
    NoDup S0 /\ incl S0 (gkeys g) /\ forall s, In s S0 -> Nullable g s.

  Lemma null_step_inv : forall S0, null_inv S0 -> null_inv (null_step g S0).
  Proof.
    intros S0 [H1 [H2 H3]]. rewrite null_step_unfold. split; [|split].
    - apply nstep_NoDup. exact H1.
    - intros x Hx. revert x Hx. apply (nstep_inv (fun x => In x (gkeys g)) S0 g S0); auto.
      intros nt rules r Hl _ _. unfold gkeys. apply in_map_iff. exists (nt, rules). auto.
    - apply (nstep_inv (Nullable g) S0 g S0); auto.
      intros nt rules r Hl Hr Hp. apply Nullable_intro with (r := r).
      + rewrite (In_grules g nt rules Hnodup Hl). exact Hr.
      + apply all_Nullable_NullSeq. intros s Hs. apply H3.
        apply (proj1 (prod_all_in_spec S0 (rprod r)) Hp). exact Hs.
  Qed.

  Lemma null_step_progress : forall S0, null_step g S0 = S0 \/ (length S0 < length (null_step g S0))%nat.
  Proof.
    intro S0. rewrite null_step_unfold. destruct (nstep_ext S0 g S0) as [e E]. rewrite E.
    destruct e as [|x e].
    - left. apply app_nil_r.
    - right. rewrite app_length. simpl. lia.
  Qed.

  Lemma null_inv_init : null_inv [].
  Proof.
    split; [constructor|]. split; intros x [].
  Qed.

  Lemma nullables_inv : null_inv (nullables g).
  Proof.
    unfold nullables. apply (iter_inv null_inv); [apply null_step_inv|apply null_inv_init].
  Qed.

  Lemma nullables_fixpoint : null_step g (nullables g) = nullables g.
  Proof.
    unfold nullables.
    apply (iter_reaches_fixpoint null_inv (null_step g) (@length sym) (length g)).
    - apply null_step_inv.
    - intros x _. apply null_step_progress.
    - intros x [H1 [H2 _]]. pose proof (NoDup_incl_length H1 H2) as L.
      unfold gkeys in L. rewrite map_length in L. exact L.
    - lia.
    - apply null_inv_init.
  Qed.

  Lemma nullable_sound : forall s, In s (nullables g) -> Nullable g s.
  Proof. apply nullables_inv. Qed.

  Lemma nullable_complete : forall s, Nullable g s -> In s (nullables g).
  Proof.
    apply (Nullable_mind g (fun s => In s (nullables g)) (fun p => forall s, In s p -> In s (nullables g))).
    - intros nt r Hr _ IH. rewrite <- nullables_fixpoint. rewrite null_step_unfold.
      apply (nstep_complete _ g _ nt (grules g nt) r); auto.
      + apply grules_In_g with (r := r). exact Hr.
      + apply prod_all_in_spec. exact IH.
    - intros s [].
    - intros s p _ H1 _ H2 x [Hx|Hx]; subst; auto.
  Qed.

  Theorem nullable_exact_l : forall s, In s (nullables g) <-> Nullable g s.
  Proof. intro s. split; [apply nullable_sound|apply nullable_complete]. Qed.

  Lemma nullables_keys : forall s, In s (nullables g) -> In s (gkeys g).
  Proof. intros s H. destruct nullables_inv as [_ [H2 _]]. apply H2. exact H. Qed.

  Lemma nulls_forallb : forall p, forallb (fun x => mem x (nullables g)) p = true <-> NullSeq g p.
  Proof.
    intro p. rewrite forallb_forall. rewrite NullSeq_Forall, Forall_forall. split; intros H x Hx.
    - apply nullable_sound. apply mem_In. auto.
    - apply mem_In. apply nullable_complete. auto.
  Qed.
End Null.
